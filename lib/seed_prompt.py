#!/usr/bin/env python3
"""Create a scratch worktree for a seeded-break author and print the prompt (property text + worktree only)."""
import json, os, subprocess, sys
pid = sys.argv[1]; tag = sys.argv[2] if len(sys.argv) > 2 else pid
props = {json.loads(l)["id"]: json.loads(l) for l in open("/verif/properties.jsonl")}
p = props[pid]
base = f"/tmp/seed/{tag}"
os.makedirs(base + "/out", exist_ok=True)
if not os.path.exists(base + "/wt"):
    subprocess.run(["git", "-C", "/repo", "worktree", "add", "--detach", base + "/wt", "HEAD"], check=True, stdout=subprocess.DEVNULL, stderr=subprocess.DEVNULL)
extra = sys.argv[3] if len(sys.argv) > 3 else ""
print(f"""You are playing the role of a developer who accidentally (but realistically) introduces a subtle bug, so that an independent verification effort can be tested against it.

You work ONLY inside the git worktree {base}/wt — a checkout of the Rust workspace `flyingrobots/echo` (deterministic graph-rewriting simulation engine "WARP"). The sandbox is offline: there is no network; always pass `--offline` to cargo (e.g. `CARGO_NET_OFFLINE=true cargo test --offline -p warp-core`). Do NOT read, list or touch /verif or /repo (or any other directory under /tmp/seed than your own) — your work must be independent of them. Keep all build output inside your worktree (default `target/` there).

The property that should hold of the code base (this is all you are given):

  id: {p['id']}
  title: {p['title']}
  statement: {p['statement']}
  anchored in: {json.dumps(p.get('anchors', {}).get('files', []))}

Your task: write a change to the repository's *source* (not its tests) that BREAKS this property, while the workspace still compiles and the existing test suite still passes. It must look like something a developer could plausibly commit (an optimisation, a refactor, a dropped check, a reordered step, a changed comparison, a cache, an off-by-one...), and it must need something *specific* to manifest — a particular interleaving, a crash or fault at a particular point, a multi-step sequence of operations, an unusual input, or two cooperating sites that each look fine alone — NOT something ordinary use (or the existing tests) would expose at once. Prefer a change deep in the behaviour the property is about over a trivial edit. {extra}

Also write a demonstration: a new test (preferably an integration test file under the relevant crate's `tests/` directory, or a small example program) that FAILS with your change applied and PASSES on the unchanged code.

You must verify all of the following yourself and report the commands and results:
 1. with your change applied the workspace builds (`cargo build --offline -p <crates you touched>` and their dependents you think relevant);
 2. with your change applied the existing tests of every crate you touched pass (`cargo nextest run --offline -p <crate>` — nextest is installed — or `cargo test --offline -p <crate>`; for warp-core this takes several minutes; a handful of `echo-wesley-gen::generation` tests and `warp-core::external_consumer_contract_fixture_tests inverse_intent_resolves_one_admitted_transition_after_restart` fail on the unchanged tree already and may be ignored);
 3. with your change applied your demonstration FAILS;
 4. with your change reverted (`git stash` / `git apply -R`) your demonstration PASSES.
If the existing tests catch your change, pick a different change (do not edit or delete existing tests).

Deliverables (write them to {base}/out/):
  * patch.diff — `git diff` of the source change ONLY (must apply with `git apply` to a clean checkout of the same commit);
  * demo.diff — a diff that adds ONLY the demonstration test/program (applies to a clean checkout too);
  * NOTES.md — which part of the property it breaks, exactly what is needed for it to manifest (input / sequence / schedule / fault point), how to run the demonstration (exact command), and the commands you ran for steps 1-4 with their outcomes.
Leave the worktree with both diffs applied. Do not commit. Budget: aim to finish within about 75 minutes of work; never build or test the whole workspace (disk is limited): build and test only the crates you touched (`-p <crate>`).""")
