#!/usr/bin/env python3
"""seed_store.py <tag> <seed-id> <property> '<summary>' '<needs>' '<detected-by json>' : copy a confirmed seeded break into /verif/seeded/<seed-id>/"""
import json, os, shutil, sys, subprocess
tag, sid, prop, summary, needs, detected = sys.argv[1:7]
src = f"/tmp/seed/{tag}"
dst = f"/verif/seeded/{sid}"
os.makedirs(dst, exist_ok=True)
for f in ("patch.diff", "demo.diff", "NOTES.md"):
    shutil.copy(f"{src}/out/{f}", f"{dst}/{f}")
confirm = open(f"{src}/confirm.log").read().strip().splitlines() if os.path.exists(f"{src}/confirm.log") else []
base = subprocess.run(["git", "-C", f"{src}/wt", "rev-parse", "--short", "HEAD"], stdout=subprocess.PIPE, text=True).stdout.strip()
meta = {
    "seed_id": sid, "property": prop, "summary": summary, "needs_to_manifest": needs,
    "authored_by": "independent sub-agent given only the property text and a scratch worktree",
    "base_commit": base,
    "confirmed_in_scratch_worktree": confirm,
    "how_confirmed": "lib/seed_confirm.sh: patch only -> full pinned suite (lib/baseline_check.py, all stable_pass tests pass); patch+demo -> demo fails; demo only -> demo passes",
    "detected_by": json.loads(detected),
    "how_tried": "lib/seed_try.sh: git -C /repo apply patch.diff; ./check <id> --tier quick (evidence redirected); git -C /repo checkout -- .",
}
json.dump(meta, open(f"{dst}/meta.json", "w"), indent=1)
print("stored", dst)
