#!/usr/bin/env python3
"""C19 driver: the same verif-math source built at several optimisation levels.

    lib/c19_driver.py --prop C19 --tier quick|thorough --seed N --evidence F
                      --replay-dir D --known F [--replay FILE] [--jobs N]
    lib/c19_driver.py --setup          # pre-build every profile

Steps: build `verif-math` for every profile (cargo --offline, honouring
VERIF_REPO_OVERRIDE exactly like ./check), run each binary in `--mode emit`
(one BLAKE3 digest per (scope, op, block) + in-build invariant monitors), diff the
block digests across profiles, bisect a differing block to the single input
(`--mode dump` in two profiles + `--mode explain`), and hand one merged summary to
`verif-math --mode report`, which writes the evidence file and prints
VIOLATION / KNOWN-FINDING lines through verif_core::Report.

Exit codes follow ./check: 0 held, 1 violation, 2 broken/inconclusive.
"""
import importlib.machinery
import importlib.util
import json
import os
import shutil
import subprocess
import sys
import tempfile
import threading
import time
from concurrent.futures import ThreadPoolExecutor

ROOT = os.path.dirname(os.path.dirname(os.path.abspath(__file__)))
_loader = importlib.machinery.SourceFileLoader("verif_check", os.path.join(ROOT, "check"))
_spec = importlib.util.spec_from_loader("verif_check", _loader)
check = importlib.util.module_from_spec(_spec)
_loader.exec_module(check)

CRATE = "verif-math"
# (profile, optimisation, debug assertions); order = order of emission (cheap and important first)
PROFILES = [
    ("opt3", "3", False),
    ("opts", "s+lto+cgu1 (repo release settings)", False),
    ("opt2", "2", False),
    ("opt3dbg", "3", True),
    ("opt1", "1", True),
    ("opt0", "0", True),
    ("opt0rel", "0", False),
]
O0 = {"opt0", "opt0rel"}
# relative cost of one full emit compared with opt3 (measured on this harness; only used to pick the -O0 stride)
REL_COST = {"opt3": 1.0, "opts": 1.6, "opt2": 1.0, "opt3dbg": 1.1, "opt1": 2.2, "opt0": 10.0, "opt0rel": 9.0}
MIRI_OPS = ("f32scalar_new,f32scalar_neg,f32scalar_sin,f32scalar_cos,f32scalar_sin_cos,deg_rad,fx_from_f32,fixed_to_f32,"
            "mat4_rotation_xyz,dfix64_from_f32_trig,f32scalar_arith,dfix64_unary,dfix64_arith,mat4_ops,prng_streams")
MIRI_EXCLUDED_WHY = ("vec3_length_normalize, vec3_ops, quat_*, mat4_rotations: libm::sqrtf resolves to inline asm "
                     "(sqrtss, libm `arch` feature) which Miri does not support")


def parse(argv):
    a = {"tier": os.environ.get("VERIF_TIER", "quick"), "seed": os.environ.get("VERIF_SEED", "1"), "prop": "C19"}
    i = 0
    while i < len(argv):
        if argv[i] == "--setup":
            a["setup"] = True
            i += 1
            continue
        if not argv[i].startswith("--") or i + 1 >= len(argv):
            print(f"HARNESS-ERROR bad argument {argv[i]}")
            sys.exit(2)
        a[argv[i][2:]] = argv[i + 1]
        i += 2
    return a


def build_all(profiles, quiet=True):
    """Build all profiles (3 cargo processes at a time; each profile has its own build dir lock)."""
    out = {}
    lock = threading.Lock()
    dev = os.environ.get("VERIF_C19_BINDIR")  # development only: pre-built binaries <dir>/<profile>/verif-math
    if dev:
        return {p: os.path.join(dev, p, CRATE) if os.path.exists(os.path.join(dev, p, CRATE)) else None for p in profiles}

    def one(p):
        ok, bindir = check.cargo_build(CRATE, p, None, quiet=quiet)
        with lock:
            out[p] = os.path.join(bindir, CRATE) if ok else None

    with ThreadPoolExecutor(max_workers=3) as ex:
        list(ex.map(one, profiles))
    return out


def run(cmd, timeout=None, env=None):
    try:
        p = subprocess.run(cmd, cwd=ROOT, env=env or check.env_base(), stdout=subprocess.PIPE, stderr=subprocess.STDOUT,
                           text=True, timeout=timeout)
        return p.returncode, p.stdout
    except subprocess.TimeoutExpired:
        return 124, "timeout"


def emit(binary, scopes, seed, out, jobs, stride=1, ops=None, timeout=None):
    cmd = [binary, "--prop", "C19", "--mode", "emit", "--scopes", scopes, "--seed", str(seed), "--out", out,
           "--stride", str(stride)]
    if jobs:
        cmd += ["--jobs", str(jobs)]
    if ops:
        cmd += ["--ops", ops]
    t0 = time.time()
    rc, txt = run(cmd, timeout=timeout)
    if rc != 0 or not os.path.exists(out):
        return None, f"emit failed rc={rc}: {txt[-400:]}", time.time() - t0
    with open(out) as f:
        return json.load(f), None, time.time() - t0


def explain(binary, scope, op, seed, block=None, index=None, inputs=None):
    cmd = [binary, "--prop", "C19", "--mode", "explain", "--scope", scope, "--op", op, "--seed", str(seed)]
    if inputs is not None:
        cmd += ["--inputs", ",".join(inputs)]
    else:
        cmd += ["--block", str(block), "--index", str(index)]
    rc, txt = run(cmd, timeout=120)
    try:
        return json.loads(txt.strip().splitlines()[-1])
    except Exception:  # noqa: BLE001
        return {"error": f"explain failed rc={rc}: {txt[-300:]}"}


def dump(binary, scope, op, seed, block, path):
    rc, txt = run([binary, "--prop", "C19", "--mode", "dump", "--scope", scope, "--op", op, "--seed", str(seed),
                   "--block", str(block), "--out", path], timeout=1800)
    return rc == 0 and os.path.exists(path)


def first_diffs(pa, pb, wout, want_status_diff):
    """Scan two dump files; return index of the first record that differs in status (if want_status_diff)
    or differs in output words with equal ok-status; plus counts."""
    rec = 4 + 4 * wout
    first_status = first_value = None
    n_status = n_value = 0
    with open(pa, "rb") as fa, open(pb, "rb") as fb:
        idx = 0
        while True:
            a = fa.read(rec * 4096)
            b = fb.read(rec * 4096)
            if not a or not b:
                break
            if a != b:
                for k in range(min(len(a), len(b)) // rec):
                    ra, rb = a[k * rec:(k + 1) * rec], b[k * rec:(k + 1) * rec]
                    if ra == rb:
                        continue
                    if ra[0] != rb[0]:
                        n_status += 1
                        if first_status is None:
                            first_status = idx + k
                    else:
                        n_value += 1
                        if first_value is None:
                            first_value = idx + k
            idx += len(a) // rec
    return first_status, n_status, first_value, n_value


def is_nan_word(h):
    w = int(h, 16)
    return (w & 0x7F800000) == 0x7F800000 and (w & 0x007FFFFF) != 0


class Summary:
    def __init__(self):
        self.violations = []
        self.inconclusive = []
        self.counters = {}
        self.sets = {}
        self.fields = {}
        self.samples = []

    def count(self, k, n=1):
        self.counters[k] = self.counters.get(k, 0) + n

    def observe(self, k, v):
        self.sets.setdefault(k, [])
        if v not in self.sets[k]:
            self.sets[k].append(v)

    def violation(self, sig, what, replay):
        for v in self.violations:
            if v["signature"] == sig:  # one witness per signature; further occurrences are counted
                self.count("further_occurrences_of_" + sig)
                return
        self.violations.append({"signature": sig, "what": what[:1500], "replay": replay})


def replay_mode(a):
    with open(a["replay"]) as f:
        rp = json.load(f).get("replay", {})
    profs = rp.get("profiles") or ["opt3", "opt0"]
    bins = build_all(profs)
    if any(bins.get(p) is None for p in profs):
        print("HARNESS-ERROR could not build profiles for replay")
        return 2
    res = {}
    for p in profs:
        res[p] = explain(bins[p], rp.get("scope", "quick"), rp["op"], rp.get("seed", 1), inputs=rp["inputs"])
        print(f"REPLAY {p}: status={res[p].get('status')} outputs={res[p].get('outputs')} "
              f"panic={res[p].get('panic_message')} monitor_hits={res[p].get('monitor_hits')}")
    vals = [(r.get("status"), tuple(r.get("outputs", []))) for r in res.values()]
    diverged = len(set(vals)) > 1 or any(r.get("monitor_hits") for r in res.values())
    if diverged:
        print(f"REPLAY DIVERGENCE op={rp['op']} inputs={rp['inputs']} ({rp.get('kind')})")
        return 1
    print("REPLAY: no divergence reproduced")
    return 0


def main():
    a = parse(sys.argv[1:])
    if a.get("setup"):
        bins = build_all([p for p, _, _ in PROFILES], quiet=False)
        return 0 if all(bins.values()) else 2
    if "replay" in a:
        return replay_mode(a)
    tier = a["tier"] if a["tier"] in ("quick", "thorough") else "quick"
    seed = int(a["seed"])
    jobs = a.get("jobs")
    t_start = time.time()
    budget = float(os.environ.get("VERIF_BUDGET_S", 110 if tier == "quick" else 2400))
    S = Summary()
    scratch = tempfile.mkdtemp(prefix=f"verif-c19-{os.getpid()}-", dir="/dev/shm" if os.path.isdir("/dev/shm") else None)
    try:
        return drive(a, tier, seed, jobs, t_start, budget, S, scratch)
    finally:
        shutil.rmtree(scratch, ignore_errors=True)


def drive(a, tier, seed, jobs, t_start, budget, S, scratch):
    names = [p for p, _, _ in PROFILES]
    meta = {p: {"opt_level": o, "debug_assertions": d} for p, o, d in PROFILES}
    bins = build_all(names)
    t_built = time.time()
    lanes_skipped = []
    for p in names:
        if bins.get(p) is None:
            lanes_skipped.append({"lane": p, "reason": "cargo build failed"})
    built = [p for p in names if bins.get(p)]
    if len(built) < 2 or not any(meta[p]["debug_assertions"] for p in built) or not any(
            not meta[p]["debug_assertions"] for p in built):
        print("HARNESS-ERROR fewer than two comparable profiles could be built (need one with and one without debug assertions)")
        return 2

    # optional Miri lane (thorough tier, or VERIF_C19_MIRI=1): background, one thread, spot scope
    miri_state = {"result": None, "error": None, "wall": 0.0}
    miri_thread = None
    want_miri = os.environ.get("VERIF_C19_MIRI", "1" if tier == "thorough" else "0") == "1"
    if want_miri and not check.override():
        def miri_lane():
            t0 = time.time()
            env = check.env_base()
            env["MIRIFLAGS"] = "-Zmiri-disable-isolation"
            out = os.path.join(scratch, "miri.json")
            cmd = ["cargo", "+nightly", "miri", "run", "--offline", "-p", CRATE, "--target-dir",
                   os.path.join(check.target_dir(), "miri"), "--", "--prop", "C19", "--mode", "emit", "--scopes", "spot",
                   "--seed", str(seed), "--jobs", "1", "--ops", MIRI_OPS, "--out", out]
            try:
                p = subprocess.run(cmd, cwd=check.HARNESS, env=env, stdout=subprocess.PIPE, stderr=subprocess.STDOUT, text=True,
                                   timeout=float(os.environ.get("VERIF_C19_MIRI_TIMEOUT_S", 2400)))
                if p.returncode == 0 and os.path.exists(out):
                    with open(out) as f:
                        miri_state["result"] = json.load(f)
                else:
                    miri_state["error"] = f"cargo miri run rc={p.returncode}: {p.stdout[-300:]}"
            except subprocess.TimeoutExpired:
                miri_state["error"] = "cargo miri run exceeded its time limit"
            except Exception as e:  # noqa: BLE001
                miri_state["error"] = f"cargo miri run could not start: {e}"
            miri_state["wall"] = time.time() - t0
        miri_thread = threading.Thread(target=miri_lane, daemon=True)
        miri_thread.start()
    else:
        lanes_skipped.append({"lane": "miri", "reason": "Miri spot lane runs in the thorough tier only (or with VERIF_C19_MIRI=1); "
                              "it takes 5-15 min single-threaded" if not check.override() else "not run under VERIF_REPO_OVERRIDE"})

    # ── emit per profile ───────────────────────────────────────────────
    scopes = f"spot,{tier}"
    emits, emit_wall, strides = {}, {}, {}
    t3 = None
    for p in built:
        stride = 1
        if p in O0:
            env_s = os.environ.get("VERIF_C19_O0_STRIDE")
            if env_s:
                stride = max(1, int(env_s))
            else:
                # pick the smallest power-of-two stride that fits what is left of the wall-clock budget
                remaining = budget - (time.time() - t_start)
                others = sum(REL_COST[q] for q in built if q in O0 and q not in emits)
                base = t3 if t3 else 10.0
                stride = 1
                while stride < 64 and base * others * 0.9 / stride > max(remaining, 1.0) * 0.85:
                    stride *= 2
                stride = max(stride, 4 if tier == "quick" else 2)
        e, err, wall = emit(bins[p], scopes, seed, os.path.join(scratch, f"emit-{p}.json"), jobs, stride)
        if e is None:
            lanes_skipped.append({"lane": p, "reason": err})
            continue
        emits[p], emit_wall[p], strides[p] = e, round(wall, 1), stride
        if p == "opt3":
            t3 = wall
        if e["build"]["debug_assertions"] != meta[p]["debug_assertions"]:
            S.inconclusive.append(f"profile {p}: cfg!(debug_assertions) is {e['build']['debug_assertions']}, expected {meta[p]['debug_assertions']}")
    profs = [p for p in built if p in emits]
    if len(profs) < 2:
        print("HARNESS-ERROR fewer than two profiles produced digests")
        return 2
    ref = profs[0]
    opdefs = {o["name"]: o for o in emits[ref]["ops"]}

    # all builds must have generated identical inputs
    for p in profs[1:]:
        if emits[p]["input_set_digests"] != emits[ref]["input_set_digests"]:
            S.inconclusive.append(f"input sets differ between {ref} and {p} (generator not profile-independent) — digests not comparable")

    # ── compare block digests ───────────────────────────────────────────
    table = {}  # (scope, op, b) -> {profile: record}
    for p in profs:
        for r in emits[p]["blocks"]:
            table.setdefault((r["s"], r["op"], r["b"]), {})[p] = r
    evaluations = 0
    distinct_enumerated = 0
    sampled_compared = 0
    per_op = {}
    blocks_compared = blocks_differing = 0
    enumerated_fams = {"Unary", "BinF32", "DfixUnary", "DfixBin"}
    main_unary = {"spot": 0, "quick": 64, "thorough": 4096}
    bisect_budget = {}
    nan_obs_done = set()
    unary_main_fully_compared = {}
    for key in sorted(table):
        scope, op, b = key
        recs = table[key]
        n = next(iter(recs.values()))["n"]
        evaluations += n * len(recs)
        po = per_op.setdefault(f"{scope}/{op}", {"inputs_per_profile": 0, "blocks": 0, "blocks_compared_in_all_profiles": 0,
                                                 "profiles_min": 99, "differing_blocks": 0, "skipped_out_of_domain": 0})
        po["inputs_per_profile"] += n
        po["blocks"] += 1
        po["profiles_min"] = min(po["profiles_min"], len(recs))
        po["skipped_out_of_domain"] += recs[min(recs)]["skipped"]
        if len(recs) == len(profs):
            po["blocks_compared_in_all_profiles"] += 1
        if len(recs) < 2:
            continue
        blocks_compared += 1
        fam = opdefs[op]["family"]
        is_edge = fam == "Unary" and b >= main_unary[scope]
        if scope != "spot":
            if fam in enumerated_fams and not is_edge:
                distinct_enumerated += n
            elif fam not in enumerated_fams:
                sampled_compared += n
        if fam == "Unary" and not is_edge and scope == "thorough":
            unary_main_fully_compared[op] = unary_main_fully_compared.get(op, 0) + 1
        plist = sorted(recs, key=profs.index)
        base = recs[plist[0]]
        strict_keys = ["d"] + (["dn"] if "dn" in base else [])
        differing = [q for q in plist[1:] if any(recs[q][k] != base[k] for k in strict_keys)]
        if "dr" in base and any(recs[q]["dr"] != base["dr"] for q in plist[1:]):
            S.count("blocks_with_nan_payload_differences_on_nonfinite_inputs")
            if op not in nan_obs_done and len(nan_obs_done) < 3:
                nan_obs_done.add(op)
                q = next(q for q in plist[1:] if recs[q]["dr"] != base["dr"])
                ex = bisect(bins, scratch, scope, op, seed, b, plist[0], q, opdefs[op]["words_out"], prefer="value")
                if ex:
                    ea, eb = ex["a"], ex["b"]
                    dw = [i for i, (x, y) in enumerate(zip(ea.get("outputs", []), eb.get("outputs", []))) if x != y]
                    S.samples.append({"observation": "NaN payload/sign of a raw-f32 result differs between builds for an input that is "
                                      "itself non-finite (outside the documented domain of Vec3/Mat4/deg_to_rad: 'callers must ensure values are finite'); "
                                      "after NaN canonicalisation the streams are identical", "op": op, "block": b, "index": ex["index"],
                                      "nonfinite_inputs": [x for x in ea.get("inputs", []) if (int(x, 16) >> 23) & 0xFF == 0xFF],
                                      "differing_output_words": {str(i): {ex["pa"]: ea["outputs"][i], ex["pb"]: eb["outputs"][i]} for i in dw[:6]}})
        if not differing:
            continue
        blocks_differing += 1
        po["differing_blocks"] += 1
        # classify: differences confined to panicking / non-finite samples?
        any_panics = any(recs[q]["panics"] for q in plist)
        df_equal = "df" in base and all(recs[q]["df"] == base["df"] for q in plist)
        kind = "panic-vs-value" if (any_panics and df_equal) else "output-bits"
        used = bisect_budget.get((op, kind), 0)
        S.count(f"differing_blocks_{kind}")
        if used >= (1 if kind == "panic-vs-value" else 4):
            continue
        bisect_budget[(op, kind)] = used + 1
        q = differing[0]
        pa = plist[0]
        if kind == "panic-vs-value":
            # pair a panicking profile with a non-panicking one
            pan = [x for x in plist if recs[x]["panics"]]
            non = [x for x in plist if not recs[x]["panics"]]
            if pan and non:
                pa, q = non[0], pan[0]
        ex = bisect(bins, scratch, scope, op, seed, b, pa, q, opdefs[op]["words_out"],
                    prefer="status" if kind == "panic-vs-value" else "value")
        if ex is None:
            S.inconclusive.append(f"could not bisect differing block {scope}/{op}#{b} between {pa} and {q}")
            continue
        ea, eb = ex["a"], ex["b"]
        pan_profiles = sorted(x for x in plist if recs[x]["panics"])
        non_profiles = sorted(x for x in plist if not recs[x]["panics"])
        if ea.get("status") != eb.get("status"):
            dbg_only = all(meta[x]["debug_assertions"] for x in pan_profiles) and not any(
                meta[x]["debug_assertions"] for x in non_profiles)
            sig = f"C19:profile-divergence:{op}:" + ("debug-assert-panic-vs-release-value" if dbg_only else "panic-in-some-profiles")
            what = (f"{op} on finite in-domain inputs {ea['inputs']} ({ea['inputs_f32']}): profile {ex['pa']} -> {ea['status']} "
                    f"{ea.get('outputs_f32', [])[:20]}; profile {ex['pb']} -> {eb['status']} ({eb.get('panic_message')}). "
                    f"Panicking profiles in this block: {pan_profiles}; value-returning: {non_profiles}; "
                    f"{recs[pan_profiles[0]]['panics'] if pan_profiles else 0} of {n} samples panic.")
        else:
            diffw = [i for i, (x, y) in enumerate(zip(ea["outputs"], eb["outputs"])) if x != y]
            nan_only = diffw and all(is_nan_word(ea["outputs"][i]) and is_nan_word(eb["outputs"][i]) for i in diffw)
            sig = f"C19:profile-divergence:{op}:" + ("nan-payload" if nan_only else "output-bits")
            what = (f"{op} inputs {ea['inputs']} ({ea['inputs_f32']}, {ea.get('class')}): output words {diffw} differ between "
                    f"{ex['pa']} {[ea['outputs'][i] for i in diffw]} and {ex['pb']} {[eb['outputs'][i] for i in diffw]}")
        S.violation(sig, what, {"op": op, "scope": scope, "seed": seed, "block": b, "index": ex["index"], "inputs": ea["inputs"],
                                "profiles": [ex["pa"], ex["pb"]], "kind": kind})

    # ── in-build invariant monitors ─────────────────────────────────────
    checked_total = {}
    for p in profs:
        for k, v in emits[p]["monitor_checked"].items():
            checked_total[k] = checked_total.get(k, 0) + v
        for h in emits[p]["monitor_hits"]:
            sig = f"C19:invariant:{h['op']}:{h['class']}"
            exs = h["examples"][:2]
            already = [v for v in S.violations if v["signature"] == sig]
            if already:
                already[0]["what"] += f" | also in {p} ({h['count']}x)"
                continue
            S.violation(sig, f"{h['op']}: {h['class']} observed {h['count']}x in profile {p}; examples {json.dumps(exs)}",
                        {"op": "f32scalar_" + h["op"] if ("f32scalar_" + h["op"]) in opdefs else h["op"], "scope": tier, "seed": seed,
                         "inputs": [x.replace("0x", "") for x in (exs[0].get("inputs") or [exs[0].get("x", "0")])] if exs else [],
                         "profiles": [p], "kind": "invariant", "example": exs[0] if exs else None})

    # ── Miri lane ────────────────────────────────────────────────────────
    lanes_run = list(profs)
    if miri_thread is not None:
        miri_thread.join()
        if miri_state["result"] is None:
            lanes_skipped.append({"lane": "miri", "reason": miri_state["error"] or "no result"})
        else:
            m = miri_state["result"]
            lanes_run.append("miri")
            emit_wall["miri"] = round(miri_state["wall"], 1)
            S.fields["miri_ops_excluded"] = MIRI_EXCLUDED_WHY
            mdiff = 0
            for r in m["blocks"]:
                base = table.get((r["s"], r["op"], r["b"]), {}).get(ref)
                if base is None:
                    continue
                evaluations += r["n"]
                S.count("miri_blocks_compared")
                S.count("miri_inputs_compared", r["n"])
                strict = ["d"] + (["dn"] if "dn" in r else [])
                if any(r[k] != base[k] for k in strict):
                    mdiff += 1
                    S.violation(f"C19:profile-divergence:{r['op']}:miri-vs-native",
                                f"spot block of {r['op']} under Miri differs from native profile {ref} (digest {r['d'][:16]} vs {base['d'][:16]})",
                                {"op": r["op"], "scope": "spot", "seed": seed, "block": r["b"], "profiles": [ref, "miri"], "kind": "miri"})
                if "dr" in r and r["dr"] != base["dr"]:
                    S.count("miri_blocks_with_nan_payload_differences_on_nonfinite_inputs")
            for h in m["monitor_hits"]:
                S.violation(f"C19:invariant:{h['op']}:{h['class']}", f"under Miri: {h['op']} {h['class']} {h['count']}x {json.dumps(h['examples'][:1])}",
                            {"op": h["op"], "profiles": ["miri"], "kind": "invariant"})
            S.fields["miri_nonfinite_trig"] = m["nonfinite_trig"]

    # ── evidence ─────────────────────────────────────────────────────────
    exhaustive = None
    if tier == "thorough":
        unary_ops = [o for o, d in opdefs.items() if d["family"] == "Unary"]
        exhaustive = bool(unary_ops) and all(unary_main_fully_compared.get(o, 0) == 4096 for o in unary_ops)
    S.fields.update({
        "profiles_compared": [{"profile": p, **meta[p], "emit_wall_s": emit_wall.get(p), "unary_block_stride": strides.get(p, 1)} for p in profs],
        "lanes_run": lanes_run,
        "lanes_skipped": lanes_skipped,
        "scalar_lanes": emits[ref]["build"]["lanes"],
        "reference_profile": ref,
        "per_op": per_op,
        "input_sets": emits[ref]["input_set_digests"],
        "monitor_checks_performed_all_profiles": checked_total,
        "nonfinite_trig_behaviour_by_profile": {p: emits[p]["nonfinite_trig"] for p in profs},
        "operations": {o["name"]: o["what"] for o in emits[ref]["ops"]},
        "build_wall_s": round(t_built - t_start, 1),
    })
    S.count("blocks_compared_across_profiles", blocks_compared)
    S.count("blocks_differing", blocks_differing)
    S.count("sampled_composite_cases_compared", sampled_compared)
    S.count("profiles", len(profs))
    for p in profs:
        S.observe("profiles_values", p)
    # concrete samples: one unary edge input explained in two profiles, one composite
    for (scope, op, b, i) in [(tier, "f32scalar_sin_cos", main_unary[tier], 37), (tier, "f32scalar_arith", 3, 12345), (tier, "quat_multiply", 1, 7)]:
        if len(S.samples) >= 5:
            break
        ea = explain(bins[profs[0]], scope, op, seed, block=b, index=i)
        eb = explain(bins[profs[-1]], scope, op, seed, block=b, index=i)
        S.samples.append({"op": op, "block": b, "index": i, "inputs": ea.get("inputs"), "inputs_f32": ea.get("inputs_f32"),
                          profs[0]: {"status": ea.get("status"), "outputs": ea.get("outputs")},
                          profs[-1]: {"status": eb.get("status"), "outputs": eb.get("outputs")},
                          "digest_of_its_block": {p: table[(scope, op, b)][p]["d"][:16] for p in table.get((scope, op, b), {})}})
    rule = ("every public warp-math operation (+ echo-wasm-abi fx_from_f32) is evaluated by the SAME harness source compiled at each profile; "
            "unary ops over bit patterns (quick: one seeded representative of each of the 2^26 consecutive 64-pattern strata + every special/edge class; "
            "thorough: all 2^32 patterns), F32Scalar/DFix64 arithmetic over the full cross product of a seeded 'interesting' set, Vec3/Mat4/Quat over seeded index "
            "samples into that set, Prng streams per seed. Each build emits one BLAKE3 digest per 2^20 (2^16 for composites) inputs; digests are compared across profiles "
            "and a differing block is bisected to the input. A case = one (operation, input tuple); distinct_nontrivial counts only cases that are distinct by construction "
            "(enumerated bit patterns / cross products, edge blocks and seeded composite samples excluded — those are in sampled_composite_cases_compared) and whose output "
            "bits were produced by at least two differently optimised builds and compared. In-build monitors check canonical form of every F32Scalar result, sin odd / cos even / range, PRNG ranges.")
    summary = {
        "level": "exploration", "rule": rule, "evaluations": evaluations, "distinct_enumerated": distinct_enumerated,
        "exhaustive": exhaustive, "counters": S.counters, "sets": S.sets, "fields": S.fields, "samples": S.samples[:5],
        "assumptions": [
            "all profiles run on the same x86_64 host: cross-hardware differences (FMA contraction on other targets, other libm arch paths) are not observed",
            "non-finite trig inputs are outside the documented domain (debug_assert in sin_cos_f32) and excluded from the diff; their behaviour per profile is recorded",
            "raw-f32 composites (Vec3/Mat4/deg_to_rad) with non-finite inputs are compared after NaN canonicalisation; raw NaN payload differences are recorded as observations",
            "BLAKE3 block digests stand in for the output streams (collision = missed difference)",
        ],
        "violations": S.violations, "inconclusive": S.inconclusive, "floor": 1_000_000,
    }
    spath = os.path.join(scratch, "summary.json")
    with open(spath, "w") as f:
        json.dump(summary, f)
    cmd = [bins[ref], "--prop", "C19", "--mode", "report", "--summary", spath, "--tier", tier, "--seed", str(seed),
           "--evidence", a.get("evidence", os.path.join(ROOT, "evidence", "C19.json")),
           "--replay-dir", a.get("replay-dir", os.path.join(ROOT, "replays", "C19")),
           "--known", a.get("known", os.path.join(ROOT, "known_findings.json"))]
    p = subprocess.run(cmd, cwd=ROOT, env=check.env_base())
    # wall_s in the evidence is the report step's; patch in the real total
    try:
        ev_path = a.get("evidence", os.path.join(ROOT, "evidence", "C19.json"))
        with open(ev_path) as f:
            ev = json.load(f)
        ev["wall_s"] = round(time.time() - t_start, 3)
        with open(ev_path, "w") as f:
            json.dump(ev, f, indent=1)
    except Exception:  # noqa: BLE001
        pass
    return p.returncode


def bisect(bins, scratch, scope, op, seed, b, pa, pb, wout, prefer):
    fa = os.path.join(scratch, f"dump-{pa}.bin")
    fb = os.path.join(scratch, f"dump-{pb}.bin")
    try:
        if not (dump(bins[pa], scope, op, seed, b, fa) and dump(bins[pb], scope, op, seed, b, fb)):
            return None
        fs, ns, fv, nv = first_diffs(fa, fb, wout, prefer == "status")
        idx = fs if (prefer == "status" and fs is not None) else (fv if fv is not None else fs)
        if idx is None:
            return None
        ea = explain(bins[pa], scope, op, seed, block=b, index=idx)
        eb = explain(bins[pb], scope, op, seed, block=b, index=idx)
        return {"pa": pa, "pb": pb, "block": b, "index": idx, "records_differing_in_status": ns, "records_differing_in_value": nv,
                "a": ea, "b": eb}
    finally:
        for f in (fa, fb):
            if os.path.exists(f):
                os.remove(f)


if __name__ == "__main__":
    sys.exit(main())
