#!/usr/bin/env python3
"""C02 multi-lane driver.

Lane 1 (always): verif-engine built with the `fastdbg` profile (opt 3 + debug
assertions ⇒ enforcement on) — behavioural differential under scripted/racing
schedules. Writes the evidence file.

Thorough tier adds two sanitizer lanes on a reduced workload and folds their
summaries into `coverage.lanes`:
  * tsan: nightly `-Zsanitizer=thread -Zbuild-std` — any ThreadSanitizer report
    in first-party or dependency code during the racing workload is a violation
    (deduplicated by the first two `warp_core`/`verif_engine` frames);
  * miri: `cargo +nightly miri run` on a handful of 3-unit ticks for data races /
    UB in the scoped-thread path.
A lane that cannot be built or times out is recorded in `lanes_skipped`; it is
never turned into a violation or into a pass of that lane.
"""
import importlib.machinery
import importlib.util
import json
import os
import re
import subprocess
import sys
import time

ROOT = os.path.dirname(os.path.dirname(os.path.abspath(__file__)))
loader = importlib.machinery.SourceFileLoader("vcheck", os.path.join(ROOT, "check"))
spec = importlib.util.spec_from_loader("vcheck", loader)
vcheck = importlib.util.module_from_spec(spec)
loader.exec_module(vcheck)

HARNESS = os.path.join(ROOT, "harness")


def arg(name, default=None):
    a = sys.argv[1:]
    return a[a.index(name) + 1] if name in a else default


def override_args():
    o = vcheck.override()
    if not o:
        return [], ""
    import glob
    paths = sorted(os.path.dirname(p) for p in glob.glob(os.path.join(o, "crates", "*", "Cargo.toml")))
    return ["--config", "paths=[" + ",".join(json.dumps(p) for p in paths) + "]"], "-ovr-" + os.path.basename(o.rstrip("/"))


def known_signatures():
    try:
        with open(os.path.join(ROOT, "known_findings.json")) as f:
            return {x["signature"]: x for x in json.load(f)["findings"] if x["property"] == "C02" and x.get("status") == "finding"}
    except Exception:  # noqa: BLE001
        return {}


def build_retry(cmd, env, timeout):
    for _ in range(8):
        try:
            p = subprocess.run(cmd, cwd=HARNESS, env=env, stdout=subprocess.PIPE, stderr=subprocess.STDOUT, text=True, timeout=timeout)
        except subprocess.TimeoutExpired:
            return None, "build timed out"
        if p.returncode != 0 and "failed to load manifest for workspace member" in p.stdout:
            time.sleep(15)
            continue
        return p, None
    return None, "workspace not loadable"


def tsan_lane(seed, scratch):
    ovr, tag = override_args()
    target = os.path.join(ROOT, "target-tsan" + tag)
    env = vcheck.env_base()
    env["RUSTFLAGS"] = "-Zsanitizer=thread"
    env["CARGO_TARGET_DIR"] = target
    cmd = ["cargo", "+nightly", "build", "--offline", "-Zbuild-std", "--target", "x86_64-unknown-linux-gnu",
           "--profile", "fastdbg", "-p", "verif-engine"] + ovr
    p, err = build_retry(cmd, env, 5400)
    if p is None or p.returncode != 0:
        return {"skipped": err or "tsan build failed: " + (p.stdout[-400:] if p else "")}, []
    binary = os.path.join(target, "x86_64-unknown-linux-gnu", "fastdbg", "verif-engine")
    log = os.path.join(scratch, "tsan.log")
    for f in os.listdir(scratch):
        if f.startswith("tsan.log"):
            os.remove(os.path.join(scratch, f))
    env2 = vcheck.env_base()
    env2["TSAN_OPTIONS"] = f"halt_on_error=0 report_signal_unsafe=0 log_path={log}"
    ev = os.path.join(scratch, "C02-tsan.json")
    cmd = [binary, "--prop", "C02", "--tier", "quick", "--seed", str(seed), "--lane", "tsan",
           "--evidence", ev, "--replay-dir", os.path.join(ROOT, "replays", "C02")]
    try:
        r = subprocess.run(cmd, cwd=ROOT, env=env2, stdout=subprocess.PIPE, stderr=subprocess.STDOUT, text=True, timeout=3000)
    except subprocess.TimeoutExpired:
        return {"skipped": "tsan run exceeded its watchdog (inconclusive)"}, []
    out = {"exit": r.returncode}
    violations = []
    if r.returncode not in (0, 1, 66):
        return {"skipped": f"tsan run exited {r.returncode}: {r.stdout[-300:]}"}, []
    for line in r.stdout.splitlines():
        if line.startswith("VIOLATION") or line.startswith("KNOWN-FINDING"):
            print(line + "   [lane=tsan]")
    if r.returncode == 1:
        out["behavioural_violation_in_lane"] = True
    try:
        with open(ev) as f:
            cov = json.load(f)["coverage"]
        out.update({k: cov[k] for k in ("evaluations", "racing_runs", "scripted_assignments_run", "policy_runs", "worker_counts_racing") if k in cov})
    except Exception:  # noqa: BLE001
        pass
    # ThreadSanitizer reports
    reports = {}
    for f in sorted(os.listdir(scratch)):
        if not f.startswith("tsan.log"):
            continue
        text = open(os.path.join(scratch, f), errors="replace").read()
        for block in text.split("WARNING: ThreadSanitizer:")[1:]:
            frames = re.findall(r"#\d+ (\S+)", block)
            own = [fr for fr in frames if "warp_core" in fr or "verif_engine" in fr][:2]
            sig = "C02:tsan:" + block.split("\n", 1)[0].strip().split(" (")[0].replace(" ", "-") + ":" + "|".join(own)
            reports.setdefault(sig, block[:3000])
    out["tsan_reports"] = len(reports)
    known = known_signatures()
    for sig, block in reports.items():
        if sig in known:
            print(f"KNOWN-FINDING: property=C02 {known[sig]['what']} [signature={sig}]")
            continue
        os.makedirs(os.path.join(ROOT, "replays", "C02"), exist_ok=True)
        path = os.path.join(ROOT, "replays", "C02", "tsan-%d.txt" % (abs(hash(sig)) % 10**8))
        with open(path, "w") as f:
            f.write(sig + "\n\nWARNING: ThreadSanitizer:" + block)
        print(f"VIOLATION property=C02 replay={path}")
        print(f"  signature: {sig}")
        violations.append(sig)
    return out, violations


def miri_lane(seed, scratch):
    ovr, tag = override_args()
    env = vcheck.env_base()
    env["MIRIFLAGS"] = "-Zmiri-disable-isolation"
    env["CARGO_TARGET_DIR"] = os.path.join(ROOT, "target-miri" + tag)
    ev = os.path.join(scratch, "C02-miri.json")
    cmd = ["cargo", "+nightly", "miri", "run", "--offline", "-p", "verif-engine"] + ovr + ["--",
           "--prop", "C02", "--tier", "quick", "--seed", str(seed), "--lane", "miri", "--evidence", ev,
           "--replay-dir", os.path.join(ROOT, "replays", "C02")]
    try:
        r = subprocess.run(cmd, cwd=HARNESS, env=env, stdout=subprocess.PIPE, stderr=subprocess.STDOUT, text=True, timeout=5400)
    except subprocess.TimeoutExpired:
        return {"skipped": "miri lane exceeded its watchdog (inconclusive)"}, []
    text = r.stdout
    if "Undefined Behavior" in text or "data race" in text.lower():
        os.makedirs(os.path.join(ROOT, "replays", "C02"), exist_ok=True)
        path = os.path.join(ROOT, "replays", "C02", "miri-report.txt")
        with open(path, "w") as f:
            f.write(text[-20000:])
        m = re.search(r"error: (Undefined Behavior[^\n]*|[^\n]*[Dd]ata race[^\n]*)", text)
        sig = "C02:miri:" + (m.group(1)[:80].replace(" ", "-") if m else "report")
        known = known_signatures()
        if sig in known:
            print(f"KNOWN-FINDING: property=C02 {known[sig]['what']} [signature={sig}]")
            return {"exit": r.returncode, "report": sig}, []
        print(f"VIOLATION property=C02 replay={path}")
        print(f"  signature: {sig}")
        return {"exit": r.returncode, "report": sig}, [sig]
    if r.returncode not in (0, 1):
        return {"skipped": f"miri lane exited {r.returncode}: {text[-300:]}"}, []
    out = {"exit": r.returncode}
    try:
        with open(ev) as f:
            cov = json.load(f)["coverage"]
        out.update({k: cov[k] for k in ("evaluations", "racing_runs", "scripted_assignments_run", "policy_runs") if k in cov})
    except Exception:  # noqa: BLE001
        pass
    return out, []


def main():
    prop = arg("--prop", "C02")
    tier = arg("--tier", "quick")
    seed = int(arg("--seed", "1"))
    evidence = arg("--evidence")
    replay = arg("--replay")
    ok, bindir = vcheck.cargo_build("verif-engine", "fastdbg")
    if not ok:
        return 2
    binary = os.path.join(bindir, "verif-engine")
    passthrough = [a for a in sys.argv[1:]]
    t0 = time.time()
    r = subprocess.run([binary] + passthrough, cwd=ROOT, env=vcheck.env_base())
    rc = r.returncode
    if replay or rc not in (0, 1):
        return rc
    lanes, skipped, extra_violations = {}, {}, []
    if tier == "thorough" and not os.environ.get("VERIF_C02_NO_SANITIZERS"):
        scratch = os.path.join(ROOT, "scratch", "c02-lanes")
        os.makedirs(scratch, exist_ok=True)
        for name, fn in (("tsan", tsan_lane), ("miri", miri_lane)):
            res, viol = fn(seed, scratch)
            if "skipped" in res:
                skipped[name] = res["skipped"]
                print(f"LANE-SKIPPED {name}: {res['skipped'][:200]}")
            else:
                lanes[name] = res
                if res.get("behavioural_violation_in_lane"):
                    rc = 1
            extra_violations += viol
    with open(evidence) as f:
        ev = json.load(f)
    ev["coverage"]["lanes"] = lanes
    ev["coverage"]["lanes_skipped"] = skipped
    ev["coverage"]["sanitizer_lanes_in_this_tier"] = tier == "thorough"
    if extra_violations:
        ev["violations"] = ev.get("violations", 0) + len(extra_violations)
        ev["coverage"].setdefault("violation_signatures", {}).update({s: 1 for s in extra_violations})
        rc = 1
    ev["wall_s"] = round(time.time() - t0, 3)
    with open(evidence, "w") as f:
        json.dump(ev, f, indent=2)
    return rc


if __name__ == "__main__":
    sys.exit(main())
