#!/bin/bash
# seed_try.sh <patch.diff> <check ids...> : apply a seeded break to /repo, run the quick checks, undo it.
patch=$1; shift
cd /repo; git diff --quiet || { echo "/repo dirty"; exit 2; }
git apply $patch || { echo "patch does not apply to /repo"; exit 2; }
trap 'git -C /repo checkout -- . ; git -C /repo clean -fdq -e target' EXIT
cd /verif
for id in "$@"; do
  s=$(date +%s)
  VERIF_EVIDENCE_DIR=/dev/shm/seedtry ./check $id --tier ${TIER:-quick} > /dev/shm/seedtry_$id.log 2>&1; rc=$?
  echo "$id rc=$rc t=$(( $(date +%s)-s ))s $(grep -c '^VIOLATION' /dev/shm/seedtry_$id.log) violations; sigs: $(grep -o 'signature: .*' /dev/shm/seedtry_$id.log | sort | uniq -c | head -5 | tr '\n' ';')"
done
