#!/usr/bin/env python3
"""Regenerate /verif/MANIFEST.json from checks/*.json (+ properties.jsonl for not_applicable)."""
import json, os, subprocess
root = os.path.dirname(os.path.dirname(os.path.abspath(__file__)))
props = [json.loads(l)["id"] for l in open(os.path.join(root, "properties.jsonl"))]
m = json.load(open(os.path.join(root, "MANIFEST.json")))
checks, engines = [], {}
claimed = set()
for pid in props:
    p = os.path.join(root, "checks", f"{pid}.json")
    if not os.path.exists(p):
        continue
    spec = json.load(open(p))
    man = spec.get("manifest")
    if not man or not spec.get("claimed", True):
        continue
    claimed.add(pid)
    c = {
        "property_id": pid,
        "quick_cmd": f"./check {pid} --tier quick",
        "thorough_cmd": f"./check {pid} --tier thorough",
        "evidence_file": f"/verif/evidence/{pid}.json",
        "replay_cmd_template": f"./check {pid} --replay {{path}}",
        "engine": spec.get("crate", spec.get("driver", "")),
        "level_claimed": man["level_claimed"],
        "level_note": man["level_note"],
        "technique": man["technique"],
    }
    checks.append(c)
    e = engines.setdefault(c["engine"], {"name": c["engine"], "path": f"/verif/harness/{c['engine']}" if "crate" in spec else f"/verif/{spec['driver']}", "serves_properties": [], "kind_free_text": spec.get("engine_kind", "Rust harness binary linking the real crates from /repo; generated workloads + monitors")})
    e["serves_properties"].append(pid)
m["checks"] = checks
m["engines"] = list(engines.values())
na_path = os.path.join(root, "checks", "not_applicable.json")
na = json.load(open(na_path)) if os.path.exists(na_path) else {}
m["not_applicable"] = [
    {"property_id": pid, "reason": na.get(pid, "check not built yet (build phase in progress); will be claimed once its monitor runs silent on the unchanged tree")}
    for pid in props if pid not in claimed
]
try:
    log = subprocess.run(["git", "-C", "/repo", "log", "--format=%h %s"], stdout=subprocess.PIPE, text=True).stdout.splitlines()
    m["hooks"]["source_commits"] = [l.split()[0] for l in log if l.split(" ", 1)[1].startswith("verif hook")][::-1]
except Exception:
    pass
try:
    fixes = [l for l in log if l.split(" ", 1)[1].startswith("fix:")][::-1]
    m["notes"] = ("Known findings: /verif/known_findings.json (status=finding suppresses exactly that signature; status=fixed suppresses nothing). "
                  "Seeded breaks used to test the monitors: /verif/seeded/<id>/ (patch.diff, demo.diff, meta.json). "
                  "fix: commits in /repo (genuine defects found by the monitors, DESIGN.md section 4.1): " + "; ".join(fixes))
except Exception:
    pass
json.dump(m, open(os.path.join(root, "MANIFEST.json"), "w"), indent=1)
print("claimed:", sorted(claimed))
