#!/usr/bin/env python3
"""Generic multi-lane driver: run the same property check in several build
configurations of the same harness crate and fold the lanes into one evidence
file. Registered in checks/<ID>.json as

  "driver": "lib/lanes_driver.py",
  "crate": "verif-engine",
  "lanes": [
    {"name": "fastdbg", "profile": "fastdbg"},                       # first = main lane
    {"name": "dv", "profile": "fastdbg", "features": ["dv"], "tiers": ["quick", "thorough"]},
    {"name": "rel", "profile": "release", "tiers": ["thorough"]}
  ],
  "digests": true      # lanes also emit per-case outcome digests that must agree

A lane that cannot be built, exits with a harness error or hits its watchdog is
recorded under coverage.lanes_skipped (inconclusive) — never a violation, never
a pass of that lane. The main lane failing that way makes the whole run exit 2.
"""
import importlib.machinery
import importlib.util
import json
import os
import subprocess
import sys
import time

ROOT = os.path.dirname(os.path.dirname(os.path.abspath(__file__)))
loader = importlib.machinery.SourceFileLoader("vcheck", os.path.join(ROOT, "check"))
spec_ = importlib.util.spec_from_loader("vcheck", loader)
vcheck = importlib.util.module_from_spec(spec_)
loader.exec_module(vcheck)


def arg(name, default=None):
    a = sys.argv[1:]
    return a[a.index(name) + 1] if name in a else default


def main():
    prop = arg("--prop")
    tier = arg("--tier", "quick")
    evidence = arg("--evidence")
    replay = arg("--replay")
    spec = vcheck.load_spec(prop)
    lanes = [l for l in spec["lanes"] if tier in l.get("tiers", ["quick", "thorough"])]
    if not lanes or lanes[0] is not spec["lanes"][0]:
        lanes = [spec["lanes"][0]] + [l for l in lanes if l is not spec["lanes"][0]]
    scratch = os.path.join(os.path.dirname(evidence), "..", "scratch", "lanes") if vcheck.override() else os.path.join(ROOT, "scratch", "lanes")
    scratch = os.path.abspath(scratch)
    os.makedirs(scratch, exist_ok=True)
    base_args = []
    a = sys.argv[1:]
    i = 0
    while i < len(a):
        if a[i] in ("--evidence",):
            i += 2
            continue
        base_args += [a[i], a[i + 1]]
        i += 2
    t0 = time.time()
    results, skipped, digests = {}, {}, {}
    lane_bins = {}
    rc_final = 0
    main_ev = None
    for idx, lane in enumerate(lanes):
        name = lane["name"]
        ok, bindir = vcheck.cargo_build(spec["crate"], lane.get("profile", "dev"), lane.get("features"))
        if not ok:
            if idx == 0:
                return 2
            skipped[name] = "build failed"
            continue
        binary = os.path.join(bindir, spec.get("bin", spec["crate"]))
        if spec.get("digests") and not replay:
            # lanes share profile directories (features differ): keep this lane's binary so that a
            # digest mismatch can be re-checked case by case afterwards
            import shutil
            kept = os.path.join(scratch, f"{prop}-{name}.bin")
            try:
                shutil.copy2(binary, kept)
                lane_bins[name] = kept
            except OSError:
                pass
        ev = evidence if idx == 0 else os.path.join(scratch, f"{prop}-{name}.json")
        cmd = [binary] + base_args + ["--evidence", ev, "--lane", name]
        dig = None
        if spec.get("digests") and not replay:
            dig = os.path.join(scratch, f"{prop}-{name}.digests")
            if os.path.exists(dig):
                os.remove(dig)
            cmd += ["--digests", dig]
        if idx > 0 and os.path.exists(ev):
            os.remove(ev)
        try:
            r = subprocess.run(cmd, cwd=ROOT, env=vcheck.env_base(), timeout=lane.get("timeout_s", 3 * 3600))
            rc = r.returncode
        except subprocess.TimeoutExpired:
            rc = None
        if replay:
            if idx == 0:
                return rc if rc is not None else 2
            continue
        if rc not in (0, 1):
            if idx == 0:
                print(f"HARNESS-ERROR main lane {name} exited {rc}")
                return 2
            skipped[name] = f"lane exited {rc} (harness error / watchdog / too little observed): inconclusive"
            print(f"LANE-SKIPPED {name}: exit {rc}")
            continue
        if rc == 1:
            rc_final = 1
        try:
            with open(ev) as f:
                e = json.load(f)
        except Exception:  # noqa: BLE001
            if idx == 0:
                return 2
            skipped[name] = "lane wrote no evidence"
            continue
        if idx == 0:
            main_ev = e
        else:
            cov = e["coverage"]
            results[name] = {k: v for k, v in cov.items() if isinstance(v, (int, float, bool)) or k.endswith("_values")}
            results[name]["violations"] = e.get("violations", 0)
            results[name]["wall_s"] = e.get("wall_s")
        if dig and os.path.exists(dig):
            d = {}
            for line in open(dig):
                parts = line.split()
                if len(parts) == 3:
                    d[(parts[0], parts[1])] = parts[2]
            digests[name] = d
    if replay:
        return 0
    # cross-lane digest comparison
    mismatches = []
    names = list(digests)
    compared = 0
    if len(names) >= 2:
        ref = names[0]
        for other in names[1:]:
            common = set(digests[ref]) & set(digests[other])
            compared += len(common)
            for k in sorted(common):
                if digests[ref][k] != digests[other][k]:
                    mismatches.append((ref, other, k))
    known = {}
    try:
        with open(os.path.join(ROOT, "known_findings.json")) as f:
            known = {x["signature"]: x for x in json.load(f)["findings"] if x["property"] == prop and x.get("status") == "finding"}
    except Exception:  # noqa: BLE001
        pass
    # A digest mismatch is only a lead: the case is re-executed on its own in both lanes and the
    # full outcome tuples are compared; only a confirmed difference is a violation.
    def tuple_of(lane, k):
        b = lane_bins.get(lane)
        if not b:
            return None
        rp = os.path.join(scratch, f"{prop}-recheck.json")
        out = os.path.join(scratch, f"{prop}-recheck-{lane}.tuple")
        size = {"C01/small": "Small", "C01/medium": "Medium", "C01/thresh": "AroundThreshold", "C01/large": "Large"}.get(k[0], "Small")
        with open(rp, "w") as f:
            json.dump({"replay": {"seed": int(arg("--seed", "1")), "stream": k[0], "case": int(k[1]), "size": size}}, f)
        if os.path.exists(out):
            os.remove(out)
        try:
            subprocess.run([b, "--prop", prop, "--tier", tier, "--seed", arg("--seed", "1"), "--replay", rp, "--dump-tuple", out,
                            "--evidence", os.path.join(scratch, "recheck-ev.json"), "--replay-dir", os.path.join(scratch, "recheck-replays"),
                            "--known", os.path.join(ROOT, "known_findings.json")],
                           cwd=ROOT, env=vcheck.env_base(), stdout=subprocess.DEVNULL, stderr=subprocess.DEVNULL, timeout=900)
            with open(out) as f:
                return f.read()
        except Exception:  # noqa: BLE001
            return None
    confirmed, unconfirmed, unchecked = [], 0, 0
    for ref, other, k in mismatches[:50]:
        a, b = tuple_of(ref, k), tuple_of(other, k)
        if a is None or b is None:
            unchecked += 1
        elif a != b:
            confirmed.append((ref, other, k))
        else:
            unconfirmed += 1
    mismatches_all = len(mismatches)
    mismatches = confirmed
    new_viol = 0
    seen_sig = set()
    for ref, other, k in mismatches[:50]:
        sig = f"{prop}:cross-lane:{ref}-vs-{other}"
        if sig in known:
            if sig not in seen_sig:
                print(f"KNOWN-FINDING: property={prop} {known[sig]['what']} [signature={sig}]")
            seen_sig.add(sig)
            continue
        new_viol += 1
        if sig in seen_sig:
            continue
        seen_sig.add(sig)
        rdir = os.path.join(ROOT, "replays", prop)
        os.makedirs(rdir, exist_ok=True)
        path = os.path.join(rdir, f"cross-lane-{ref}-{other}.json")
        with open(path, "w") as f:
            json.dump({"property": prop, "signature": sig, "what": f"outcome digest of case {k} differs between build lanes {ref} and {other}",
                       "replay": {"seed": int(arg("--seed", "1")), "stream": k[0], "case": int(k[1])}}, f, indent=2)
        print(f"VIOLATION property={prop} replay={path}")
        print(f"  signature: {sig}")
        print(f"  what: outcome digest of case {k} differs between build lanes {ref} and {other}")
    if new_viol:
        rc_final = 1
    cov = main_ev["coverage"]
    cov["lanes"] = results
    cov["lanes_run"] = [l["name"] for l in lanes if l["name"] not in skipped]
    cov["lanes_skipped"] = skipped
    cov["cross_lane_digests_compared"] = compared
    cov["cross_lane_digest_mismatches"] = mismatches_all
    cov["cross_lane_mismatches_confirmed_by_reexecution"] = len(confirmed)
    cov["cross_lane_mismatches_not_reproduced"] = unconfirmed
    cov["cross_lane_mismatches_not_recheckable"] = unchecked
    if unconfirmed or unchecked:
        cov["inconclusive"] = cov.get("inconclusive", 0) + unconfirmed + unchecked
    main_ev["violations"] = main_ev.get("violations", 0) + sum(r.get("violations", 0) for r in results.values()) + new_viol
    main_ev["wall_s"] = round(time.time() - t0, 3)
    with open(evidence, "w") as f:
        json.dump(main_ev, f, indent=2)
    return rc_final


if __name__ == "__main__":
    sys.exit(main())
