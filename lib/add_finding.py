#!/usr/bin/env python3
"""Append/update one entry in /verif/known_findings.json under a file lock.

    lib/add_finding.py C12 'C12:abi-cbor:nan-payload' finding 'what fails ...' [commit]

status is `finding` (suppresses exactly that signature) or `fixed` (suppresses nothing).
Never called by a check at run time.
"""
import fcntl, json, os, sys
root = os.path.dirname(os.path.dirname(os.path.abspath(__file__)))
path = os.path.join(root, "known_findings.json")
prop, sig, status, what = sys.argv[1:5]
commit = sys.argv[5] if len(sys.argv) > 5 else None
assert status in ("finding", "fixed")
with open(path, "r+") as f:
    fcntl.flock(f, fcntl.LOCK_EX)
    data = json.load(f)
    items = [x for x in data["findings"] if not (x["property"] == prop and x["signature"] == sig)]
    e = {"property": prop, "signature": sig, "status": status, "what": what}
    if commit:
        e["commit"] = commit
    items.append(e)
    items.sort(key=lambda x: (x["property"], x["signature"]))
    data["findings"] = items
    f.seek(0); f.truncate()
    json.dump(data, f, indent=2); f.write("\n")
print("ok", prop, sig, status)
