#!/usr/bin/env python3
"""Run the pinned baseline suite on a tree and compare with BASELINE.json's stable_pass list.

    lib/baseline_check.py [TREE=/repo] [--packages p1,p2]   # --packages restricts the run (and the comparison)

Exit 0 when every stable_pass test that was run passed; prints the ones that did not.
"""
import json, os, subprocess, sys, xml.etree.ElementTree as ET
tree = "/repo"; pk = None
a = sys.argv[1:]
while a:
    x = a.pop(0)
    if x == "--packages": pk = a.pop(0).split(",")
    else: tree = x
base = json.load(open("/root/.vp/BASELINE.json"))
stable = set(base["stable_pass"])
cmd = ["cargo", "nextest", "run", "--no-fail-fast", "--tool-config-file", "pb:/w/lib/nextest.toml",
       "--profile", "pb", "--test-threads", os.environ.get("TEST_THREADS", "8"), "--offline"]
if pk:
    for p in pk: cmd += ["-p", p]
else:
    cmd.append("--workspace")
env = dict(os.environ, CARGO_NET_OFFLINE="true")
parse_only = os.environ.get("BASELINE_PARSE_ONLY")
if not parse_only:
    for j in (os.path.join(tree, "target", "nextest", "pb", "junit.xml"),):
        if os.path.exists(j): os.remove(j)
    p = subprocess.run(cmd, cwd=tree, env=env, stdout=subprocess.PIPE, stderr=subprocess.STDOUT, text=True)
else:
    class P: stdout = ""
    p = P()
# nextest keeps its store under <workspace>/target/nextest even when CARGO_TARGET_DIR points elsewhere
junit = os.path.join(tree, "target", "nextest", "pb", "junit.xml")
if not os.path.exists(junit):
    junit = os.path.join(os.environ.get("CARGO_TARGET_DIR", os.path.join(tree, "target")), "nextest", "pb", "junit.xml")
passed, failed = set(), set()
try:
    root = ET.parse(junit).getroot()
except Exception as e:
    print(p.stdout[-3000:]); print("BASELINE-ERROR no junit:", e); sys.exit(2)
for tc in root.iter("testcase"):
    tid = (tc.get("classname") or "") + "::" + (tc.get("name") or "")
    if tc.find("failure") is not None or tc.find("error") is not None or tc.find("flakyFailure") is not None or tc.find("rerunFailure") is not None:
        failed.add(tid)
    elif tc.find("skipped") is None:
        passed.add(tid)
passed -= failed
ran = passed | failed
if pk:
    scope = {t for t in stable if t.split("::", 1)[0] in pk}
else:
    scope = stable
missing = sorted(scope - passed)
# Under heavy machine load the compile-a-consumer-crate tests hit nextest's slow-timeout; give every
# stable test that did not pass one more chance on its own before calling it a regression.
if missing and len(missing) <= 60 and not os.environ.get("BASELINE_NO_RETRY"):
    by_pkg = {}
    for t in missing:
        parts = t.split("::")
        by_pkg.setdefault(parts[0], []).append(parts[-1])
    still = set(missing)
    for pkg, names in by_pkg.items():
        rc = subprocess.run(["cargo", "nextest", "run", "--no-fail-fast", "--tool-config-file", "pb:/w/lib/nextest.toml",
                             "--profile", "pb", "--test-threads", "4", "--offline", "-p", pkg] + sorted(set(names)),
                            cwd=tree, env=env, stdout=subprocess.PIPE, stderr=subprocess.STDOUT, text=True)
        try:
            r2 = ET.parse(os.path.join(tree, "target", "nextest", "pb", "junit.xml")).getroot()
        except Exception:
            continue
        for tc in r2.iter("testcase"):
            tid = (tc.get("classname") or "") + "::" + (tc.get("name") or "")
            ok = tc.find("failure") is None and tc.find("error") is None and tc.find("skipped") is None
            if ok and tid in still:
                still.discard(tid); passed.add(tid)
    print(f"baseline: retried {len(missing)} not-passed stable tests on their own, {len(missing) - len(still)} passed on retry")
    missing = sorted(still)
print(f"baseline: ran={len(ran)} passed={len(passed)} failed={len(failed)} stable_in_scope={len(scope)} stable_not_passed={len(missing)}")
for t in missing[:50]:
    print("  NOT-PASSED", t, "(failed)" if t in failed else "(not run)")
sys.exit(1 if missing else 0)
