#!/bin/bash
# seed_confirm2.sh <tag> : like seed_confirm.sh but in ONE reusable scratch worktree (/tmp/seed/confirm-wt at /repo HEAD),
# so consecutive confirmations rebuild incrementally. Writes /tmp/seed/<tag>/confirm.log
tag=$1; base=/tmp/seed/$tag; out=$base/out; log=$base/confirm.log; wt=/tmp/seed/confirm-wt
[ -d $wt ] || git -C /repo worktree add --detach $wt HEAD >/dev/null 2>&1
cd $wt || exit 2
: > $log
git checkout -q --detach $(git -C /repo rev-parse HEAD) 2>/dev/null
git checkout -q -- . ; git clean -fdq -e target
echo "scratch worktree $wt at $(git rev-parse --short HEAD)" | tee -a $log
git apply $out/patch.diff || { echo "patch does not apply" | tee -a $log; exit 2; }
crate=$(grep '^+++ b/' $out/demo.diff | head -1 | sed 's#+++ b/crates/\([^/]*\)/.*#\1#')
tests=$(grep '^+++ b/' $out/demo.diff | sed -n 's#+++ b/crates/[^/]*/tests/\([^/]*\)\.rs#\1#p')
echo "crate=$crate tests=$tests" | tee -a $log
python3 /verif/lib/baseline_check.py $wt > $base/baseline.log 2>&1; echo "baseline rc=$? $(grep '^baseline' $base/baseline.log | tr '\n' ' ')" | tee -a $log
grep NOT-PASSED $base/baseline.log | head -5 | tee -a $log
git apply $out/demo.diff || { echo "demo does not apply" | tee -a $log; exit 2; }
targs=""; for t in $tests; do targs="$targs --test $t"; done
CARGO_NET_OFFLINE=true cargo test --offline -p $crate $targs $DEMO_FEATURES > $base/demo_with.log 2>&1; echo "demo with patch rc=$? (expect nonzero) $(grep -h 'test result' $base/demo_with.log | tr '\n' ' ')" | tee -a $log
git apply -R $out/patch.diff
CARGO_NET_OFFLINE=true cargo test --offline -p $crate $targs $DEMO_FEATURES > $base/demo_without.log 2>&1; echo "demo without patch rc=$? (expect 0) $(grep -h 'test result' $base/demo_without.log | tr '\n' ' ')" | tee -a $log
git checkout -q -- . ; git clean -fdq -e target
