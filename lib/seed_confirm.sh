#!/bin/bash
# seed_confirm.sh <tag> : confirm a delivered seeded break in its scratch worktree /tmp/seed/<tag>/wt
#  1. patch only: full baseline (stable_pass all pass)   2. patch+demo: demo fails   3. demo only: demo passes
tag=$1; base=/tmp/seed/$tag; wt=$base/wt; out=$base/out; log=$base/confirm.log
cd $wt || exit 2
# one shared target dir for all confirmations (sequential): registry deps are built once
export CARGO_TARGET_DIR=/tmp/seed/shared-target
: > $log
git checkout -q -- . ; git clean -fdq -e target
git apply $out/patch.diff || { echo "patch does not apply" | tee -a $log; exit 2; }
crate=$(grep '^+++ b/' $out/demo.diff | head -1 | sed 's#+++ b/crates/\([^/]*\)/.*#\1#')
tests=$(grep '^+++ b/' $out/demo.diff | sed -n 's#+++ b/crates/[^/]*/tests/\([^/]*\)\.rs#\1#p')
echo "crate=$crate tests=$tests" | tee -a $log
if [ -z "$SKIP_BASELINE" ]; then
  python3 /verif/lib/baseline_check.py $wt > $base/baseline.log 2>&1; echo "baseline rc=$? $(head -1 $base/baseline.log)" | tee -a $log
  grep NOT-PASSED $base/baseline.log | head -5 | tee -a $log
fi
git apply $out/demo.diff || { echo "demo does not apply" | tee -a $log; exit 2; }
targs=""; for t in $tests; do targs="$targs --test $t"; done
[ -z "$targs" ] && targs="$DEMO_ARGS"
CARGO_NET_OFFLINE=true cargo test --offline -p $crate $targs $DEMO_FEATURES > $base/demo_with.log 2>&1; echo "demo with patch rc=$? (expect nonzero) $(grep -h 'test result' $base/demo_with.log | tr '\n' ' ')" | tee -a $log
git apply -R $out/patch.diff
CARGO_NET_OFFLINE=true cargo test --offline -p $crate $targs $DEMO_FEATURES > $base/demo_without.log 2>&1; echo "demo without patch rc=$? (expect 0) $(grep -h 'test result' $base/demo_without.log | tr '\n' ' ')" | tee -a $log
