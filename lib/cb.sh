#!/bin/bash
# cargo build with retry while another author's half-created crate breaks workspace loading
cd /verif/harness
for i in $(seq 1 20); do
  out=$(cargo build --offline "$@" 2>&1); rc=$?
  if echo "$out" | grep -q "failed to load manifest for workspace member"; then sleep 10; continue; fi
  break
done
echo "$out" | grep -E "^(warning|error)" -A14 | head -${CB_LINES:-80}
echo "$out" | tail -1
exit $rc
