//! Runtime workload generator shared by C05 and C07.
//!
//! 1–3 worldlines × 1–4 writer heads, three native rewrite rules
//! (`native_rule_bootstrap`) that decode a command from the intent bytes of the
//! runtime ingress event and set/clear node attachments, add/remove nodes,
//! add/remove edges and set edge attachments on a small *reachable* slot graph,
//! so every tick really changes the state root and different ticks touch
//! overlapping and disjoint slots. Intents are ingested through
//! `WorldlineRuntime::ingest` and committed by `SchedulerCoordinator::super_tick`,
//! producing real multi-tick provenance with receipts (accepted and rejected
//! candidates). After every committed pass the live `(abstract state,
//! state_root, commit hash)` per worldline is recorded.

use std::collections::BTreeMap;

use bytes::Bytes;
use verif_core::{hex4, json, Rng, Value};
use warp_core::{
    make_edge_id, make_head_id, make_intent_kind, make_node_id, make_type_id, make_warp_id,
    AtomPayload, AttachmentKey, AttachmentValue, ConflictPolicy, EdgeId, EdgeKey, EdgeRecord,
    Engine, EngineBuilder, Footprint, GraphStore, GraphView, Hash, InboxAddress, InboxPolicy,
    IngressEnvelope, IngressTarget, NodeId, NodeKey, NodeRecord, PatternGraph, PlaybackMode,
    ProvenanceService, ProvenanceStore, RewriteRule, SchedulerCoordinator, SchedulerKind,
    TickDelta, WarpOp, WorldlineId, WorldlineRuntime, WorldlineState, WorldlineTick, WriterHead,
    WriterHeadKey,
};

use crate::abs::{observe, Obs};

pub const NS: u8 = 6; // static slot nodes (reachable from root)
pub const ND: u8 = 4; // dynamic nodes (added/removed by ticks)
pub const INTENT_KIND: &str = "verif.history/op";

pub fn slot(i: u8) -> NodeId {
    make_node_id(&format!("vh/s{}", i % NS))
}
pub fn dynn(i: u8) -> NodeId {
    make_node_id(&format!("vh/d{}", i % ND))
}
pub fn root_node() -> NodeId {
    make_node_id("root")
}
pub fn edge_root_slot(i: u8) -> EdgeId {
    make_edge_id(&format!("vh/root->s{}", i % NS))
}
pub fn edge_root_dyn(i: u8) -> EdgeId {
    make_edge_id(&format!("vh/root->d{}", i % ND))
}
pub fn edge_slots(a: u8, b: u8) -> EdgeId {
    make_edge_id(&format!("vh/s{}->s{}", a % NS, b % NS))
}
fn val_ty() -> warp_core::TypeId {
    make_type_id("vh/val")
}

// ---------------------------------------------------------------------------
// Command encoding (the intent bytes)
// ---------------------------------------------------------------------------

#[derive(Debug, Clone, PartialEq, Eq)]
pub struct Cmd {
    pub op: u8, // 0 set-node-att 1 add-node 2 del-node 3 add-edge 4 del-edge 5 set-edge-att
    pub a: u8,
    pub b: u8,
    pub nonce: u32,
    pub val: Vec<u8>,
}

impl Cmd {
    pub fn encode(&self) -> Vec<u8> {
        let mut v = vec![b'V', b'H', self.op, self.a, self.b];
        v.extend_from_slice(&self.nonce.to_le_bytes());
        v.extend_from_slice(&self.val);
        v
    }
    pub fn decode(bytes: &[u8]) -> Option<Self> {
        if bytes.len() < 9 || bytes[0] != b'V' || bytes[1] != b'H' || bytes[2] > 5 {
            return None;
        }
        Some(Self {
            op: bytes[2],
            a: bytes[3],
            b: bytes[4],
            nonce: u32::from_le_bytes([bytes[5], bytes[6], bytes[7], bytes[8]]),
            val: bytes[9..].to_vec(),
        })
    }
    fn family(&self) -> u8 {
        match self.op {
            0 | 5 => 0,
            1 | 2 => 1,
            _ => 2,
        }
    }
    pub fn label(&self) -> String {
        let n = ["set", "addn", "deln", "adde", "dele", "sete"][self.op as usize];
        format!("{n}({},{},{}b)", self.a, self.b, self.val.len())
    }
}

fn cmd_of(view: GraphView<'_>, scope: &NodeId) -> Option<Cmd> {
    match view.node_attachment(scope) {
        Some(AttachmentValue::Atom(a)) => Cmd::decode(a.bytes.as_ref()),
        _ => None,
    }
}

fn nk(view: GraphView<'_>, id: NodeId) -> NodeKey {
    NodeKey {
        warp_id: view.warp_id(),
        local_id: id,
    }
}
fn ek(view: GraphView<'_>, id: EdgeId) -> EdgeKey {
    EdgeKey {
        warp_id: view.warp_id(),
        local_id: id,
    }
}

/// New slot value: depends on the *previous* value (so replay order matters)
/// and on the intent bytes.
fn mixed(old: Option<&AttachmentValue>, val: &[u8]) -> Option<AttachmentValue> {
    if val.is_empty() {
        return None;
    }
    let mut h = blake3::Hasher::new();
    if let Some(AttachmentValue::Atom(a)) = old {
        h.update(a.bytes.as_ref());
    }
    h.update(val);
    let d = h.finalize();
    let n = 1 + (val.len() % 24);
    let mut bytes = val.to_vec();
    bytes.extend_from_slice(&d.as_bytes()[..n.min(32)]);
    Some(AttachmentValue::Atom(AtomPayload::new(val_ty(), Bytes::from(bytes))))
}

fn footprint(view: GraphView<'_>, scope: &NodeId) -> Footprint {
    let w = view.warp_id();
    let mut f = Footprint::default();
    f.factor_mask = 1;
    f.n_read.insert_with_warp(w, *scope);
    f.a_read.insert(AttachmentKey::node_alpha(nk(view, *scope)));
    let Some(c) = cmd_of(view, scope) else { return f };
    match c.op {
        0 => {
            let k = AttachmentKey::node_alpha(nk(view, slot(c.a)));
            f.n_read.insert_with_warp(w, slot(c.a));
            f.a_read.insert(k);
            f.a_write.insert(k);
        }
        1 => {
            f.n_write.insert_with_warp(w, dynn(c.a));
            f.n_write.insert_with_warp(w, root_node());
            f.e_write.insert_with_warp(w, edge_root_dyn(c.a));
            f.a_write.insert(AttachmentKey::node_alpha(nk(view, dynn(c.a))));
        }
        2 => {
            f.n_read.insert_with_warp(w, dynn(c.a));
            f.n_write.insert_with_warp(w, dynn(c.a));
            f.n_write.insert_with_warp(w, root_node());
            f.e_read.insert_with_warp(w, edge_root_dyn(c.a));
            f.e_write.insert_with_warp(w, edge_root_dyn(c.a));
            f.a_write.insert(AttachmentKey::node_alpha(nk(view, dynn(c.a))));
            f.a_write
                .insert(AttachmentKey::edge_beta(ek(view, edge_root_dyn(c.a))));
        }
        3 => {
            let e = edge_slots(c.a, c.b);
            f.n_write.insert_with_warp(w, slot(c.a));
            f.n_read.insert_with_warp(w, slot(c.b));
            f.e_write.insert_with_warp(w, e);
            f.a_write.insert(AttachmentKey::edge_beta(ek(view, e)));
        }
        4 => {
            let e = edge_slots(c.a, c.b);
            f.e_read.insert_with_warp(w, e);
            f.e_write.insert_with_warp(w, e);
            f.n_write.insert_with_warp(w, slot(c.a));
            f.a_write.insert(AttachmentKey::edge_beta(ek(view, e)));
        }
        _ => {
            let e = edge_slots(c.a, c.b);
            let k = AttachmentKey::edge_beta(ek(view, e));
            f.e_read.insert_with_warp(w, e);
            f.a_read.insert(k);
            f.a_write.insert(k);
        }
    }
    f
}

fn execute(view: GraphView<'_>, scope: &NodeId, delta: &mut TickDelta) {
    let Some(c) = cmd_of(view, scope) else { return };
    let w = view.warp_id();
    match c.op {
        0 => {
            let s = slot(c.a);
            let old = view.node_attachment(&s);
            delta.push(WarpOp::SetAttachment {
                key: AttachmentKey::node_alpha(nk(view, s)),
                value: mixed(old, &c.val),
            });
        }
        1 => {
            let d = dynn(c.a);
            delta.push(WarpOp::UpsertNode {
                node: nk(view, d),
                record: NodeRecord {
                    ty: make_type_id(&format!("vh/dyn{}", c.b % 3)),
                },
            });
            delta.push(WarpOp::UpsertEdge {
                warp_id: w,
                record: EdgeRecord {
                    id: edge_root_dyn(c.a),
                    from: root_node(),
                    to: d,
                    ty: make_type_id("vh/link"),
                },
            });
            delta.push(WarpOp::SetAttachment {
                key: AttachmentKey::node_alpha(nk(view, d)),
                value: mixed(None, &c.val),
            });
        }
        2 => {
            let d = dynn(c.a);
            if view.node(&d).is_some() {
                if view.has_edge(&edge_root_dyn(c.a)) {
                    delta.push(WarpOp::DeleteEdge {
                        warp_id: w,
                        from: root_node(),
                        edge_id: edge_root_dyn(c.a),
                    });
                }
                delta.push(WarpOp::DeleteNode { node: nk(view, d) });
            }
        }
        3 => {
            let e = edge_slots(c.a, c.b);
            delta.push(WarpOp::UpsertEdge {
                warp_id: w,
                record: EdgeRecord {
                    id: e,
                    from: slot(c.a),
                    to: slot(c.b),
                    ty: make_type_id(&format!("vh/e{}", c.nonce % 2)),
                },
            });
            delta.push(WarpOp::SetAttachment {
                key: AttachmentKey::edge_beta(ek(view, e)),
                value: mixed(None, &c.val),
            });
        }
        4 => {
            let e = edge_slots(c.a, c.b);
            if view.has_edge(&e) {
                delta.push(WarpOp::DeleteEdge {
                    warp_id: w,
                    from: slot(c.a),
                    edge_id: e,
                });
            }
        }
        _ => {
            let e = edge_slots(c.a, c.b);
            if view.has_edge(&e) {
                let old = view.edge_attachment(&e);
                delta.push(WarpOp::SetAttachment {
                    key: AttachmentKey::edge_beta(ek(view, e)),
                    value: mixed(old, &c.val),
                });
            }
        }
    }
}

fn m0(view: GraphView<'_>, scope: &NodeId) -> bool {
    cmd_of(view, scope).is_some_and(|c| c.family() == 0)
}
fn m1(view: GraphView<'_>, scope: &NodeId) -> bool {
    cmd_of(view, scope).is_some_and(|c| c.family() == 1)
}
fn m2(view: GraphView<'_>, scope: &NodeId) -> bool {
    cmd_of(view, scope).is_some_and(|c| c.family() == 2)
}

fn rule(name: &'static str, matcher: fn(GraphView<'_>, &NodeId) -> bool) -> RewriteRule {
    RewriteRule {
        id: make_type_id(&format!("rule:{name}")).0,
        name,
        left: PatternGraph { nodes: vec![] },
        matcher,
        executor: execute,
        compute_footprint: footprint,
        factor_mask: 1,
        conflict_policy: ConflictPolicy::Abort,
        join_fn: None,
    }
}

/// Engine with the three `cmd/vh/*` rules registered.
pub fn make_engine(workers: usize) -> Engine {
    let mut store = GraphStore::default();
    let root = make_node_id("root");
    store.insert_node(
        root,
        NodeRecord {
            ty: make_type_id("world"),
        },
    );
    let mut engine = EngineBuilder::new(store, root)
        .scheduler(SchedulerKind::Radix)
        .workers(workers)
        .build();
    engine
        .register_rule(rule("cmd/vh/att", m0))
        .expect("register rule att");
    engine
        .register_rule(rule("cmd/vh/node", m1))
        .expect("register rule node");
    engine
        .register_rule(rule("cmd/vh/edge", m2))
        .expect("register rule edge");
    engine
}

/// U0 of a worldline: root + NS slot nodes linked from the root, a few initial
/// attachments chosen by `variant` (so initial boundaries differ between
/// worldlines unless the same variant is requested).
pub fn initial_state(warp_label: &str, variant: u64) -> WorldlineState {
    let warp = make_warp_id(warp_label);
    let mut s = GraphStore::new(warp);
    let root = root_node();
    s.insert_node(
        root,
        NodeRecord {
            ty: make_type_id("world"),
        },
    );
    for i in 0..NS {
        s.insert_node(
            slot(i),
            NodeRecord {
                ty: make_type_id("vh/slot"),
            },
        );
        s.insert_edge(
            root,
            EdgeRecord {
                id: edge_root_slot(i),
                from: root,
                to: slot(i),
                ty: make_type_id("vh/link"),
            },
        );
        if (variant >> i) & 1 == 1 {
            s.set_node_attachment(
                slot(i),
                Some(AttachmentValue::Atom(AtomPayload::new(
                    val_ty(),
                    Bytes::from(vec![i; 1 + (variant as usize + i as usize) % 5]),
                ))),
            );
        }
    }
    WorldlineState::from_root_store(s, root).expect("initial worldline state")
}

// ---------------------------------------------------------------------------
// Histories
// ---------------------------------------------------------------------------

#[derive(Debug, Clone)]
pub struct LiveRec {
    pub state_root: Hash,
    pub commit_hash: Option<Hash>,
    /// Full observation + state clone (only for the last tick of a pass).
    pub obs: Option<Obs>,
    pub state: Option<WorldlineState>,
}

#[derive(Debug, Clone)]
pub struct Wl {
    pub id: WorldlineId,
    pub warp_label: String,
    pub variant: u64,
    pub base: WorldlineState,
    pub heads: Vec<WriterHeadKey>,
    pub inboxes: Vec<Option<String>>,
    /// `Some(max_per_tick)` for budgeted inboxes.
    pub budgets: Vec<Option<u32>>,
}

pub struct Hist {
    pub rt: WorldlineRuntime,
    pub prov: ProvenanceService,
    pub engine: Engine,
    pub wls: Vec<Wl>,
    /// Indexed by cursor tick 0..=len.
    pub live: BTreeMap<WorldlineId, Vec<LiveRec>>,
    pub passes: u64,
    pub intents: u64,
    pub accepted: u64,
    pub rejected: u64,
    pub nonce: u32,
    pub log: Vec<String>,
    pub workers: usize,
}

#[derive(Debug, Clone, Copy)]
pub struct Shape {
    pub worldlines: usize,
    pub max_heads: usize,
    /// Stop feeding a worldline when it reaches this many ticks.
    #[allow(dead_code)]
    pub target_ticks: u64,
    /// Worldline 1 (if any) shares warp + initial variant with worldline 0.
    pub twin_initial: bool,
}

pub fn wl_id(n: u8) -> WorldlineId {
    let mut b = [0u8; 32];
    b[0] = 0x70;
    b[1] = n;
    b[31] = n.wrapping_mul(37).wrapping_add(1);
    WorldlineId::from_bytes(b)
}

impl Hist {
    pub fn new(rng: &mut Rng, shape: Shape) -> Self {
        let mut rt = WorldlineRuntime::new();
        let mut prov = ProvenanceService::new();
        let workers = if rng.chance(1, 4) { 3 } else { 1 };
        let engine = make_engine(workers);
        let mut wls = Vec::new();
        let mut live = BTreeMap::new();
        for w in 0..shape.worldlines {
            let id = wl_id(w as u8 + 1);
            let (warp_label, variant) = if w == 1 && shape.twin_initial {
                ("vh/warp0".to_owned(), wls.first().map_or(0, |x: &Wl| x.variant))
            } else {
                (format!("vh/warp{w}"), rng.below(64))
            };
            let base = initial_state(&warp_label, variant);
            rt.register_worldline(id, base.clone()).expect("register worldline");
            prov.register_worldline(id, &base).expect("register provenance");
            let n_heads = rng.range_usize(1, shape.max_heads.max(1));
            let mut heads = Vec::new();
            let mut inboxes = Vec::new();
            let mut budgets = Vec::new();
            for h in 0..n_heads {
                let key = WriterHeadKey {
                    worldline_id: id,
                    head_id: make_head_id(&format!("h{h}")),
                };
                let policy = match rng.below(6) {
                    0 => InboxPolicy::Budgeted {
                        max_per_tick: rng.range(1, 3) as u32,
                    },
                    1 => InboxPolicy::KindFilter(
                        [make_intent_kind(INTENT_KIND)].into_iter().collect(),
                    ),
                    _ => InboxPolicy::AcceptAll,
                };
                let inbox = (h > 0).then(|| format!("in{h}"));
                budgets.push(match &policy {
                    InboxPolicy::Budgeted { max_per_tick } => Some(*max_per_tick),
                    _ => None,
                });
                rt.register_writer_head(WriterHead::with_routing(
                    key,
                    PlaybackMode::Play,
                    policy,
                    inbox.clone().map(InboxAddress),
                    h == 0,
                ))
                .expect("register head");
                heads.push(key);
                inboxes.push(inbox);
            }
            live.insert(
                id,
                vec![LiveRec {
                    state_root: base.state_root(),
                    commit_hash: None,
                    obs: Some(observe(&base, true)),
                    state: Some(base.clone()),
                }],
            );
            wls.push(Wl {
                id,
                warp_label,
                variant,
                base,
                heads,
                inboxes,
                budgets,
            });
        }
        Self {
            rt,
            prov,
            engine,
            wls,
            live,
            passes: 0,
            intents: 0,
            accepted: 0,
            rejected: 0,
            nonce: 0,
            log: Vec::new(),
            workers,
        }
    }

    /// Independent copy of this world (runtime, provenance, live log) with a
    /// fresh engine carrying the same rules; used to continue forks without
    /// disturbing the original history.
    pub fn fork_world(&self) -> Self {
        Self {
            rt: self.rt.clone(),
            prov: self.prov.clone(),
            engine: make_engine(self.workers),
            wls: self.wls.clone(),
            live: self.live.clone(),
            passes: self.passes,
            intents: self.intents,
            accepted: self.accepted,
            rejected: self.rejected,
            nonce: self.nonce.wrapping_add(1_000_000),
            log: Vec::new(),
            workers: self.workers,
        }
    }

    pub fn len(&self, w: WorldlineId) -> u64 {
        self.prov.len(w).unwrap_or(0)
    }

    fn random_cmd(&mut self, rng: &mut Rng) -> Cmd {
        self.nonce += 1;
        let op = match rng.below(12) {
            0..=3 => 0,
            4 | 5 => 1,
            6 => 2,
            7 | 8 => 3,
            9 => 4,
            _ => 5,
        };
        // Small index space ⇒ overlapping slots across ticks and within a tick.
        let a = rng.below(if op == 1 || op == 2 { u64::from(ND) } else { 4 }) as u8;
        let mut b = rng.below(4) as u8;
        if op >= 3 && b == a {
            b = (a + 1) % 4;
        }
        let val = if rng.chance(1, 7) {
            Vec::new()
        } else {
            let n = rng.range_usize(1, 20);
            rng.bytes(n)
        };
        Cmd {
            op,
            a,
            b,
            nonce: self.nonce,
            val,
        }
    }

    /// Ticks a head will still produce from what is pending in its inbox.
    fn need(pending: u64, budget: Option<u32>) -> u64 {
        match budget {
            _ if pending == 0 => 0,
            Some(m) => pending.div_ceil(u64::from(m.max(1))),
            None => 1,
        }
    }

    /// Ingest intents for heads of worldline `wi` such that the worldline grows
    /// by at most `budget_ticks` more ticks in total (budgeted inboxes spread
    /// their pending intents over several passes).
    fn feed(&mut self, rng: &mut Rng, wi: usize, budget_ticks: u64) {
        let wl = self.wls[wi].clone();
        let mut pending: Vec<u64> = wl
            .heads
            .iter()
            .map(|k| {
                self.rt
                    .heads()
                    .get(k)
                    .map_or(0, |h| h.inbox().pending_count() as u64)
            })
            .collect();
        let total = |p: &[u64]| -> u64 {
            p.iter()
                .zip(&wl.budgets)
                .map(|(n, b)| Self::need(*n, *b))
                .sum()
        };
        if total(&pending) >= budget_ticks {
            return;
        }
        let want_heads = rng.range(1, wl.heads.len() as u64);
        let mut order: Vec<usize> = (0..wl.heads.len()).collect();
        rng.shuffle(&mut order);
        for hi in order.into_iter().take(want_heads as usize) {
            let mut n = rng.range(1, 4);
            while n > 0 {
                let mut p2 = pending.clone();
                p2[hi] += n;
                if total(&p2) <= budget_ticks {
                    break;
                }
                n -= 1;
            }
            for _ in 0..n {
                let cmd = self.random_cmd(rng);
                let target = match (rng.below(3), hi, &wl.inboxes[hi]) {
                    (0, 0, _) => IngressTarget::DefaultWriter { worldline_id: wl.id },
                    (1, _, Some(name)) => IngressTarget::InboxAddress {
                        worldline_id: wl.id,
                        inbox: InboxAddress(name.clone()),
                    },
                    _ => IngressTarget::ExactHead { key: wl.heads[hi] },
                };
                let env = IngressEnvelope::local_intent(
                    target,
                    make_intent_kind(INTENT_KIND),
                    cmd.encode(),
                );
                let _ = self.rt.ingest(env.clone());
                if rng.chance(1, 10) {
                    // duplicate delivery (idempotent)
                    let _ = self.rt.ingest(env);
                }
                pending[hi] += 1;
                self.intents += 1;
                if self.log.len() < 400 {
                    self.log.push(format!("w{wi}h{hi}:{}", cmd.label()));
                }
            }
        }
    }

    /// One scheduler pass over all worldlines whose length is below `cap(w)`.
    /// Returns `Err(reason)` on a harness/runtime error (never a violation).
    pub fn pass(&mut self, rng: &mut Rng, caps: &BTreeMap<WorldlineId, u64>) -> Result<usize, String> {
        for wi in 0..self.wls.len() {
            let id = self.wls[wi].id;
            let cap = caps.get(&id).copied().unwrap_or(0);
            let len = self.len(id);
            if len >= cap {
                continue;
            }
            self.feed(rng, wi, cap - len);
        }
        let records = SchedulerCoordinator::super_tick(&mut self.rt, &mut self.prov, &mut self.engine)
            .map_err(|e| format!("super_tick failed: {e:?}"))?;
        self.passes += 1;
        let mut touched: Vec<WorldlineId> = Vec::new();
        for r in &records {
            let w = r.head_key.worldline_id;
            if let Ok(e) = self.prov.entry(
                w,
                WorldlineTick::from_raw(r.worldline_tick_after.as_u64().saturating_sub(1)),
            ) {
                for re in e.tick_receipt.as_ref().map_or(&[][..], |x| x.entries()) {
                    if matches!(re.disposition, warp_core::TickReceiptDisposition::Applied) {
                        self.accepted += 1;
                    } else {
                        self.rejected += 1;
                    }
                }
            }
            let v = self.live.entry(w).or_default();
            let t = r.worldline_tick_after.as_u64() as usize;
            if v.len() != t {
                return Err(format!(
                    "step record tick_after {t} does not follow live log length {}",
                    v.len()
                ));
            }
            v.push(LiveRec {
                state_root: r.state_root,
                commit_hash: Some(r.commit_hash),
                obs: None,
                state: None,
            });
            if !touched.contains(&w) {
                touched.push(w);
            }
        }
        for w in touched {
            let st = self
                .rt
                .worldlines()
                .get(&w)
                .ok_or_else(|| "frontier vanished".to_owned())?
                .state()
                .clone();
            let obs = observe(&st, true);
            let v = self.live.get_mut(&w).ok_or_else(|| "live log missing".to_owned())?;
            let last = v.last_mut().ok_or_else(|| "live log empty".to_owned())?;
            last.obs = Some(obs);
            last.state = Some(st);
        }
        Ok(records.len())
    }

    /// Run passes until every worldline reached `target_ticks` (or the pass
    /// cap is hit).
    pub fn run_to(&mut self, rng: &mut Rng, target_ticks: u64) -> Result<(), String> {
        let caps: BTreeMap<WorldlineId, u64> =
            self.wls.iter().map(|w| (w.id, target_ticks)).collect();
        let mut guard = 0;
        while self.wls.iter().any(|w| self.len(w.id) < target_ticks) {
            self.pass(rng, &caps)?;
            guard += 1;
            if guard > target_ticks * 4 + 16 {
                break;
            }
        }
        Ok(())
    }

    /// Register a forked child worldline (already forked in `self.prov`) as a
    /// live frontier with `heads` writer heads, like `fork_strand` does.
    pub fn adopt_fork(
        &mut self,
        source: WorldlineId,
        child: WorldlineId,
        fork_tick: u64,
        heads: usize,
    ) -> Result<(), String> {
        let src = self
            .wls
            .iter()
            .find(|w| w.id == source)
            .cloned()
            .ok_or_else(|| "unknown source".to_owned())?;
        let child_state = self
            .prov
            .replay_worldline_state_at(child, &src.base, WorldlineTick::from_raw(fork_tick + 1))
            .map_err(|e| format!("replay child at fork tick failed: {e:?}"))?;
        self.rt
            .register_worldline(child, child_state)
            .map_err(|e| format!("register child: {e:?}"))?;
        let mut keys = Vec::new();
        let mut inboxes = Vec::new();
        for h in 0..heads.max(1) {
            let key = WriterHeadKey {
                worldline_id: child,
                head_id: make_head_id(&format!("h{h}")),
            };
            let inbox = (h > 0).then(|| format!("in{h}"));
            self.rt
                .register_writer_head(WriterHead::with_routing(
                    key,
                    PlaybackMode::Play,
                    InboxPolicy::AcceptAll,
                    inbox.clone().map(InboxAddress),
                    h == 0,
                ))
                .map_err(|e| format!("register child head: {e:?}"))?;
            keys.push(key);
            inboxes.push(inbox);
        }
        let prefix: Vec<LiveRec> = self
            .live
            .get(&source)
            .map(|v| v[..=(fork_tick as usize + 1)].to_vec())
            .ok_or_else(|| "source live log missing".to_owned())?;
        self.live.insert(child, prefix);
        self.wls.push(Wl {
            id: child,
            warp_label: src.warp_label.clone(),
            variant: src.variant,
            base: src.base.clone(),
            budgets: vec![None; keys.len()],
            heads: keys,
            inboxes,
        });
        Ok(())
    }

    pub fn describe(&self) -> Value {
        json!({
            "worldlines": self.wls.iter().map(|w| json!({
                "id": hex4(w.id.as_bytes()),
                "warp": w.warp_label,
                "initial_variant": w.variant,
                "heads": w.heads.len(),
                "ticks": self.len(w.id),
            })).collect::<Vec<_>>(),
            "passes": self.passes,
            "intents": self.intents,
            "candidates_applied": self.accepted,
            "candidates_rejected": self.rejected,
            "first_intents": self.log.iter().take(12).collect::<Vec<_>>(),
        })
    }
}
