//! Canonical, layout-independent observation of a `WorldlineState`.
//!
//! Graph content is extracted only through the public `GraphStore` iterators
//! plus the `warp_core::verif::{warp_ids, instances, state_root}` doors and is
//! sorted by id, so edge-bucket insertion order (storage layout) never shows
//! up in a comparison. `committed_ingress` is never observed (DESIGN C07 "G").

use std::fmt::Write as _;

use verif_core::hex;
use warp_core::{AttachmentValue, Hash, WorldlineState};

/// One committed tick as recorded in `WorldlineState::tick_history` — the part
/// that the commit chain binds (C05 statement: parent, state root, patch
/// digest, policy) plus the tick position (`tx` = tick + 1).
#[derive(Debug, Clone, PartialEq, Eq)]
pub struct ChainRec {
    pub hash: Hash,
    pub state_root: Hash,
    pub parents: Vec<Hash>,
    pub patch_digest: Hash,
    pub policy_id: u32,
    pub tx: u64,
    pub root: String,
}

/// Retained-but-not-committed replay metadata of one tick.
#[derive(Debug, Clone, PartialEq, Eq)]
pub struct MetaRec {
    pub plan: Hash,
    pub decision: Hash,
    pub rewrites: Hash,
    pub receipt_tx: u64,
    pub receipt_digest: Hash,
    pub receipt_entries: usize,
    pub blocked_by: Vec<Vec<u32>>,
    pub replay_patch_digest: Hash,
    pub replay_patch_ops: usize,
}

#[derive(Debug, Clone)]
pub struct Obs {
    pub tick: u64,
    pub state_root: Hash,
    pub abs: Vec<String>,
    /// Same lines restricted to content reachable from the root (what
    /// `state_root` commits to, merkle-commit.md Decision 1).
    pub reach: Vec<String>,
    pub init_root: Hash,
    pub chain: Vec<ChainRec>,
    pub meta: Vec<MetaRec>,
    pub last_snapshot: Option<(ChainRec, Hash, Hash, Hash)>,
    pub last_mat: Vec<(Hash, Vec<u8>)>,
    pub tx_counter: Option<u64>,
}

fn aval(v: &AttachmentValue) -> String {
    match v {
        AttachmentValue::Atom(a) => format!("atom:{}:{}", hex(&a.type_id.0), hex(a.bytes.as_ref())),
        AttachmentValue::Descend(w) => format!("descend:{}", hex(&w.0)),
    }
}

/// Sorted canonical lines describing every instance, node, edge and attachment.
#[must_use]
pub fn abs_lines(ws: &warp_core::WarpState) -> Vec<String> {
    let mut out = Vec::new();
    for inst in warp_core::verif::instances(ws) {
        out.push(format!(
            "I {} root={} parent={:?}",
            hex(&inst.warp_id.0),
            hex(&inst.root_node.0),
            inst.parent
        ));
    }
    for wid in warp_core::verif::store_ids(ws) {
        let Some(store) = ws.store(&wid) else { continue };
        let w = hex(&wid.0[..6]);
        for (id, rec) in store.iter_nodes() {
            out.push(format!("N {w} {} ty={}", hex(&id.0), hex(&rec.ty.0)));
        }
        for (from, edges) in store.iter_edges() {
            for e in edges {
                out.push(format!(
                    "E {w} {} from={} to={} ty={} bucket={}",
                    hex(&e.id.0),
                    hex(&e.from.0),
                    hex(&e.to.0),
                    hex(&e.ty.0),
                    hex(&from.0[..6])
                ));
            }
        }
        for (id, v) in store.iter_node_attachments() {
            out.push(format!("A {w} {} {}", hex(&id.0), aval(v)));
        }
        for (id, v) in store.iter_edge_attachments() {
            out.push(format!("B {w} {} {}", hex(&id.0), aval(v)));
        }
    }
    out.sort();
    out
}

/// Canonical lines of the content reachable from the worldline root: BFS over
/// outbound edges and descended attachment portals (written from the
/// statement of Decision 1, independent of `snapshot.rs`).
#[must_use]
pub fn reachable_lines(state: &WorldlineState) -> Vec<String> {
    use std::collections::{BTreeSet, VecDeque};
    let ws = state.warp_state();
    let mut seen: BTreeSet<([u8; 32], [u8; 32])> = BTreeSet::new();
    let mut q = VecDeque::new();
    let root = *state.root();
    seen.insert((root.warp_id.0, root.local_id.0));
    q.push_back(root);
    let mut out = Vec::new();
    let descend = |v: Option<&AttachmentValue>, q: &mut VecDeque<warp_core::NodeKey>, seen: &mut BTreeSet<([u8; 32], [u8; 32])>| {
        if let Some(AttachmentValue::Descend(w2)) = v {
            if let Some(inst) = ws.instance(w2) {
                if seen.insert((w2.0, inst.root_node.0)) {
                    q.push_back(warp_core::NodeKey {
                        warp_id: *w2,
                        local_id: inst.root_node,
                    });
                }
            }
        }
    };
    while let Some(k) = q.pop_front() {
        let Some(store) = ws.store(&k.warp_id) else { continue };
        let w = hex(&k.warp_id.0[..6]);
        if let Some(rec) = store.node(&k.local_id) {
            out.push(format!("N {w} {} ty={}", hex(&k.local_id.0), hex(&rec.ty.0)));
        }
        if let Some(v) = store.node_attachment(&k.local_id) {
            out.push(format!("A {w} {} {}", hex(&k.local_id.0), aval(v)));
        }
        descend(store.node_attachment(&k.local_id), &mut q, &mut seen);
        for e in store.edges_from(&k.local_id) {
            out.push(format!(
                "E {w} {} from={} to={} ty={}",
                hex(&e.id.0),
                hex(&e.from.0),
                hex(&e.to.0),
                hex(&e.ty.0)
            ));
            if let Some(v) = store.edge_attachment(&e.id) {
                out.push(format!("B {w} {} {}", hex(&e.id.0), aval(v)));
            }
            descend(store.edge_attachment(&e.id), &mut q, &mut seen);
            if seen.insert((k.warp_id.0, e.to.0)) {
                q.push_back(warp_core::NodeKey {
                    warp_id: k.warp_id,
                    local_id: e.to,
                });
            }
        }
    }
    out.sort();
    out
}

/// Streaming scanner: captures the digits after the last `tx_counter: ` in a
/// `Debug` rendering without allocating the rendering. Used only for this one
/// scalar (no public getter exists); never for graph content.
struct TxScan {
    pat: &'static [u8],
    matched: usize,
    reading: bool,
    cur: u64,
    any: bool,
    last: Option<u64>,
}

impl std::fmt::Write for TxScan {
    fn write_str(&mut self, s: &str) -> std::fmt::Result {
        for &b in s.as_bytes() {
            if self.reading {
                if b.is_ascii_digit() {
                    self.cur = self.cur.wrapping_mul(10).wrapping_add(u64::from(b - b'0'));
                    self.any = true;
                    continue;
                }
                if self.any {
                    self.last = Some(self.cur);
                }
                self.reading = false;
                self.matched = 0;
            }
            if b == self.pat[self.matched] {
                self.matched += 1;
                if self.matched == self.pat.len() {
                    self.reading = true;
                    self.cur = 0;
                    self.any = false;
                    self.matched = 0;
                }
            } else {
                self.matched = usize::from(b == self.pat[0]);
            }
        }
        Ok(())
    }
}

#[must_use]
pub fn tx_counter_of(state: &WorldlineState) -> Option<u64> {
    let mut s = TxScan {
        pat: b"tx_counter: ",
        matched: 0,
        reading: false,
        cur: 0,
        any: false,
        last: None,
    };
    let _ = write!(s, "{state:?}");
    if s.reading && s.any {
        s.last = Some(s.cur);
    }
    s.last
}

fn chain_of(s: &warp_core::Snapshot) -> ChainRec {
    ChainRec {
        hash: s.hash,
        state_root: s.state_root,
        parents: s.parents.clone(),
        patch_digest: s.patch_digest,
        policy_id: s.policy_id,
        tx: s.tx.value(),
        root: format!("{}/{}", hex(&s.root.warp_id.0[..6]), hex(&s.root.local_id.0[..6])),
    }
}

/// Observe a state. `with_tx` additionally scans the Debug rendering for the
/// private `tx_counter` scalar (costly; callers sample it).
#[must_use]
pub fn observe(state: &WorldlineState, with_tx: bool) -> Obs {
    let mut chain = Vec::with_capacity(state.tick_history().len());
    let mut meta = Vec::with_capacity(state.tick_history().len());
    for (snap, receipt, patch) in state.tick_history() {
        chain.push(chain_of(snap));
        meta.push(MetaRec {
            plan: snap.plan_digest,
            decision: snap.decision_digest,
            rewrites: snap.rewrites_digest,
            receipt_tx: receipt.tx().value(),
            receipt_digest: receipt.digest(),
            receipt_entries: receipt.entries().len(),
            blocked_by: (0..receipt.entries().len())
                .map(|i| receipt.blocked_by(i).to_vec())
                .collect(),
            replay_patch_digest: patch.digest(),
            replay_patch_ops: patch.ops().len(),
        });
    }
    Obs {
        tick: state.current_tick().as_u64(),
        state_root: state.state_root(),
        abs: abs_lines(state.warp_state()),
        reach: reachable_lines(state),
        init_root: warp_core::verif::state_root(state.initial_state(), state.root()),
        chain,
        meta,
        last_snapshot: state.last_snapshot().map(|s| {
            (chain_of(s), s.plan_digest, s.decision_digest, s.rewrites_digest)
        }),
        last_mat: state
            .last_materialization()
            .iter()
            .map(|c| (c.channel.0, c.data.clone()))
            .collect(),
        tx_counter: if with_tx { tx_counter_of(state) } else { None },
    }
}

fn first_line_diff(a: &[String], b: &[String]) -> String {
    let sa: std::collections::BTreeSet<&String> = a.iter().collect();
    let sb: std::collections::BTreeSet<&String> = b.iter().collect();
    let only_a: Vec<&&String> = sa.difference(&sb).take(3).collect();
    let only_b: Vec<&&String> = sb.difference(&sa).take(3).collect();
    format!(
        "graph content differs: {} vs {} lines; only-left={:?} only-right={:?}",
        a.len(),
        b.len(),
        only_a,
        only_b
    )
}

impl Obs {
    /// Difference in what the C05/C07 statements protect: graph state, state
    /// root, tick position, commit-id chain (id, root, parents, patch digest,
    /// policy, tick). `None` = equal.
    #[must_use]
    pub fn core_diff(&self, other: &Self) -> Option<(&'static str, String)> {
        if self.tick != other.tick {
            return Some(("tick", format!("tick {} vs {}", self.tick, other.tick)));
        }
        if self.state_root != other.state_root {
            return Some((
                "state-root",
                format!("state_root {} vs {}", hex(&self.state_root), hex(&other.state_root)),
            ));
        }
        if self.abs != other.abs {
            if self.reach == other.reach {
                return Some(("unreachable-state", first_line_diff(&self.abs, &other.abs)));
            }
            return Some(("state", first_line_diff(&self.abs, &other.abs)));
        }
        if self.init_root != other.init_root {
            return Some(("initial-boundary", "initial_state root differs".into()));
        }
        if self.chain.len() != other.chain.len() {
            return Some((
                "chain-length",
                format!("tick_history len {} vs {}", self.chain.len(), other.chain.len()),
            ));
        }
        for (i, (a, b)) in self.chain.iter().zip(&other.chain).enumerate() {
            if a != b {
                let what = if a.hash != b.hash {
                    "commit-id"
                } else if a.parents != b.parents {
                    "parents"
                } else if a.tx != b.tx {
                    "tick-position"
                } else if a.state_root != b.state_root {
                    "chain-state-root"
                } else {
                    "chain-field"
                };
                return Some((what, format!("tick_history[{i}] {a:?} vs {b:?}")));
            }
        }
        match (&self.last_snapshot, &other.last_snapshot) {
            (None, None) => {}
            (Some(a), Some(b)) if a.0 == b.0 => {}
            (a, b) => {
                return Some((
                    "last-snapshot",
                    format!("last_snapshot {:?} vs {:?}", a.as_ref().map(|x| &x.0), b.as_ref().map(|x| &x.0)),
                ))
            }
        }
        if let (Some(a), Some(b)) = (self.tx_counter, other.tx_counter) {
            if a != b {
                return Some(("tx-counter", format!("tx_counter {a} vs {b}")));
            }
        }
        None
    }

    /// Difference in retained-but-not-committed replay metadata.
    #[must_use]
    pub fn meta_diff(&self, other: &Self) -> Option<(&'static str, String)> {
        for (i, (a, b)) in self.meta.iter().zip(&other.meta).enumerate() {
            if a != b {
                let what = if a.plan != b.plan {
                    "plan_digest"
                } else if a.decision != b.decision {
                    "decision_digest"
                } else if a.rewrites != b.rewrites {
                    "rewrites_digest"
                } else if a.receipt_digest != b.receipt_digest
                    || a.receipt_entries != b.receipt_entries
                    || a.receipt_tx != b.receipt_tx
                {
                    "receipt"
                } else if a.blocked_by != b.blocked_by {
                    "receipt.blocked_by"
                } else {
                    "replay_patch"
                };
                return Some((what, format!("tick_history[{i}] meta {a:?} vs {b:?}")));
            }
        }
        match (&self.last_snapshot, &other.last_snapshot) {
            (Some(a), Some(b)) if (a.1, a.2, a.3) != (b.1, b.2, b.3) => {
                return Some(("last_snapshot.digests", "last_snapshot diagnostic digests differ".into()));
            }
            _ => {}
        }
        if self.last_mat != other.last_mat {
            return Some((
                "last_materialization",
                format!("last_materialization {} vs {} channels", self.last_mat.len(), other.last_mat.len()),
            ));
        }
        None
    }

    /// Commit id of the tick that produced this state (None at tick 0).
    #[must_use]
    pub fn tip_commit(&self) -> Option<Hash> {
        self.chain.last().map(|c| c.hash)
    }
}

/// 64-bit fingerprint of everything `observe` extracts except `tx_counter`
/// (which callers compare separately when they sampled it). Binary, sorted by
/// id — same layout independence as `abs_lines`, but cheap enough for the
/// exhaustive seek matrix.
#[must_use]
pub fn fast_fp(state: &WorldlineState) -> u64 {
    let mut h = blake3::Hasher::new();
    let ws = state.warp_state();
    h.update(&state.current_tick().as_u64().to_le_bytes());
    h.update(&state.state_root());
    h.update(&warp_core::verif::state_root(state.initial_state(), state.root()));
    for inst in warp_core::verif::instances(ws) {
        h.update(b"I");
        h.update(&inst.warp_id.0);
        h.update(&inst.root_node.0);
        h.update(format!("{:?}", inst.parent).as_bytes());
    }
    for wid in warp_core::verif::store_ids(ws) {
        let Some(store) = ws.store(&wid) else { continue };
        h.update(b"S");
        h.update(&wid.0);
        for (id, rec) in store.iter_nodes() {
            h.update(b"N");
            h.update(&id.0);
            h.update(&rec.ty.0);
        }
        let mut edges: Vec<&warp_core::EdgeRecord> =
            store.iter_edges().flat_map(|(_, v)| v.iter()).collect();
        edges.sort_by(|a, b| a.id.0.cmp(&b.id.0));
        for e in edges {
            h.update(b"E");
            h.update(&e.id.0);
            h.update(&e.from.0);
            h.update(&e.to.0);
            h.update(&e.ty.0);
        }
        for (id, v) in store.iter_node_attachments() {
            h.update(b"A");
            h.update(&id.0);
            fp_aval(&mut h, v);
        }
        for (id, v) in store.iter_edge_attachments() {
            h.update(b"B");
            h.update(&id.0);
            fp_aval(&mut h, v);
        }
    }
    let fp_snap = |h: &mut blake3::Hasher, s: &warp_core::Snapshot| {
        h.update(&s.hash);
        h.update(&s.state_root);
        h.update(&(s.parents.len() as u64).to_le_bytes());
        for p in &s.parents {
            h.update(p);
        }
        h.update(&s.patch_digest);
        h.update(&s.policy_id.to_le_bytes());
        h.update(&s.tx.value().to_le_bytes());
        h.update(&s.root.warp_id.0);
        h.update(&s.root.local_id.0);
        h.update(&s.plan_digest);
        h.update(&s.decision_digest);
        h.update(&s.rewrites_digest);
    };
    h.update(&(state.tick_history().len() as u64).to_le_bytes());
    for (snap, receipt, patch) in state.tick_history() {
        fp_snap(&mut h, snap);
        h.update(&receipt.tx().value().to_le_bytes());
        h.update(&receipt.digest());
        h.update(&(receipt.entries().len() as u64).to_le_bytes());
        for i in 0..receipt.entries().len() {
            for b in receipt.blocked_by(i) {
                h.update(&b.to_le_bytes());
            }
            h.update(b"|");
        }
        h.update(&patch.digest());
        h.update(&(patch.ops().len() as u64).to_le_bytes());
    }
    match state.last_snapshot() {
        Some(s) => {
            h.update(b"L1");
            fp_snap(&mut h, s);
        }
        None => {
            h.update(b"L0");
        }
    }
    for c in state.last_materialization() {
        h.update(b"M");
        h.update(&c.channel.0);
        h.update(&(c.data.len() as u64).to_le_bytes());
        h.update(&c.data);
    }
    let d = h.finalize();
    u64::from_le_bytes(d.as_bytes()[..8].try_into().unwrap_or([0; 8]))
}

fn fp_aval(h: &mut blake3::Hasher, v: &AttachmentValue) {
    match v {
        AttachmentValue::Atom(a) => {
            h.update(b"a");
            h.update(&a.type_id.0);
            h.update(&(a.bytes.len() as u64).to_le_bytes());
            h.update(a.bytes.as_ref());
        }
        AttachmentValue::Descend(w) => {
            h.update(b"d");
            h.update(&w.0);
        }
    }
}
