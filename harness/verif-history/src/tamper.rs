//! `TamperStore` (an out-of-tree implementation of the PUBLIC
//! `warp_core::ProvenanceStore` trait that serves mutated material and
//! delegates everything else) and the mutation operators of C05.

use bytes::Bytes;
use warp_core::{
    make_head_id, AtomPayload, AtomWrite, AttachmentKey, AttachmentOwner, AttachmentPlane,
    AttachmentValue, CheckpointRef, GlobalTick, Hash, HistoryError, NodeKey, ProvenanceEntry,
    ProvenanceEventKind, ProvenanceRef, ProvenanceService, ProvenanceStore, ReplayCheckpoint,
    SlotId, TickReceipt, TickReceiptDisposition, TickReceiptEntry, TickReceiptRejection, TxId,
    WarpId, WarpOp, WorldlineId, WorldlineTick,
};

pub fn wt(t: u64) -> WorldlineTick {
    WorldlineTick::from_raw(t)
}

/// Serves mutated material for ONE worldline, delegates otherwise.
pub struct TamperStore<'a> {
    pub inner: &'a ProvenanceService,
    pub w: WorldlineId,
    /// Serve this entry at this tick.
    pub entry_at: Option<(u64, ProvenanceEntry)>,
    /// Serve this whole entry list instead of the stored one (swap, duplicate,
    /// truncate, transplant).
    pub entries: Option<Vec<ProvenanceEntry>>,
    /// Serve this checkpoint list instead of the stored one.
    pub ckpts: Option<Vec<ReplayCheckpoint>>,
    pub u0: Option<WarpId>,
    pub boundary: Option<Hash>,
    pub len_override: Option<u64>,
}

impl<'a> TamperStore<'a> {
    pub fn new(inner: &'a ProvenanceService, w: WorldlineId) -> Self {
        Self {
            inner,
            w,
            entry_at: None,
            entries: None,
            ckpts: None,
            u0: None,
            boundary: None,
            len_override: None,
        }
    }
}

impl ProvenanceStore for TamperStore<'_> {
    fn u0(&self, w: WorldlineId) -> Result<WarpId, HistoryError> {
        if w == self.w {
            if let Some(u) = self.u0 {
                return Ok(u);
            }
        }
        self.inner.u0(w)
    }
    fn initial_boundary_hash(&self, w: WorldlineId) -> Result<Hash, HistoryError> {
        if w == self.w {
            if let Some(b) = self.boundary {
                return Ok(b);
            }
        }
        ProvenanceStore::initial_boundary_hash(self.inner, w)
    }
    fn len(&self, w: WorldlineId) -> Result<u64, HistoryError> {
        if w == self.w {
            if let Some(l) = self.len_override {
                return Ok(l);
            }
            if let Some(v) = &self.entries {
                return Ok(v.len() as u64);
            }
        }
        self.inner.len(w)
    }
    fn entry(&self, w: WorldlineId, tick: WorldlineTick) -> Result<ProvenanceEntry, HistoryError> {
        if w == self.w {
            if let Some(v) = &self.entries {
                return v
                    .get(tick.as_u64() as usize)
                    .cloned()
                    .ok_or(HistoryError::HistoryUnavailable { tick });
            }
            if let Some((k, e)) = &self.entry_at {
                if *k == tick.as_u64() {
                    return Ok(e.clone());
                }
            }
        }
        self.inner.entry(w, tick)
    }
    fn parents(&self, w: WorldlineId, tick: WorldlineTick) -> Result<Vec<ProvenanceRef>, HistoryError> {
        Ok(self.entry(w, tick)?.parents)
    }
    fn append_local_commit(&mut self, entry: ProvenanceEntry) -> Result<(), HistoryError> {
        Err(HistoryError::WorldlineNotFound(entry.worldline_id))
    }
    fn append_recorded_event(&mut self, entry: ProvenanceEntry) -> Result<(), HistoryError> {
        Err(HistoryError::WorldlineNotFound(entry.worldline_id))
    }
    fn checkpoint_before(&self, w: WorldlineId, tick: WorldlineTick) -> Option<CheckpointRef> {
        self.checkpoint_state_before(w, tick).map(|c| c.checkpoint)
    }
    fn checkpoint_state_before(&self, w: WorldlineId, tick: WorldlineTick) -> Option<ReplayCheckpoint> {
        if w == self.w {
            if let Some(v) = &self.ckpts {
                return v
                    .iter()
                    .filter(|c| c.checkpoint.worldline_tick < tick)
                    .max_by_key(|c| c.checkpoint.worldline_tick)
                    .cloned();
            }
        }
        self.inner.checkpoint_state_before(w, tick)
    }
}

// ---------------------------------------------------------------------------
// Mutation operators
// ---------------------------------------------------------------------------

pub fn flip(h: &Hash, salt: usize) -> Hash {
    let mut o = *h;
    o[salt % 32] ^= 1 << (salt % 8);
    o
}

/// One mutated entry: (family, label, entry). `family` is the operator name
/// used in signatures and evidence; `label` adds indices.
pub type EntryMutant = (&'static str, String, ProvenanceEntry);

pub struct Donors<'a> {
    /// Another entry of the same worldline (different tick), if any.
    pub same: Option<&'a ProvenanceEntry>,
    /// An entry of a different worldline, if any.
    pub other: Option<&'a ProvenanceEntry>,
    pub other_worldline: WorldlineId,
}

fn with<F: FnOnce(&mut ProvenanceEntry)>(e: &ProvenanceEntry, f: F) -> ProvenanceEntry {
    let mut c = e.clone();
    f(&mut c);
    c
}

fn flip_node_key(k: &NodeKey, salt: usize, warp: bool) -> NodeKey {
    let mut k = *k;
    if warp {
        k.warp_id = WarpId(flip(&k.warp_id.0, salt));
    } else {
        k.local_id = warp_core::NodeId(flip(&k.local_id.0, salt));
    }
    k
}

fn alter_key(key: &AttachmentKey, salt: usize) -> Vec<(&'static str, AttachmentKey)> {
    let mut out = Vec::new();
    let mut k = *key;
    k.owner = match k.owner {
        AttachmentOwner::Node(n) => AttachmentOwner::Node(flip_node_key(&n, salt, false)),
        AttachmentOwner::Edge(mut e) => {
            e.local_id = warp_core::EdgeId(flip(&e.local_id.0, salt));
            AttachmentOwner::Edge(e)
        }
    };
    out.push(("owner", k));
    let mut k2 = *key;
    k2.plane = match k2.plane {
        AttachmentPlane::Alpha => AttachmentPlane::Beta,
        AttachmentPlane::Beta => AttachmentPlane::Alpha,
    };
    out.push(("plane", k2));
    out
}

/// "alter one field" variants of one op.
pub fn op_alterations(op: &WarpOp, salt: usize) -> Vec<(String, WarpOp)> {
    let mut out: Vec<(String, WarpOp)> = Vec::new();
    match op {
        WarpOp::UpsertNode { node, record } => {
            let mut r = record.clone();
            r.ty = warp_core::TypeId(flip(&r.ty.0, salt));
            out.push(("upsert_node.ty".into(), WarpOp::UpsertNode { node: *node, record: r }));
            out.push((
                "upsert_node.id".into(),
                WarpOp::UpsertNode {
                    node: flip_node_key(node, salt, false),
                    record: record.clone(),
                },
            ));
            out.push((
                "upsert_node.warp".into(),
                WarpOp::UpsertNode {
                    node: flip_node_key(node, salt, true),
                    record: record.clone(),
                },
            ));
        }
        WarpOp::DeleteNode { node } => {
            out.push(("delete_node.id".into(), WarpOp::DeleteNode { node: flip_node_key(node, salt, false) }));
        }
        WarpOp::UpsertEdge { warp_id, record } => {
            for f in ["id", "from", "to", "ty"] {
                let mut r = record.clone();
                match f {
                    "id" => r.id = warp_core::EdgeId(flip(&r.id.0, salt)),
                    "from" => r.from = warp_core::NodeId(flip(&r.from.0, salt)),
                    "to" => r.to = warp_core::NodeId(flip(&r.to.0, salt)),
                    _ => r.ty = warp_core::TypeId(flip(&r.ty.0, salt)),
                }
                out.push((format!("upsert_edge.{f}"), WarpOp::UpsertEdge { warp_id: *warp_id, record: r }));
            }
            out.push((
                "upsert_edge.warp".into(),
                WarpOp::UpsertEdge {
                    warp_id: WarpId(flip(&warp_id.0, salt)),
                    record: record.clone(),
                },
            ));
        }
        WarpOp::DeleteEdge { warp_id, from, edge_id } => {
            out.push((
                "delete_edge.from".into(),
                WarpOp::DeleteEdge {
                    warp_id: *warp_id,
                    from: warp_core::NodeId(flip(&from.0, salt)),
                    edge_id: *edge_id,
                },
            ));
            out.push((
                "delete_edge.id".into(),
                WarpOp::DeleteEdge {
                    warp_id: *warp_id,
                    from: *from,
                    edge_id: warp_core::EdgeId(flip(&edge_id.0, salt)),
                },
            ));
        }
        WarpOp::SetAttachment { key, value } => {
            for (n, k) in alter_key(key, salt) {
                out.push((format!("set_attachment.key.{n}"), WarpOp::SetAttachment { key: k, value: value.clone() }));
            }
            match value {
                None => out.push((
                    "set_attachment.none->some".into(),
                    WarpOp::SetAttachment {
                        key: *key,
                        value: Some(AttachmentValue::Atom(AtomPayload::new(
                            warp_core::make_type_id("vh/forged"),
                            Bytes::from_static(b"forged"),
                        ))),
                    },
                )),
                Some(AttachmentValue::Atom(a)) => {
                    out.push(("set_attachment.some->none".into(), WarpOp::SetAttachment { key: *key, value: None }));
                    out.push((
                        "set_attachment.type_id".into(),
                        WarpOp::SetAttachment {
                            key: *key,
                            value: Some(AttachmentValue::Atom(AtomPayload::new(
                                warp_core::TypeId(flip(&a.type_id.0, salt)),
                                a.bytes.clone(),
                            ))),
                        },
                    ));
                    let len = a.bytes.len();
                    let positions: Vec<usize> = if len <= 24 {
                        (0..len).collect()
                    } else {
                        (0..8).map(|i| (salt + i * 7919) % len).collect()
                    };
                    for p in positions {
                        let mut b = a.bytes.to_vec();
                        b[p] ^= 1 << (p % 8);
                        out.push((
                            format!("payload.byteflip@{p}"),
                            WarpOp::SetAttachment {
                                key: *key,
                                value: Some(AttachmentValue::Atom(AtomPayload::new(a.type_id, Bytes::from(b)))),
                            },
                        ));
                    }
                    let mut b = a.bytes.to_vec();
                    b.push(0);
                    out.push((
                        "payload.append".into(),
                        WarpOp::SetAttachment {
                            key: *key,
                            value: Some(AttachmentValue::Atom(AtomPayload::new(a.type_id, Bytes::from(b)))),
                        },
                    ));
                    if len > 0 {
                        out.push((
                            "payload.truncate".into(),
                            WarpOp::SetAttachment {
                                key: *key,
                                value: Some(AttachmentValue::Atom(AtomPayload::new(
                                    a.type_id,
                                    a.bytes.slice(..len - 1),
                                ))),
                            },
                        ));
                    }
                }
                Some(AttachmentValue::Descend(w)) => out.push((
                    "set_attachment.descend".into(),
                    WarpOp::SetAttachment {
                        key: *key,
                        value: Some(AttachmentValue::Descend(WarpId(flip(&w.0, salt)))),
                    },
                )),
            }
        }
        _ => {}
    }
    out
}

fn alter_slot(s: &SlotId, salt: usize) -> SlotId {
    match s {
        SlotId::Node(k) => SlotId::Node(flip_node_key(k, salt, false)),
        SlotId::Edge(k) => {
            let mut k = *k;
            k.local_id = warp_core::EdgeId(flip(&k.local_id.0, salt));
            SlotId::Edge(k)
        }
        SlotId::Attachment(k) => SlotId::Attachment(alter_key(k, salt)[0].1),
        SlotId::Port((w, p)) => SlotId::Port((*w, p ^ 1)),
    }
}

fn slots_of(c: &mut ProvenanceEntry, is_in: bool) -> &mut Vec<SlotId> {
    let p = c.patch.as_mut().expect("patch");
    if is_in {
        &mut p.in_slots
    } else {
        &mut p.out_slots
    }
}

fn rebuild_receipt(
    r: &TickReceipt,
    tx: u64,
    entries: Vec<TickReceiptEntry>,
    blocked: Vec<Vec<u32>>,
) -> Option<TickReceipt> {
    let _ = r;
    TickReceipt::try_from_retained_parts(TxId::from_raw(tx), entries, blocked).ok()
}

fn receipt_parts(r: &TickReceipt) -> (Vec<TickReceiptEntry>, Vec<Vec<u32>>) {
    let entries = r.entries().to_vec();
    let blocked = (0..entries.len()).map(|i| r.blocked_by(i).to_vec()).collect();
    (entries, blocked)
}

/// Every single-field alteration of one entry. `unconstructible` counts
/// receipt edits that `TickReceipt::try_from_retained_parts` itself refuses to
/// build (already a typed error at construction).
pub fn entry_mutants(e: &ProvenanceEntry, d: &Donors<'_>, unconstructible: &mut u64) -> Vec<EntryMutant> {
    let mut out: Vec<EntryMutant> = Vec::new();
    let k = e.worldline_tick.as_u64() as usize;
    let salt = k * 13 + 5;

    // --- coordinates / attribution
    out.push(("worldline_id.swap", "worldline_id".into(), with(e, |c| c.worldline_id = d.other_worldline)));
    out.push(("worldline_tick+1", "worldline_tick+1".into(), with(e, |c| c.worldline_tick = wt(k as u64 + 1))));
    if k > 0 {
        out.push(("worldline_tick-1", "worldline_tick-1".into(), with(e, |c| c.worldline_tick = wt(k as u64 - 1))));
    }
    out.push((
        "commit_global_tick",
        "commit_global_tick+1".into(),
        with(e, |c| c.commit_global_tick = GlobalTick::from_raw(c.commit_global_tick.as_u64() + 1)),
    ));
    out.push(("head_key.drop", "head_key=None".into(), with(e, |c| c.head_key = None)));
    out.push((
        "head_key.head_id",
        "head_key.head_id".into(),
        with(e, |c| {
            if let Some(h) = c.head_key.as_mut() {
                h.head_id = make_head_id("forged-head");
            }
        }),
    ));
    out.push((
        "head_key.worldline",
        "head_key.worldline_id".into(),
        with(e, |c| {
            if let Some(h) = c.head_key.as_mut() {
                h.worldline_id = d.other_worldline;
            }
        }),
    ));
    out.push((
        "event_kind",
        "event_kind=ConflictArtifact".into(),
        with(e, |c| c.event_kind = ProvenanceEventKind::ConflictArtifact { artifact_id: [7; 32] }),
    ));
    out.push((
        "event_kind",
        "event_kind=MergeImport".into(),
        with(e, |c| {
            c.event_kind = ProvenanceEventKind::MergeImport {
                source_worldline: d.other_worldline,
                source_worldline_tick: wt(0),
                op_id: [9; 32],
            }
        }),
    ));

    // --- parents
    let forged_parent = d.same.map_or(
        ProvenanceRef {
            worldline_id: e.worldline_id,
            worldline_tick: wt(k as u64 + 7),
            commit_hash: [0x5a; 32],
        },
        ProvenanceEntry::as_ref,
    );
    out.push((
        "parents.add",
        "parents.add".into(),
        with(e, |c| {
            c.parents.push(forged_parent);
            c.parents.sort_by(|a, b| a.commit_hash.cmp(&b.commit_hash));
        }),
    ));
    out.push((
        "parents.add",
        "parents.add(random)".into(),
        with(e, |c| {
            c.parents.push(ProvenanceRef {
                worldline_id: e.worldline_id,
                worldline_tick: wt(0),
                commit_hash: [0xa5; 32],
            })
        }),
    ));
    for i in 0..e.parents.len() {
        out.push(("parents.drop", format!("parents.drop[{i}]"), with(e, |c| {
            c.parents.remove(i);
        })));
        out.push((
            "parents.retarget.hash.flip",
            format!("parents[{i}].commit_hash.flip"),
            with(e, |c| c.parents[i].commit_hash = flip(&c.parents[i].commit_hash, salt)),
        ));
        if let Some(s) = d.same {
            out.push((
                "parents.retarget.hash.replace",
                format!("parents[{i}].commit_hash=other-entry"),
                with(e, |c| c.parents[i].commit_hash = s.expected.commit_hash),
            ));
            out.push((
                "parents.retarget.ref",
                format!("parents[{i}]=ref(other-entry)"),
                with(e, |c| c.parents[i] = s.as_ref()),
            ));
        }
        out.push((
            "parents.retarget.tick",
            format!("parents[{i}].worldline_tick+1"),
            with(e, |c| c.parents[i].worldline_tick = wt(c.parents[i].worldline_tick.as_u64() + 1)),
        ));
        out.push((
            "parents.retarget.worldline",
            format!("parents[{i}].worldline_id"),
            with(e, |c| c.parents[i].worldline_id = d.other_worldline),
        ));
    }
    if e.parents.len() >= 2 {
        out.push(("parents.reorder", "parents.reverse".into(), with(e, |c| c.parents.reverse())));
    } else if !e.parents.is_empty() {
        // reorder needs two parents: add a second one in NON-canonical position
        out.push((
            "parents.reorder",
            "parents.add+noncanonical-order".into(),
            with(e, |c| {
                c.parents.push(forged_parent);
                c.parents.sort_by(|a, b| b.commit_hash.cmp(&a.commit_hash));
            }),
        ));
    }

    // --- expected hash triplet
    fn hfield(c: &mut ProvenanceEntry, which: usize) -> &mut Hash {
        match which {
            0 => &mut c.expected.state_root,
            1 => &mut c.expected.patch_digest,
            _ => &mut c.expected.commit_hash,
        }
    }
    for (which, fam_flip, fam_rep) in [
        (0usize, "hash.state_root.flip", "hash.state_root.replace"),
        (1, "hash.patch_digest.flip", "hash.patch_digest.replace"),
        (2, "hash.commit_hash.flip", "hash.commit_hash.replace"),
    ] {
        out.push((fam_flip, format!("expected.{fam_flip}"), with(e, |c| {
            let h = hfield(c, which);
            *h = flip(h, salt);
        })));
        if let Some(s) = d.same {
            let mut sc = s.clone();
            let v = *hfield(&mut sc, which);
            out.push((fam_rep, format!("expected.{fam_rep}"), with(e, |c| *hfield(c, which) = v)));
        }
    }

    // --- patch
    out.push(("patch.drop", "patch=None".into(), with(e, |c| c.patch = None)));
    if let Some(p) = &e.patch {
        out.push((
            "header.commit_global_tick",
            "patch.header.commit_global_tick+1".into(),
            with(e, |c| {
                let h = &mut c.patch.as_mut().expect("patch").header;
                h.commit_global_tick = GlobalTick::from_raw(h.commit_global_tick.as_u64() + 1);
            }),
        ));
        out.push((
            "header.policy_id",
            "patch.header.policy_id+1".into(),
            with(e, |c| c.patch.as_mut().expect("patch").header.policy_id = p.header.policy_id.wrapping_add(1)),
        ));
        for (fam_f, fam_r, which) in [
            ("header.rule_pack_id.flip", "header.rule_pack_id.replace", 0),
            ("header.plan_digest.flip", "header.plan_digest.replace", 1),
            ("header.decision_digest.flip", "header.decision_digest.replace", 2),
            ("header.rewrites_digest.flip", "header.rewrites_digest.replace", 3),
            ("patch.patch_digest.flip", "patch.patch_digest.replace", 4),
        ] {
            fn field(c: &mut ProvenanceEntry, which: i32) -> &mut Hash {
                let p = c.patch.as_mut().expect("patch");
                match which {
                    0 => &mut p.header.rule_pack_id,
                    1 => &mut p.header.plan_digest,
                    2 => &mut p.header.decision_digest,
                    3 => &mut p.header.rewrites_digest,
                    _ => &mut p.patch_digest,
                }
            }
            out.push((fam_f, format!("{fam_f}"), with(e, |c| {
                let h = field(c, which);
                *h = flip(h, salt);
            })));
            if let Some(s) = d.same {
                if s.patch.is_some() {
                    let mut sc = s.clone();
                    let v = *field(&mut sc, which);
                    out.push((fam_r, format!("{fam_r}"), with(e, |c| *field(c, which) = v)));
                }
            }
        }
        out.push((
            "patch.warp_id",
            "patch.warp_id.flip".into(),
            with(e, |c| {
                let p = c.patch.as_mut().expect("patch");
                p.warp_id = WarpId(flip(&p.warp_id.0, salt));
            }),
        ));
        // ops
        for i in 0..p.ops.len() {
            out.push(("op.delete", format!("op.delete[{i}]"), with(e, |c| {
                c.patch.as_mut().expect("patch").ops.remove(i);
            })));
            out.push(("op.duplicate", format!("op.duplicate[{i}]"), with(e, |c| {
                let ops = &mut c.patch.as_mut().expect("patch").ops;
                let o = ops[i].clone();
                ops.insert(i, o);
            })));
            if i + 1 < p.ops.len() {
                out.push(("op.swap", format!("op.swap[{i},{}]", i + 1), with(e, |c| {
                    c.patch.as_mut().expect("patch").ops.swap(i, i + 1);
                })));
            }
            for (n, alt) in op_alterations(&p.ops[i], salt + i) {
                let fam: &'static str = if n.starts_with("payload.") { "payload.byteflip" } else { "op.alter" };
                // shadow copy BEFORE the original (same sort key ⇒ canonical
                // dedupe keeps the original, apply order makes original win)
                if n.starts_with("set_attachment.type_id") || n.starts_with("upsert_node.ty") {
                    let alt2 = alt.clone();
                    out.push(("op.shadow-before", format!("op.shadow-before[{i}].{n}"), with(e, |c| {
                        c.patch.as_mut().expect("patch").ops.insert(i, alt2);
                    })));
                    let alt3 = alt.clone();
                    out.push(("op.shadow-after", format!("op.shadow-after[{i}].{n}"), with(e, |c| {
                        c.patch.as_mut().expect("patch").ops.insert(i + 1, alt3);
                    })));
                }
                out.push((fam, format!("op[{i}].{n}"), with(e, |c| {
                    c.patch.as_mut().expect("patch").ops[i] = alt;
                })));
            }
        }
        if let Some(s) = d.same.and_then(|s| s.patch.as_ref()).and_then(|sp| sp.ops.first()) {
            out.push(("op.insert-foreign", "op.insert(other-entry op)".into(), with(e, |c| {
                c.patch.as_mut().expect("patch").ops.push(s.clone());
            })));
        }
        // slots
        for (fam_del, fam_dup, fam_alt, is_in) in [
            ("slot.in.delete", "slot.in.duplicate", "slot.in.alter", true),
            ("slot.out.delete", "slot.out.duplicate", "slot.out.alter", false),
        ] {
            let n = if is_in { p.in_slots.len() } else { p.out_slots.len() };
            for i in 0..n {
                out.push((fam_del, format!("{fam_del}[{i}]"), with(e, |c| {
                    slots_of(c, is_in).remove(i);
                })));
                out.push((fam_dup, format!("{fam_dup}[{i}]"), with(e, |c| {
                    let v = slots_of(c, is_in);
                    let s = v[i];
                    v.insert(i, s);
                })));
                out.push((fam_alt, format!("{fam_alt}[{i}]"), with(e, |c| {
                    let v = slots_of(c, is_in);
                    v[i] = alter_slot(&v[i], salt + i);
                })));
            }
            let add_fam: &'static str = if is_in { "slot.in.add" } else { "slot.out.add" };
            out.push((add_fam, add_fam.to_string(), with(e, |c| {
                let p = c.patch.as_mut().expect("patch");
                let s = SlotId::Node(NodeKey { warp_id: p.warp_id, local_id: warp_core::make_node_id("vh/forged-slot") });
                if is_in { p.in_slots.push(s) } else { p.out_slots.push(s) }
            })));
        }
    }

    // --- receipt
    out.push(("receipt.drop", "tick_receipt=None".into(), with(e, |c| c.tick_receipt = None)));
    if let Some(r) = &e.tick_receipt {
        let (entries, blocked) = receipt_parts(r);
        let tx = r.tx().value();
        let mut push = |fam: &'static str, label: String, rr: Option<TickReceipt>, unc: &mut u64| match rr {
            Some(rr) => out.push((fam, label, with(e, |c| c.tick_receipt = Some(rr)))),
            None => *unc += 1,
        };
        push("receipt.tx+1", "receipt.tx+1".into(), rebuild_receipt(r, tx + 1, entries.clone(), blocked.clone()), unconstructible);
        push("receipt.tx-1", "receipt.tx-1".into(), rebuild_receipt(r, tx.saturating_sub(1), entries.clone(), blocked.clone()), unconstructible);
        for i in 0..entries.len() {
            let mut a = entries.clone();
            a[i].rule_id = flip(&a[i].rule_id, salt + i);
            push("receipt.entry.rule_id", format!("receipt[{i}].rule_id"), rebuild_receipt(r, tx, a, blocked.clone()), unconstructible);
            let mut a = entries.clone();
            a[i].scope_hash = flip(&a[i].scope_hash, salt + i);
            push("receipt.entry.scope_hash", format!("receipt[{i}].scope_hash"), rebuild_receipt(r, tx, a, blocked.clone()), unconstructible);
            let mut a = entries.clone();
            a[i].scope = flip_node_key(&a[i].scope, salt + i, false);
            push("receipt.entry.scope", format!("receipt[{i}].scope"), rebuild_receipt(r, tx, a, blocked.clone()), unconstructible);
            // disposition flip (blocker lists adjusted minimally so the receipt is constructible)
            let mut a = entries.clone();
            let mut b = blocked.clone();
            match a[i].disposition {
                TickReceiptDisposition::Applied => {
                    a[i].disposition = TickReceiptDisposition::Rejected(TickReceiptRejection::ExecutableOperationObstruction);
                    // entries blocked by i can no longer name it
                    for bl in &mut b {
                        bl.retain(|x| *x as usize != i);
                    }
                    for (j, bl) in b.iter().enumerate() {
                        if bl.is_empty() && matches!(a[j].disposition, TickReceiptDisposition::Rejected(TickReceiptRejection::FootprintConflict)) {
                            a[j].disposition = TickReceiptDisposition::Rejected(TickReceiptRejection::ExecutableOperationObstruction);
                        }
                    }
                }
                TickReceiptDisposition::Rejected(_) => {
                    a[i].disposition = TickReceiptDisposition::Applied;
                    b[i].clear();
                }
            }
            push("receipt.entry.disposition", format!("receipt[{i}].disposition"), rebuild_receipt(r, tx, a, b), unconstructible);
            // blocked_by edit: retarget to another earlier applied entry / drop one blocker
            if !blocked[i].is_empty() {
                let cur = blocked[i].clone();
                let alt: Vec<u32> = (0..i as u32)
                    .filter(|j| matches!(entries[*j as usize].disposition, TickReceiptDisposition::Applied) && !cur.contains(j))
                    .take(1)
                    .collect();
                if !alt.is_empty() {
                    let mut b = blocked.clone();
                    b[i] = alt;
                    push("receipt.blocked_by.retarget", format!("receipt[{i}].blocked_by.retarget"), rebuild_receipt(r, tx, entries.clone(), b), unconstructible);
                }
                if cur.len() >= 2 {
                    let mut b = blocked.clone();
                    b[i].pop();
                    push("receipt.blocked_by.drop", format!("receipt[{i}].blocked_by.drop-one"), rebuild_receipt(r, tx, entries.clone(), b), unconstructible);
                }
                let extra: Vec<u32> = (0..i as u32)
                    .filter(|j| matches!(entries[*j as usize].disposition, TickReceiptDisposition::Applied) && !cur.contains(j))
                    .take(1)
                    .collect();
                if let Some(x) = extra.first() {
                    let mut b = blocked.clone();
                    b[i].push(*x);
                    b[i].sort_unstable();
                    push("receipt.blocked_by.add", format!("receipt[{i}].blocked_by.add"), rebuild_receipt(r, tx, entries.clone(), b), unconstructible);
                }
            }
            let mut a = entries.clone();
            let mut b = blocked.clone();
            a.remove(i);
            b.remove(i);
            for bl in &mut b {
                bl.retain(|x| *x as usize != i);
                for x in bl.iter_mut() {
                    if *x as usize > i {
                        *x -= 1;
                    }
                }
            }
            for (j, bl) in b.iter().enumerate() {
                if bl.is_empty() && matches!(a[j].disposition, TickReceiptDisposition::Rejected(TickReceiptRejection::FootprintConflict)) {
                    a[j].disposition = TickReceiptDisposition::Rejected(TickReceiptRejection::ExecutableOperationObstruction);
                }
            }
            push("receipt.entry.delete", format!("receipt[{i}].delete"), rebuild_receipt(r, tx, a, b), unconstructible);
            let mut a = entries.clone();
            let mut b = blocked.clone();
            a.push(entries[i]);
            b.push(if matches!(entries[i].disposition, TickReceiptDisposition::Applied) { Vec::new() } else { blocked[i].clone() });
            push("receipt.entry.duplicate", format!("receipt[{i}].duplicate"), rebuild_receipt(r, tx, a, b), unconstructible);
        }
    }

    // --- outputs / atom writes (readings, Decision 5)
    out.push((
        "outputs.add",
        "outputs.push(frame)".into(),
        with(e, |c| c.outputs.push((warp_core::materialization::make_channel_id("vh/forged"), b"forged".to_vec()))),
    ));
    if !e.outputs.is_empty() {
        out.push(("outputs.alter", "outputs[0].data".into(), with(e, |c| c.outputs[0].1.push(1))));
    }
    out.push((
        "atom_writes.add",
        "atom_writes.push".into(),
        with(e, |c| {
            c.atom_writes.push(AtomWrite::new(
                NodeKey {
                    warp_id: WarpId([1; 32]),
                    local_id: warp_core::make_node_id("vh/forged-atom"),
                },
                [3; 32],
                k as u64,
                None,
                vec![1, 2, 3],
            ))
        }),
    ));
    let _ = d.other;
    out
}

/// Operator families whose alteration the specification leaves outside the
/// commit id (docs/spec/merkle-commit.md Decisions 3 and 5, receipt.rs docs):
/// accepted alterations with unchanged state AND unchanged commit chain are
/// tallied as `unbound_metadata_fields`, not violations. Everything else that
/// is accepted with an observable difference is a violation.
pub const UNBOUND_OK: &[(&str, &str)] = &[
    ("header.plan_digest.flip", "plan_digest: diagnostic, retained but not committed by commit id v2 (Decision 3)"),
    ("header.plan_digest.replace", "plan_digest: diagnostic, retained but not committed by commit id v2 (Decision 3)"),
    ("header.rewrites_digest.flip", "rewrites_digest: diagnostic, retained but not committed by commit id v2 (Decision 3)"),
    ("header.rewrites_digest.replace", "rewrites_digest: diagnostic, retained but not committed by commit id v2 (Decision 3)"),
    ("header.decision_digest.flip", "decision_digest: diagnostic (Decision 3); only cross-checked against a retained receipt when one is present"),
    ("header.decision_digest.replace", "decision_digest: diagnostic (Decision 3); only cross-checked against a retained receipt when one is present"),
    ("receipt.drop", "tick receipt: its digest is the decision digest, a diagnostic outside commit id v2 (Decision 3); an entry without receipt replays with an empty receipt"),
    ("receipt.blocked_by.retarget", "receipt blocker attribution: explicitly excluded from the receipt digest (receipt.rs TickReceipt::digest docs)"),
    ("receipt.blocked_by.drop", "receipt blocker attribution: explicitly excluded from the receipt digest (receipt.rs TickReceipt::digest docs)"),
    ("receipt.blocked_by.add", "receipt blocker attribution: explicitly excluded from the receipt digest (receipt.rs TickReceipt::digest docs)"),
    ("outputs.add", "recorded materialization outputs are readings outside the commit (Decision 5)"),
    ("outputs.alter", "recorded materialization outputs are readings outside the commit (Decision 5)"),
    ("ckpt.state.meta-altered-history", "checkpoint whose embedded tick history carries altered diagnostic digests (Decision 3) — only via a custom store; add_checkpoint rejects it"),
];

pub fn unbound_reason(family: &str) -> Option<&'static str> {
    UNBOUND_OK.iter().find(|(f, _)| *f == family).map(|(_, r)| *r)
}
