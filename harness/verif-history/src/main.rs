//! verif-history: C05 (history is hash-chained and tamper-evident) and
//! C07 (replay is path-independent).

mod abs;
mod c05;
mod c07;
mod guard;
mod tamper;
mod workload;

fn main() {
    let args = verif_core::Args::parse();
    let code = match args.prop.as_str() {
        "SMOKE" => smoke(&args),
        "C05" => c05::run(&args),
        "C07" => c07::run(&args),
        other => {
            println!("HARNESS-ERROR unknown property {other}");
            2
        }
    };
    std::process::exit(code);
}

fn smoke(args: &verif_core::Args) -> i32 {
    use warp_core::ProvenanceStore;
    for case in 0..6u64 {
        let mut rng = verif_core::Rng::for_case(args.seed, "SMOKE", case);
        let shape = workload::Shape {
            worldlines: 1 + (case as usize % 3),
            max_heads: 4,
            target_ticks: 3 + case,
            twin_initial: case % 2 == 1,
        };
        let mut h = workload::Hist::new(&mut rng, shape);
        if let Err(e) = h.run_to(&mut rng, shape.target_ticks) {
            println!("ERR {e}");
            return 2;
        }
        println!("{}", verif_core::Value::to_string(&h.describe()));
        for w in &h.wls {
            let n = h.prov.len(w.id).unwrap();
            let mut roots = Vec::new();
            for t in 0..n {
                let e = h.prov.entry(w.id, warp_core::WorldlineTick::from_raw(t)).unwrap();
                let p = e.patch.as_ref().unwrap();
                roots.push(format!(
                    "{}:{}ops/{}r",
                    verif_core::hex4(&e.expected.state_root),
                    p.ops.len(),
                    e.tick_receipt.as_ref().map_or(0, |r| r.entries().len())
                ));
            }
            println!("  wl {} ticks {} {:?}", verif_core::hex4(w.id.as_bytes()), n, roots);
            let live = &h.live[&w.id];
            println!(
                "  live len {} with obs {} tx_counter {:?}",
                live.len(),
                live.iter().filter(|l| l.obs.is_some()).count(),
                live.last().and_then(|l| l.obs.as_ref()).and_then(|o| o.tx_counter)
            );
        }
    }
    0
}
