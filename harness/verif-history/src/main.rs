//! verif-history: C05 (history is hash-chained and tamper-evident) and
//! C07 (replay is path-independent).

mod abs;
mod c05;
mod c07;
mod guard;
mod tamper;
mod workload;

fn main() {
    let args = verif_core::Args::parse();
    let code = match args.prop.as_str() {
        "C05" => c05::run(&args),
        "C07" => c07::run(&args),
        other => {
            println!("HARNESS-ERROR unknown property {other}");
            2
        }
    };
    std::process::exit(code);
}
