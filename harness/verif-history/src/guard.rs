//! Calls into the system under test are wrapped so that a panic inside the
//! repository's verification code is an *observation* the monitor classifies
//! (it is neither a typed error nor a result), not a harness crash.

pub fn sut<T>(f: impl FnOnce() -> T) -> Result<T, String> {
    match std::panic::catch_unwind(std::panic::AssertUnwindSafe(f)) {
        Ok(v) => Ok(v),
        Err(p) => Err(p
            .downcast_ref::<String>()
            .cloned()
            .or_else(|| p.downcast_ref::<&str>().map(|s| (*s).to_owned()))
            .unwrap_or_else(|| "non-string panic".to_owned())
            .replace('\n', " ")),
    }
}

/// Keep stderr quiet for caught panics (they are reported through the Report).
pub fn quiet_panics() {
    std::panic::set_hook(Box::new(|_| {}));
}
