//! C05 — history is hash-chained and tamper-evident: systematic tamper
//! injection over histories produced by the real runtime.
//!
//! Oracle: verification of UNTAMPERED material succeeds; for tampered
//! material the outcome is a typed error OR exactly the original result
//! (abstract graph state, state_root, per-tick commit-id chain incl. parents,
//! tick position). "Accepted with a different state / root / commit id /
//! parent linkage / tick position" is the violation. Alterations of fields the
//! specification keeps outside commit id v2 that are accepted with unchanged
//! state and chain are tallied as `unbound_metadata_fields`.

use std::collections::BTreeMap;

use verif_core::{hex4, json, Args, Budget, Report, Rng, Value};
use warp_core::{
    derive_witnessed_suffix_shell_digest, evaluate_witnessed_suffix_admission, export_suffix,
    import_suffix, BoundaryTransitionRecord, CausalSuffixBundle, CheckpointRef, CursorId,
    CursorRole, ExportSuffixRequest, Hash, ImportSuffixRequest, PlaybackCursor, PlaybackMode,
    ProvenanceEntry, ProvenanceEventKind, ProvenanceRef, ProvenanceService, ProvenanceStore,
    ReplayCheckpoint, WarpId, WitnessedSuffixAdmissionContext, WitnessedSuffixAdmissionOutcome,
    WitnessedSuffixAdmissionRequest, WitnessedSuffixExportContext,
    WitnessedSuffixLocalAdmissionPosture, WitnessedSuffixShell, WorldlineId, WorldlineState,
    WorldlineTickHeaderV1, WorldlineTickPatchV1,
};

use crate::abs::observe;
use crate::c07::{ground_replay, strip, Ground};
use crate::tamper::{entry_mutants, flip, unbound_reason, wt, Donors, TamperStore, UNBOUND_OK};
use crate::workload::{wl_id, Hist, Shape};

#[derive(Debug, Clone)]
enum Outcome {
    Typed(String),
    Identical,
    /// state + chain identical, retained diagnostic metadata differs
    Unbound(String),
    Different(String, String),
    /// verification panicked instead of returning (message)
    Panicked(String),
    /// state_root, reachable content, chain and tick identical; only content
    /// NOT reachable from the root differs
    UnreachableOnly(String),
}

/// Run one probe; a panic inside the verification code is an outcome to
/// classify (it is neither a typed error nor the original result).
fn guarded<F: FnOnce() -> Outcome>(f: F) -> Outcome {
    match std::panic::catch_unwind(std::panic::AssertUnwindSafe(f)) {
        Ok(o) => o,
        Err(p) => {
            let msg = p
                .downcast_ref::<String>()
                .cloned()
                .or_else(|| p.downcast_ref::<&str>().map(|s| (*s).to_owned()))
                .unwrap_or_else(|| "non-string panic".to_owned());
            Outcome::Panicked(msg.replace('\n', " "))
        }
    }
}

fn err_name(dbg: &str) -> String {
    let ident = |s: &str| -> String { s.chars().take_while(|c| c.is_ascii_alphanumeric() || *c == '_').collect() };
    let outer = ident(dbg);
    let rest = &dbg[outer.len()..];
    if let Some(inner) = rest.strip_prefix('(') {
        let i = ident(inner);
        if !i.is_empty() && i.chars().next().is_some_and(|c| c.is_ascii_uppercase()) {
            return format!("{outer}.{i}");
        }
    }
    outer
}

type Alt<'a> = Option<(u64, &'a Ground)>;

// Coordinates below this are not probed (used for fully self-consistent forged
// entries: replaying only up to the forged entry makes it the chain tip, for
// which no anchor exists; the next entry's parent link is the anchor).
thread_local! {
    static MIN_TARGET: std::cell::Cell<u64> = const { std::cell::Cell::new(0) };
}

/// `alt`: at this one coordinate the expected result is another (authentic)
/// history's — used when the altered material is itself a correctly linked
/// authentic chain from the same registered boundary (sibling tip).
fn compare_alt(state: &WorldlineState, t: u64, orig: &Ground, alt: Alt<'_>) -> Outcome {
    match alt {
        Some((at, g)) if at == t => compare(state, t, g),
        _ => compare(state, t, orig),
    }
}

fn compare(state: &WorldlineState, t: u64, orig: &Ground) -> Outcome {
    let Some(o) = orig.obs.get(t as usize) else {
        return Outcome::Different(
            "tick".into(),
            format!("accepted a state at coordinate {t} beyond the original history length {}", orig.obs.len() - 1),
        );
    };
    if crate::abs::fast_fp(state) == orig.fp[t as usize] {
        return Outcome::Identical;
    }
    let got = observe(state, true);
    if let Some((what, d)) = o.core_diff(&got) {
        if what == "unreachable-state" {
            // everything else (root, chain, tick) must still be equal
            let mut got2 = got.clone();
            got2.abs = o.abs.clone();
            if o.core_diff(&got2).is_none() {
                return Outcome::UnreachableOnly(d);
            }
        }
        return Outcome::Different(what.to_owned(), d);
    }
    if let Some((what, _)) = o.meta_diff(&got) {
        return Outcome::Unbound(what.to_owned());
    }
    Outcome::Different("fingerprint".into(), "fingerprint differs without a field-level diff".into())
}

fn worst(a: Outcome, b: Outcome) -> Outcome {
    fn rank(o: &Outcome) -> u8 {
        match o {
            Outcome::Panicked(_) => 4,
            Outcome::Different(..) => 3,
            Outcome::Typed(_) => 2,
            Outcome::Unbound(_) | Outcome::UnreachableOnly(_) => 1,
            Outcome::Identical => 0,
        }
    }
    if rank(&b) > rank(&a) {
        b
    } else {
        a
    }
}

/// Everything a shard needs about one generated history.
struct World {
    h: Hist,
    /// no checkpoints
    nock: ProvenanceService,
    /// with the history's checkpoints
    ck: ProvenanceService,
    ck_ticks: BTreeMap<WorldlineId, Vec<u64>>,
    orig: BTreeMap<WorldlineId, Ground>,
}

fn build_world(seed: u64, case: u64, quick: bool) -> Result<World, String> {
    let mut rng = Rng::for_case(seed, "C05/history", case);
    let ticks = if quick { rng.range(5, 8) } else { rng.range(5, 12) };
    let shape = Shape {
        worldlines: rng.range_usize(1, 3),
        max_heads: 4,
        target_ticks: ticks,
        twin_initial: rng.chance(1, 2),
    };
    let mut h = Hist::new(&mut rng, shape);
    h.run_to(&mut rng, ticks)?;
    // fork worldline 0 somewhere and continue both sides (sibling histories)
    if rng.chance(3, 4) {
        let src = h.wls[0].id;
        let n = h.len(src);
        let f = rng.below(n);
        let child = wl_id(90);
        h.prov
            .fork(src, wt(f), child)
            .map_err(|e| format!("fork: {e:?}"))?;
        h.adopt_fork(src, child, f, rng.range_usize(1, 2))?;
        let extra = rng.range(1, 3);
        let mut caps: BTreeMap<WorldlineId, u64> = h.wls.iter().map(|w| (w.id, h.len(w.id))).collect();
        caps.insert(src, n + extra);
        caps.insert(child, f + 1 + extra);
        let mut guard = 0;
        while (h.len(src) < n + extra || h.len(child) < f + 1 + extra) && guard < 12 {
            h.pass(&mut rng, &caps)?;
            guard += 1;
        }
    }
    let all: Vec<(WorldlineId, &WorldlineState)> = h.wls.iter().map(|w| (w.id, &w.base)).collect();
    let nock = strip(&h.prov, &all)?;
    let mut orig = BTreeMap::new();
    for w in &h.wls {
        orig.insert(w.id, ground_replay(&nock, w.id, &w.base)?);
    }
    let mut ck = nock.clone();
    let mut ck_ticks = BTreeMap::new();
    for w in &h.wls {
        let n = h.len(w.id);
        let mut v = Vec::new();
        for t in 0..=n {
            if rng.chance(1, 3) {
                let live = h.live[&w.id].get(t as usize).and_then(|l| l.state.as_ref());
                match (live, rng.chance(1, 2)) {
                    (Some(st), true) => {
                        ck.checkpoint(w.id, st).map_err(|e| format!("authentic live checkpoint rejected: {e:?}"))?;
                    }
                    _ => {
                        ck.add_checkpoint(w.id, ReplayCheckpoint::from_state(&orig[&w.id].states[t as usize]))
                            .map_err(|e| format!("authentic checkpoint rejected: {e:?}"))?;
                    }
                }
                v.push(t);
            }
        }
        ck_ticks.insert(w.id, v);
    }
    Ok(World {
        h,
        nock,
        ck,
        ck_ticks,
        orig,
    })
}

impl World {
    fn base(&self, w: WorldlineId) -> &WorldlineState {
        &self.h.wls.iter().find(|x| x.id == w).expect("worldline").base
    }
    fn entries(&self, w: WorldlineId) -> Vec<ProvenanceEntry> {
        (0..self.h.len(w)).map(|t| self.nock.entry(w, wt(t)).expect("entry")).collect()
    }

    /// Surface 1: rebuild a store from (possibly tampered) entries through the
    /// public append API, then `ProvenanceService::replay_worldline_state_at`.
    fn rebuild(&self, w: WorldlineId, list: &[ProvenanceEntry]) -> Result<ProvenanceService, String> {
        let mut svc = ProvenanceService::new();
        for x in &self.h.wls {
            svc.register_worldline(x.id, &x.base).map_err(|e| format!("{e:?}"))?;
        }
        // other worldlines first (authentic), so cross-worldline refs resolve
        for x in &self.h.wls {
            if x.id == w {
                continue;
            }
            for e in self.entries(x.id) {
                svc.append_local_commit(e).map_err(|e| format!("HARNESS:{e:?}"))?;
            }
        }
        for e in list {
            let r = if matches!(e.event_kind, ProvenanceEventKind::LocalCommit) {
                svc.append_local_commit(e.clone())
            } else {
                svc.append_recorded_event(e.clone())
            };
            r.map_err(|e| format!("{e:?}"))?;
        }
        Ok(svc)
    }

    fn probe_rebuild(&self, w: WorldlineId, list: &[ProvenanceEntry], k: u64, alt: Alt<'_>) -> Outcome {
        guarded(|| self.probe_rebuild_inner(w, list, k, alt))
    }

    fn probe_rebuild_inner(&self, w: WorldlineId, list: &[ProvenanceEntry], k: u64, alt: Alt<'_>) -> Outcome {
        let svc = match self.rebuild(w, list) {
            Ok(s) => s,
            Err(e) if e.starts_with("HARNESS:") => return Outcome::Typed(format!("HARNESS:{e}")),
            Err(e) => return Outcome::Typed(format!("append:{}", err_name(&e))),
        };
        let orig = &self.orig[&w];
        let n = (orig.obs.len() - 1) as u64;
        let len2 = svc.len(w).unwrap_or(0);
        let mut targets = vec![k + 1, len2, n];
        targets.sort_unstable();
        targets.dedup();
        let min_t = MIN_TARGET.with(std::cell::Cell::get);
        targets.retain(|t| *t >= min_t);
        let mut out = Outcome::Identical;
        for t in targets {
            let o = match svc.replay_worldline_state_at(w, self.base(w), wt(t)) {
                Ok(st) => compare_alt(&st, t, orig, alt),
                Err(e) => Outcome::Typed(format!("replay:{}", err_name(&format!("{e:?}")))),
            };
            out = worst(out, o);
        }
        out
    }

    /// Surface 2: `PlaybackCursor::seek_to`/`step` over a `TamperStore`.
    fn probe_store(&self, store: &TamperStore<'_>, w: WorldlineId, k: u64, alt: Alt<'_>) -> Outcome {
        guarded(|| self.probe_store_inner(store, w, k, alt))
    }

    fn probe_store_inner(&self, store: &TamperStore<'_>, w: WorldlineId, k: u64, alt: Alt<'_>) -> Outcome {
        let orig = &self.orig[&w];
        let n = (orig.obs.len() - 1) as u64;
        let len2 = store.len(w).unwrap_or(0);
        let pin = n.max(len2) + 1;
        let base = self.base(w);
        let mk = |i: u8| PlaybackCursor::new(CursorId([i; 32]), w, base.root().warp_id, CursorRole::Reader, base, wt(pin));
        let mut out = Outcome::Identical;
        let land = |c: &PlaybackCursor| compare_alt(c.materialized_state(), c.current_tick().as_u64(), orig, alt);
        // fresh cursor: restore path to k+1, then forward to the end, then back
        let mut c = mk(1);
        let mut targets = vec![k + 1, len2, n, k.min(len2)];
        targets.dedup();
        let min_t = MIN_TARGET.with(std::cell::Cell::get);
        targets.retain(|t| *t >= min_t || *t <= k);
        for t in targets {
            match c.seek_to(wt(t), store, base) {
                Ok(()) => out = worst(out, land(&c)),
                Err(e) => {
                    out = worst(out, Outcome::Typed(format!("seek:{}", err_name(&format!("{e:?}")))));
                    c = mk(2);
                }
            }
        }
        // advance path: authentic prefix to k, then one StepForward over the tampered entry
        let mut c = mk(3);
        if min_t == 0 && c.seek_to(wt(k.min(len2)), store, base).is_ok() {
            c.mode = PlaybackMode::StepForward;
            match c.step(store, base) {
                Ok(_) => out = worst(out, land(&c)),
                Err(e) => out = worst(out, Outcome::Typed(format!("step:{}", err_name(&format!("{e:?}"))))),
            }
        }
        out
    }
}

struct Tally<'a> {
    rep: &'a mut Report,
    args: &'a Args,
    case: u64,
    part: u64,
}

impl Tally<'_> {
    #[allow(clippy::too_many_arguments)]
    fn record(&mut self, surface: &str, family: &str, label: &str, w_idx: usize, k: u64, out: Outcome) {
        self.rep.eval();
        self.rep.count("mutants_evaluated", 1);
        self.rep.count(&format!("surface:{surface}"), 1);
        self.rep.count(&format!("op:{family}"), 1);
        self.rep.observe("operators", family);
        self.rep.nontrivial(format!("{}|{}|{surface}|{w_idx}|{k}|{label}", self.case, self.part).as_bytes());
        let replay = json!({"seed": self.args.seed, "case": self.case, "part": self.part, "surface": surface,
                            "operator": family, "label": label, "worldline": w_idx, "position": k});
        match out {
            Outcome::Typed(e) if e.starts_with("HARNESS:") => {
                self.rep.inconclusive(&format!("harness: {e}"));
            }
            Outcome::Typed(e) => {
                self.rep.count(&format!("outcome:{surface}:typed-error"), 1);
                self.rep.count(&format!("err:{e}"), 1);
            }
            Outcome::Identical => {
                self.rep.count(&format!("outcome:{surface}:accepted-identical"), 1);
                // On surfaces where no checkpoint can skip the altered entry an
                // identical result means: nothing re-verifies this field and it
                // does not influence the result.
                if surface == "rebuild+replay_at" || surface == "tamper-store:seek" {
                    self.rep.count(&format!("identical:{surface}:{family}"), 1);
                }
            }
            Outcome::Unbound(what) => {
                if unbound_reason(family).is_some() {
                    self.rep.count(&format!("outcome:{surface}:unbound-metadata"), 1);
                    self.rep.count(&format!("unbound:{family}"), 1);
                    self.rep.observe("unbound_metadata_fields", &format!("{family} -> {what}"));
                } else {
                    self.rep.violation(
                        &format!("C05:{surface}:accepted-different-metadata:{family}"),
                        &format!("alteration `{label}` at tick {k} was accepted; state and commit chain unchanged but retained metadata `{what}` differs, and `{family}` is not a field the specification leaves uncommitted"),
                        replay,
                    );
                }
            }
            Outcome::UnreachableOnly(detail) => {
                if family.starts_with("ckpt.state.graph-edit") {
                    self.rep.count(&format!("outcome:{surface}:unbound-metadata"), 1);
                    self.rep.count(&format!("unbound:{family}(unreachable content)"), 1);
                    self.rep.observe(
                        "unbound_metadata_fields",
                        "checkpoint embedded state: content unreachable from the root -> not covered by state_root (merkle-commit.md Decision 1); reachable state, root, chain, tick identical",
                    );
                } else {
                    self.rep.violation(
                        &format!("C05:{surface}:accepted-different-unreachable-state:{family}"),
                        &format!("alteration `{label}` at tick {k} of worldline #{w_idx} was accepted; only unreachable graph content differs: {detail}"),
                        replay,
                    );
                }
            }
            Outcome::Panicked(msg) => {
                let short: String = msg.chars().take(60).filter(|c| c.is_ascii_alphanumeric() || *c == ' ' || *c == '_').collect();
                let surface_sig = surface.replace("tamper-store+checkpoints", "tamper-store");
                self.rep.violation(
                    &format!("C05:{surface_sig}:panic:{family}"),
                    &format!("verification of altered material (`{label}`, tick {k}, worldline #{w_idx}) panicked instead of returning a typed error or the original result: {msg} [{short}]"),
                    replay,
                );
            }
            Outcome::Different(what, detail) => {
                // structural list mutants: which probe coordinate differs first is incidental
                let what = if family.starts_with("entry.") { "history".to_owned() } else { what };
                let surface_sig = surface.replace("tamper-store+checkpoints", "tamper-store");
                self.rep.violation(
                    &format!("C05:{surface_sig}:accepted-different-{what}:{family}"),
                    &format!("alteration `{label}` at tick {k} of worldline #{w_idx} was ACCEPTED as verified with a different result: {detail}"),
                    replay,
                );
            }
        }
    }

    /// Accept/reject surfaces without a materialised result (BTR, suffix).
    #[allow(clippy::too_many_arguments)]
    fn record_verdict(&mut self, surface: &str, family: &str, label: &str, w_idx: usize, k: u64, verdict: Result<bool, String>, unbound_ok: Option<&str>) {
        // verdict: Err(typed) | Ok(true) = accepted and result identical to original | Ok(false) = accepted, altered
        self.rep.eval();
        self.rep.count("mutants_evaluated", 1);
        self.rep.count(&format!("surface:{surface}"), 1);
        self.rep.count(&format!("op:{family}"), 1);
        self.rep.observe("operators", family);
        self.rep.nontrivial(format!("{}|{}|{surface}|{w_idx}|{k}|{label}", self.case, self.part).as_bytes());
        match verdict {
            Err(e) => {
                self.rep.count(&format!("outcome:{surface}:typed-error"), 1);
                self.rep.count(&format!("err:{e}"), 1);
            }
            Ok(true) => {
                self.rep.count(&format!("outcome:{surface}:accepted-identical"), 1);
                self.rep.count(&format!("identical:{surface}:{family}"), 1);
            }
            Ok(false) => {
                if let Some(reason) = unbound_ok {
                    self.rep.count(&format!("outcome:{surface}:unbound-metadata"), 1);
                    self.rep.count(&format!("unbound:{family}"), 1);
                    self.rep.observe("unbound_metadata_fields", &format!("{family} -> {reason}"));
                } else {
                    self.rep.violation(
                        &format!("C05:{surface}:accepted-altered:{family}"),
                        &format!("altered material (`{label}`, position {k}, worldline #{w_idx}) was accepted as verified"),
                        json!({"seed": self.args.seed, "case": self.case, "part": self.part, "surface": surface,
                               "operator": family, "label": label, "worldline": w_idx, "position": k}),
                    );
                }
            }
        }
    }
}

fn rewrite_for(mut e: ProvenanceEntry, from: WorldlineId, to: WorldlineId) -> ProvenanceEntry {
    e.worldline_id = to;
    if let Some(h) = e.head_key.as_mut() {
        if h.worldline_id == from {
            h.worldline_id = to;
        }
    }
    for p in &mut e.parents {
        if p.worldline_id == from {
            p.worldline_id = to;
        }
    }
    e
}


/// Binding forgeries: alter one committed ingredient and recompute every
/// dependent digest EXCEPT the commit id (so only the commit id can object) —
/// this probes the first sentence of the statement: the commit id binds the
/// parent commit, the state root, the patch digest and the policy. The
/// `forge.full-entry*` operators also recompute the commit id (a fully
/// self-consistent forged entry) and are applied mid-chain only, where the
/// next entry's parent link is the remaining anchor.
fn forge_mutants(world: &World, w: WorldlineId, k: u64, e: &ProvenanceEntry, n: u64) -> Vec<(&'static str, String, ProvenanceEntry)> {
    use warp_core::{compute_commit_hash_v2, AtomPayload, AttachmentKey, AttachmentValue, NodeKey, SlotId, TickCommitStatus, WarpOp, WarpTickPatchV1};
    let mut out = Vec::new();
    let Some(p) = e.patch.as_ref() else { return out };
    let redigest = |p: &WorldlineTickPatchV1| {
        WarpTickPatchV1::new(p.header.policy_id, p.header.rule_pack_id, TickCommitStatus::Committed, p.in_slots.clone(), p.out_slots.clone(), p.ops.clone()).digest()
    };
    let warp = p.warp_id;
    let forged_slot = SlotId::Node(NodeKey { warp_id: warp, local_id: warp_core::make_node_id("vh/forged-slot") });
    let parents: Vec<Hash> = e.parents.iter().map(|r| r.commit_hash).collect();

    // 1. patch digest (state unaffected: an extra out-slot)
    let mut a = e.clone();
    {
        let ap = a.patch.as_mut().expect("patch");
        ap.out_slots.push(forged_slot);
        ap.out_slots.sort();
        let d = redigest(ap);
        ap.patch_digest = d;
        a.expected.patch_digest = d;
    }
    out.push(("forge.patch_digest", "out_slots+1, patch digests recomputed, commit id kept".to_owned(), a.clone()));
    if k + 1 < n {
        let mut f = a.clone();
        f.expected.commit_hash = compute_commit_hash_v2(&f.expected.state_root, &parents, &f.expected.patch_digest, p.header.policy_id);
        out.push(("forge.full-entry", "out_slots+1, ALL digests incl. commit id recomputed (mid-chain)".to_owned(), f));
    }

    // 2. policy id
    let mut a = e.clone();
    {
        let ap = a.patch.as_mut().expect("patch");
        ap.header.policy_id = ap.header.policy_id.wrapping_add(1);
        let d = redigest(ap);
        ap.patch_digest = d;
        a.expected.patch_digest = d;
    }
    out.push(("forge.policy_id", "policy_id+1, patch digests recomputed, commit id kept".to_owned(), a));

    // 3. state root (a reachable attachment write appended to the patch)
    let mut a = e.clone();
    let pre = &world.orig[&w].states[k as usize];
    {
        let ap = a.patch.as_mut().expect("patch");
        let key = AttachmentKey::node_alpha(NodeKey { warp_id: warp, local_id: crate::workload::slot(5) });
        ap.ops.retain(|o| !matches!(o, WarpOp::SetAttachment { key: k2, .. } if *k2 == key));
        ap.ops.push(WarpOp::SetAttachment {
            key,
            value: Some(AttachmentValue::Atom(AtomPayload::new(warp_core::make_type_id("vh/val"), bytes::Bytes::from_static(b"forged-state")))),
        });
        let canon = WarpTickPatchV1::new(ap.header.policy_id, ap.header.rule_pack_id, TickCommitStatus::Committed, ap.in_slots.clone(), ap.out_slots.clone(), ap.ops.clone());
        ap.ops = canon.ops().to_vec();
        ap.patch_digest = canon.digest();
        a.expected.patch_digest = canon.digest();
        let mut st = pre.clone();
        if ap.apply_to_worldline_state(&mut st).is_ok() {
            a.expected.state_root = st.state_root();
            out.push(("forge.state_root", "reachable attachment write added, patch digest + state_root recomputed, commit id kept".to_owned(), a.clone()));
            if k + 1 < n {
                let mut f = a;
                f.expected.commit_hash = compute_commit_hash_v2(&f.expected.state_root, &parents, &f.expected.patch_digest, p.header.policy_id);
                out.push(("forge.full-entry.state", "reachable attachment write, ALL digests incl. commit id recomputed (mid-chain)".to_owned(), f));
            }
        }
    }
    out
}

/// Structural list mutants at position k.
fn list_mutants(list: &[ProvenanceEntry], k: usize, w: WorldlineId, other: Option<(&[ProvenanceEntry], WorldlineId)>) -> Vec<(&'static str, String, Vec<ProvenanceEntry>)> {
    let mut out = Vec::new();
    let n = list.len();
    if k + 1 < n {
        let mut v = list.to_vec();
        v.swap(k, k + 1);
        out.push(("entry.swap", format!("swap[{k},{}]", k + 1), v));
        let mut v = list.to_vec();
        v.swap(k, k + 1);
        let (a, b) = (v[k].worldline_tick, v[k + 1].worldline_tick);
        v[k].worldline_tick = b;
        v[k + 1].worldline_tick = a;
        out.push(("entry.swap.reticked", format!("swap+retick[{k},{}]", k + 1), v));
    }
    let mut v = list.to_vec();
    v.insert(k + 1, list[k].clone());
    out.push(("entry.duplicate", format!("duplicate[{k}]"), v));
    let mut v = list.to_vec();
    v.insert(k + 1, list[k].clone());
    for (i, e) in v.iter_mut().enumerate().skip(k + 1) {
        e.worldline_tick = wt(i as u64);
    }
    out.push(("entry.duplicate.reticked", format!("duplicate+retick[{k}]"), v));
    if k + 1 < n {
        let mut v = list.to_vec();
        v.remove(k);
        out.push(("entry.delete", format!("delete[{k}]"), v));
        let mut v = list.to_vec();
        v.remove(k);
        for (i, e) in v.iter_mut().enumerate().skip(k) {
            e.worldline_tick = wt(i as u64);
        }
        out.push(("entry.delete.reticked", format!("delete+retick[{k}]"), v));
    }
    out.push(("entry.truncate", format!("truncate@{k}"), list[..k].to_vec()));
    if let Some((ol, oid)) = other {
        if let Some(oe) = ol.get(k).or(ol.last()) {
            let mut v = list.to_vec();
            v[k] = oe.clone();
            out.push(("entry.transplant", format!("transplant[{k}] as-is"), v));
            let mut v = list.to_vec();
            let mut t = rewrite_for(oe.clone(), oid, w);
            t.worldline_tick = wt(k as u64);
            v[k] = t;
            out.push(("entry.transplant.rewritten", format!("transplant[{k}] ids+tick rewritten"), v));
        }
    }
    out
}

// ---------------------------------------------------------------------------
// shards
// ---------------------------------------------------------------------------

const PARTS: u64 = 8;

fn run_shard(rep: &mut Report, args: &Args, case: u64, part: u64, only: Option<(&str, &str, u64, u64)>) {
    let world = match build_world(args.seed, case, args.is_quick()) {
        Ok(w) => w,
        Err(e) => {
            if e.contains("authentic") {
                rep.violation("C05:add-checkpoint:authentic-rejected", &e, json!({"seed": args.seed, "case": case, "part": part}));
            } else {
                rep.inconclusive(&format!("harness: world generation failed: {}", e.chars().take(200).collect::<String>()));
            }
            return;
        }
    };
    let mut unconstructible = 0u64;
    if part == 0 {
        rep.count("histories", 1);
        rep.count("history_forks", u64::from(world.h.wls.iter().any(|w| w.id == wl_id(90))));
        for w in &world.h.wls {
            rep.count("worldlines", 1);
            rep.count("ticks", world.h.len(w.id));
            rep.count("history_checkpoints", world.ck_ticks[&w.id].len() as u64);
        }
        if rep.wants_sample() {
            rep.sample(json!({"case": case, "history": world.h.describe(),
                "checkpoint_ticks": world.ck_ticks.iter().map(|(k, v)| (hex4(k.as_bytes()), v.clone())).collect::<BTreeMap<_, _>>()}));
        }
        authentic_checks(rep, args, case, &world);
    }
    let mut tally = Tally {
        rep,
        args,
        case,
        part,
    };
    let mut slot = 0u64; // round-robin work item counter across parts
    for (wi, wl) in world.h.wls.iter().enumerate() {
        let w = wl.id;
        let list = world.entries(w);
        let n = list.len() as u64;
        let other = world.h.wls.iter().find(|x| x.id != w);
        let other_list = other.map(|o| (world.entries(o.id), o.id));
        let other_id = other.map_or(wl_id(250), |o| o.id);
        for k in 0..n {
            slot += 1;
            if slot % PARTS != part {
                continue;
            }
            if let Some((_, _, ow, ok)) = only {
                if ow != wi as u64 || ok != k {
                    continue;
                }
            }
            tally.rep.count("positions", 1);
            let e = &list[k as usize];
            let same = if n > 1 { Some(&list[((k + 1 + k % 3) % n) as usize]).filter(|s| s.worldline_tick != e.worldline_tick) } else { None };
            let donors = Donors {
                same,
                other: other_list.as_ref().and_then(|(l, _)| l.get(k as usize).or(l.last())),
                other_worldline: other_id,
            };
            // ---- single-field entry mutants + binding forgeries
            let mut ems = entry_mutants(e, &donors, &mut unconstructible);
            ems.extend(forge_mutants(&world, w, k, e, n));
            for (family, label, m) in ems {
                if let Some((_, ol, _, _)) = only {
                    if ol != label {
                        continue;
                    }
                }
                if m == *e {
                    tally.rep.count("mutants_noop_skipped", 1);
                    continue;
                }
                let mut l2 = list.clone();
                l2[k as usize] = m.clone();
                MIN_TARGET.with(|c| c.set(if family.starts_with("forge.full-entry") { k + 2 } else { 0 }));
                let o = world.probe_rebuild(w, &l2, k, None);
                tally.record("rebuild+replay_at", family, &label, wi, k, o);
                for (sname, inner) in [("tamper-store:seek", &world.nock), ("tamper-store+checkpoints:seek", &world.ck)] {
                    let mut ts = TamperStore::new(inner, w);
                    ts.entry_at = Some((k, m.clone()));
                    let o = world.probe_store(&ts, w, k, None);
                    tally.record(sname, family, &label, wi, k, o);
                }
            }
            MIN_TARGET.with(|c| c.set(0));
            // ---- structural mutants
            for (family, label, l2) in list_mutants(&list, k as usize, w, other_list.as_ref().map(|(l, id)| (l.as_slice(), *id))) {
                if let Some((_, ol, _, _)) = only {
                    if ol != label {
                        continue;
                    }
                }
                if l2 == list {
                    tally.rep.count("mutants_noop_skipped", 1);
                    continue;
                }
                // A transplanted sibling entry that is correctly linked to this
                // worldline's authentic prefix (same boundary, parent = our tick k-1)
                // forms an authentic chain up to coordinate k+1: there the expected
                // result is the sibling's.
                let alt: Alt<'_> = if family == "entry.transplant.rewritten" {
                    other_list.as_ref().and_then(|(ol, oid)| {
                        let oe = ol.get(k as usize)?;
                        let linked = if k == 0 {
                            world.orig[oid].fp[0] == world.orig[&w].fp[0]
                        } else {
                            oe.parents.len() == 1 && oe.parents[0].commit_hash == list[k as usize - 1].expected.commit_hash
                                && ol[k as usize - 1].expected.commit_hash == list[k as usize - 1].expected.commit_hash
                        };
                        linked.then(|| (k + 1, &world.orig[oid]))
                    })
                } else {
                    None
                };
                if alt.is_some() {
                    tally.rep.count("transplants_forming_authentic_sibling_chain", 1);
                }
                let o = world.probe_rebuild(w, &l2, k, alt);
                tally.record("rebuild+replay_at", family, &label, wi, k, o);
                for (sname, inner) in [("tamper-store:seek", &world.nock), ("tamper-store+checkpoints:seek", &world.ck)] {
                    let mut ts = TamperStore::new(inner, w);
                    ts.entries = Some(l2.clone());
                    let o = world.probe_store(&ts, w, k, alt);
                    tally.record(sname, family, &label, wi, k, o);
                }
            }
        }
        // ---- store-level fields (registered boundary, u0, length, replay base)
        slot += 1;
        if slot % PARTS == part && only.is_none() {
            store_level(&mut tally, &world, wi, w);
        }
        // ---- checkpoints: every field at every coordinate
        for c in 0..=n {
            slot += 1;
            if slot % PARTS != part || only.is_some() {
                continue;
            }
            checkpoint_mutants(&mut tally, &world, wi, w, c);
        }
        // ---- boundary transition records
        slot += 1;
        if slot % PARTS == part && only.is_none() {
            btr_mutants(&mut tally, &world, wi, w, &mut unconstructible);
        }
        // ---- witnessed suffix bundles
        slot += 1;
        if slot % PARTS == part && only.is_none() {
            suffix_mutants(&mut tally, &world, wi, w);
        }
    }
    rep.count("receipt_edits_refused_by_constructor", unconstructible);
}

/// Verification of untampered material must succeed on every surface.
fn authentic_checks(rep: &mut Report, args: &Args, case: u64, world: &World) {
    for (wi, wl) in world.h.wls.iter().enumerate() {
        let w = wl.id;
        let info = json!({"seed": args.seed, "case": case, "part": 0, "worldline": wi, "surface": "authentic"});
        let list = world.entries(w);
        let n = list.len() as u64;
        rep.count("authentic_verifications", 1);
        match world.probe_rebuild(w, &list, n.saturating_sub(1), None) {
            Outcome::Identical => {}
            o => rep.violation("C05:rebuild+replay_at:authentic-rejected", &format!("untampered history did not verify to the original result: {o:?}"), info.clone()),
        }
        for inner in [&world.nock, &world.ck] {
            let ts = TamperStore::new(inner, w);
            for k in 0..n {
                match world.probe_store(&ts, w, k, None) {
                    Outcome::Identical => {}
                    o => rep.violation("C05:tamper-store:authentic-rejected", &format!("untampered history via pass-through store: {o:?}"), info.clone()),
                }
            }
        }
        // live log agrees with the original replay results
        for (t, (l, o)) in world.h.live[&w].iter().zip(&world.orig[&w].obs).enumerate() {
            if l.state_root != o.state_root || l.commit_hash != o.tip_commit() {
                rep.violation("C05:authentic:replay-differs-from-live", &format!("tick {t}: live ({}, {:?}) vs replay ({}, {:?})", hex4(&l.state_root), l.commit_hash.map(|h| hex4(&h)), hex4(&o.state_root), o.tip_commit().map(|h| hex4(&h))), info.clone());
            }
        }
        // Rollback windows (`checkpoint_for` .. `restore`, what a scheduler pass and a settlement
        // wrap around their fallible section): whatever was appended AND whatever replay
        // checkpoint was recorded inside a window that rolls back must disappear, and the
        // untampered history must still verify after the worldline continues.
        for k in 0..n.min(6) {
            let Ok(mut svc) = world.rebuild(w, &list[..k as usize]) else { continue };
            let Ok(marker) = svc.checkpoint_for([w]) else { continue };
            let appended = if matches!(list[k as usize].event_kind, ProvenanceEventKind::LocalCommit) {
                svc.append_local_commit(list[k as usize].clone()).is_ok()
            } else {
                svc.append_recorded_event(list[k as usize].clone()).is_ok()
            };
            if !appended {
                continue;
            }
            let recorded = svc
                .replay_worldline_state(w, world.base(w))
                .ok()
                .and_then(|st| svc.checkpoint(w, &st).ok());
            svc.restore(&marker);
            rep.eval();
            rep.count("rollback_windows", 1);
            if recorded.is_some() {
                rep.count("rollback_windows_with_checkpoint_inside", 1);
            }
            let len_after = svc.len(w).unwrap_or(u64::MAX);
            if len_after != k {
                rep.violation("C05:rollback-window:entries-survive", &format!("restore left {len_after} entries, the window opened at {k}"), info.clone());
            }
            if let Some(c) = svc.checkpoint_before(w, warp_core::WorldlineTick::MAX) {
                if c.worldline_tick.as_u64() > k {
                    rep.violation("C05:rollback-window:checkpoint-survives-past-restored-tip",
                        &format!("a replay checkpoint at tick {} recorded inside a rolled-back window is still retained although the worldline was restored to {k} entries", c.worldline_tick.as_u64()), info.clone());
                }
            }
            // the worldline continues; everything must still verify exactly as the original
            let mut ok = true;
            for e in &list[k as usize..] {
                let r = if matches!(e.event_kind, ProvenanceEventKind::LocalCommit) { svc.append_local_commit(e.clone()) } else { svc.append_recorded_event(e.clone()) };
                if let Err(err) = r {
                    rep.violation("C05:rollback-window:authentic-append-rejected", &format!("after a rolled-back window at {k}: {err:?}"), info.clone());
                    ok = false;
                    break;
                }
            }
            if ok {
                for t in 0..=n {
                    match svc.replay_worldline_state_at(w, world.base(w), wt(t)) {
                        Ok(st) => {
                            if t > 0 && st.state_root() != list[(t - 1) as usize].expected.state_root {
                                rep.violation("C05:rollback-window:authentic-replay-differs", &format!("after a rolled-back window at {k}, replay at {t} has another state root"), info.clone());
                            }
                        }
                        Err(e) => rep.violation("C05:rollback-window:authentic-rejected", &format!("after a rolled-back window at {k}, untampered history fails to replay at {t}: {e:?}"), info.clone()),
                    }
                }
            }
        }
        if n > 0 {
            match world.ck.build_btr(w, wt(0), wt(n), 1, vec![1, 2, 3]) {
                Ok(r) => {
                    if let Err(e) = world.ck.validate_btr(&r) {
                        rep.violation("C05:validate_btr:authentic-rejected", &format!("{e:?}"), info.clone());
                    }
                }
                Err(e) => rep.violation("C05:build_btr:authentic-rejected", &format!("{e:?}"), info.clone()),
            }
        }
    }
}

fn store_level(t: &mut Tally<'_>, world: &World, wi: usize, w: WorldlineId) {
    let n = world.h.len(w);
    let k = n.saturating_sub(1);
    let boundary = ProvenanceStore::initial_boundary_hash(&world.nock, w).expect("boundary");
    let u0 = world.nock.u0(w).expect("u0");
    let mut ts = TamperStore::new(&world.nock, w);
    ts.boundary = Some(flip(&boundary, 3));
    let o = world.probe_store(&ts, w, k, None);
    t.record("tamper-store:seek", "store.initial_boundary_hash.flip", "initial_boundary_hash.flip", wi, k, o);
    let mut ts = TamperStore::new(&world.nock, w);
    ts.u0 = Some(WarpId(flip(&u0.0, 5)));
    let o = world.probe_store(&ts, w, k, None);
    t.record("tamper-store:seek", "store.u0.flip", "u0.flip", wi, k, o);
    if n > 0 {
        let mut ts = TamperStore::new(&world.nock, w);
        ts.len_override = Some(n - 1);
        let o = world.probe_store(&ts, w, k, None);
        t.record("tamper-store:seek", "store.len-1", "len-1", wi, k, o);
    }
    let mut ts = TamperStore::new(&world.nock, w);
    ts.len_override = Some(n + 1);
    let o = world.probe_store(&ts, w, k, None);
    t.record("tamper-store:seek", "store.len+1", "len+1", wi, k, o);
    // authentic local-commit entry pushed through the recorded-event API and
    // a recorded-event-shaped entry through the local-commit API
    if n > 0 {
        let list = world.entries(w);
        let last = list[n as usize - 1].clone();
        let o = guarded(|| {
            let mut svc = match world.rebuild(w, &list[..n as usize - 1]) {
                Ok(s) => s,
                Err(e) => return Outcome::Typed(format!("HARNESS:{e}")),
            };
            match svc.append_recorded_event(last.clone()) {
                Err(e) => Outcome::Typed(format!("append_recorded_event:{}", err_name(&format!("{e:?}")))),
                Ok(()) => match svc.replay_worldline_state_at(w, world.base(w), wt(n)) {
                    Ok(st) => compare(&st, n, &world.orig[&w]),
                    Err(e) => Outcome::Typed(format!("replay:{}", err_name(&format!("{e:?}")))),
                },
            }
        });
        t.record("rebuild+replay_at", "api.local-entry-via-append_recorded_event", "authentic local commit appended through append_recorded_event", wi, n - 1, o);
    }
    // altered replay base (U0 graph): registered initial boundary must reject it
    let base = world.base(w);
    let forged = crate::workload::initial_state(
        &world.h.wls[wi].warp_label,
        world.h.wls[wi].variant ^ 1,
    );
    let r = world.nock.replay_worldline_state_at(w, &forged, wt(n));
    let o = match r {
        Ok(st) => compare(&st, n, &world.orig[&w]),
        Err(e) => Outcome::Typed(format!("replay:{}", err_name(&format!("{e:?}")))),
    };
    t.record("rebuild+replay_at", "base.initial_state.altered", "replay base U0 attachment altered", wi, k, o);
    let mut c = PlaybackCursor::new(CursorId([9; 32]), w, forged.root().warp_id, CursorRole::Reader, &forged, wt(n));
    let o = match c.seek_to(wt(n), &world.nock, &forged) {
        Ok(()) => compare(c.materialized_state(), n, &world.orig[&w]),
        Err(e) => Outcome::Typed(format!("seek:{}", err_name(&format!("{e:?}")))),
    };
    t.record("tamper-store:seek", "base.initial_state.altered", "cursor base U0 attachment altered", wi, k, o);
    let _ = base;
}

/// A copy of `state` with one extra graph edit applied through the public
/// `apply_to_worldline_state` (tick history and metadata untouched).
fn graph_edited(state: &WorldlineState, which: u8) -> Option<WorldlineState> {
    use warp_core::{AtomPayload, AttachmentKey, AttachmentValue, NodeKey, NodeRecord, WarpOp};
    let mut s = state.clone();
    let warp = s.root().warp_id;
    let key = |id| NodeKey { warp_id: warp, local_id: id };
    let ops = match which {
        0 => vec![WarpOp::SetAttachment {
            key: AttachmentKey::node_alpha(key(crate::workload::slot(1))),
            value: Some(AttachmentValue::Atom(AtomPayload::new(warp_core::make_type_id("vh/val"), bytes::Bytes::from_static(b"forged-reachable")))),
        }],
        1 => vec![WarpOp::UpsertNode {
            node: key(warp_core::make_node_id("vh/forged-island")),
            record: NodeRecord { ty: warp_core::make_type_id("vh/forged") },
        }],
        _ => vec![WarpOp::DeleteEdge {
            warp_id: warp,
            from: crate::workload::root_node(),
            edge_id: crate::workload::edge_root_slot(2),
        }],
    };
    let p = WorldlineTickPatchV1 {
        header: WorldlineTickHeaderV1 {
            commit_global_tick: warp_core::GlobalTick::from_raw(0),
            policy_id: 0,
            rule_pack_id: [0; 32],
            plan_digest: [0; 32],
            decision_digest: [0; 32],
            rewrites_digest: [0; 32],
        },
        warp_id: warp,
        ops,
        in_slots: vec![],
        out_slots: vec![],
        patch_digest: [0; 32],
    };
    p.apply_to_worldline_state(&mut s).ok()?;
    Some(s)
}

fn checkpoint_mutants(t: &mut Tally<'_>, world: &World, wi: usize, w: WorldlineId, c: u64) {
    let orig = &world.orig[&w];
    let n = (orig.obs.len() - 1) as u64;
    let s_c = &orig.states[c as usize];
    let authentic = ReplayCheckpoint::from_state(s_c);
    let mut muts: Vec<(&'static str, String, ReplayCheckpoint)> = Vec::new();
    let mk = |tick: u64, hash: Hash, state: &WorldlineState| ReplayCheckpoint {
        checkpoint: CheckpointRef {
            worldline_tick: wt(tick),
            state_hash: hash,
        },
        state: state.clone(),
    };
    let h = authentic.checkpoint.state_hash;
    muts.push(("ckpt.tick+1", "checkpoint.worldline_tick+1".into(), mk(c + 1, h, s_c)));
    if c > 0 {
        muts.push(("ckpt.tick-1", "checkpoint.worldline_tick-1".into(), mk(c - 1, h, s_c)));
    }
    muts.push(("ckpt.state_hash.flip", "checkpoint.state_hash.flip".into(), mk(c, flip(&h, c as usize), s_c)));
    for other in [c.wrapping_sub(1), c + 1, 0, n] {
        if other == c || other > n {
            continue;
        }
        let so = &orig.states[other as usize];
        muts.push(("ckpt.state_hash.replace", format!("checkpoint.state_hash=root@{other}"), mk(c, so.state_root(), s_c)));
        muts.push(("ckpt.state.other-tick", format!("checkpoint.state=state@{other}"), mk(c, h, so)));
        muts.push(("ckpt.state.other-tick+hash", format!("checkpoint.state=state@{other} (+matching state_hash)"), mk(c, so.state_root(), so)));
    }
    for which in 0..3u8 {
        if let Some(s2) = graph_edited(s_c, which) {
            let name = ["reachable-attachment", "unreachable-node", "delete-reachable-edge"][which as usize];
            muts.push(("ckpt.state.graph-edit", format!("checkpoint.state graph edit: {name}"), mk(c, h, &s2)));
            muts.push(("ckpt.state.graph-edit+hash", format!("checkpoint.state graph edit: {name} (+matching state_hash)"), mk(c, s2.state_root(), &s2)));
        }
    }
    if let Some(o) = world.h.wls.iter().find(|x| x.id != w) {
        let og = &world.orig[&o.id];
        if let Some(so) = og.states.get(c as usize) {
            muts.push(("ckpt.state.other-worldline", "checkpoint.state=other worldline's state".into(), mk(c, h, so)));
            muts.push(("ckpt.state.other-worldline+hash", "checkpoint.state=other worldline's state (+matching state_hash)".into(), mk(c, so.state_root(), so)));
        }
    }
    if let Ok(fresh) = WorldlineState::new(s_c.warp_state().clone(), *s_c.root()) {
        muts.push(("ckpt.state.initial-rebased", "checkpoint.state rebuilt with initial_state := current graph, empty tick history".into(), mk(c, h, &fresh)));
    }
    // embedded tick history: same graph, but history hydrated from entries whose
    // uncommitted diagnostics were altered (only possible for c > 0)
    if c > 0 {
        let j = (c - 1) / 2;
        let mut e = world.nock.entry(w, wt(j)).expect("entry");
        if let Some(p) = e.patch.as_mut() {
            p.header.plan_digest = flip(&p.header.plan_digest, 1);
        }
        let mut ts = TamperStore::new(&world.nock, w);
        ts.entry_at = Some((j, e));
        let base = world.base(w);
        let mut cur = PlaybackCursor::new(CursorId([4; 32]), w, base.root().warp_id, CursorRole::Reader, base, wt(n));
        if cur.seek_to(wt(c), &ts, base).is_ok() {
            muts.push(("ckpt.state.meta-altered-history", format!("checkpoint.state with tick_history[{j}].plan_digest altered"), mk(c, h, cur.materialized_state())));
        }
    }
    if let Some(live) = world.h.live[&w].get(c as usize).and_then(|l| l.state.as_ref()) {
        if c > 0 {
            muts.push(("ckpt.state.committed-ingress", "checkpoint.state=live frontier clone (committed_ingress not cleared)".into(), mk(c, h, live)));
        }
    }

    for (family, label, m) in muts {
        // surface: add_checkpoint on the service, then replay/seek through it
        let mut svc = world.nock.clone();
        let o = guarded(|| match svc.add_checkpoint(w, m.clone()) {
            Err(e) => Outcome::Typed(format!("add_checkpoint:{}", err_name(&format!("{e:?}")))),
            Ok(()) => {
                let mut out = Outcome::Identical;
                let tick = m.checkpoint.worldline_tick.as_u64();
                let mut targets = vec![tick.min(n), (tick + 1).min(n), c, n];
                targets.sort_unstable();
                targets.dedup();
                for tg in targets {
                    let o = match svc.replay_worldline_state_at(w, world.base(w), wt(tg)) {
                        Ok(st) => compare(&st, tg, orig),
                        Err(e) => Outcome::Typed(format!("replay:{}", err_name(&format!("{e:?}")))),
                    };
                    out = worst(out, o);
                }
                out
            }
        });
        t.record("add_checkpoint+replay_at", family, &label, wi, c, o);
        // surface: the same checkpoint served by a custom store
        let mut ts = TamperStore::new(&world.nock, w);
        ts.ckpts = Some(vec![m.clone()]);
        let tick = m.checkpoint.worldline_tick.as_u64();
        let base = world.base(w);
        let mut out = Outcome::Identical;
        let mut targets = vec![tick.min(n), (tick + 1).min(n), c, n];
        targets.sort_unstable();
        targets.dedup();
        for tg in targets {
            let o = guarded(|| {
                let mut cur = PlaybackCursor::new(CursorId([5; 32]), w, base.root().warp_id, CursorRole::Reader, base, wt(n));
                match cur.seek_to(wt(tg), &ts, base) {
                    Ok(()) => compare(cur.materialized_state(), tg, orig),
                    Err(e) => Outcome::Typed(format!("seek:{}", err_name(&format!("{e:?}")))),
                }
            });
            out = worst(out, o);
        }
        t.record("tamper-store:checkpoint-restore", family, &label, wi, c, out);
    }
}

fn btr_mutants(t: &mut Tally<'_>, world: &World, wi: usize, w: WorldlineId, unconstructible: &mut u64) {
    let n = world.h.len(w);
    if n == 0 {
        return;
    }
    let svc = &world.ck;
    let other_id = world.h.wls.iter().find(|x| x.id != w).map_or(wl_id(250), |o| o.id);
    let mut ranges = vec![(0, n)];
    if n >= 3 {
        ranges.push((1, n - 1));
        ranges.push((n / 2, n / 2 + 1));
    }
    for (a, b) in ranges {
        let rec = match svc.build_btr(w, wt(a), wt(b), 7, vec![0xaa, 0xbb]) {
            Ok(r) => r,
            Err(e) => {
                t.rep.violation("C05:build_btr:authentic-rejected", &format!("{e:?}"), json!({"seed": t.args.seed, "case": t.case, "part": t.part, "worldline": wi, "range": [a, b]}));
                continue;
            }
        };
        let mut muts: Vec<(&'static str, String, BoundaryTransitionRecord, Option<&'static str>)> = Vec::new();
        let m = |f: &dyn Fn(&mut BoundaryTransitionRecord)| {
            let mut r = rec.clone();
            f(&mut r);
            r
        };
        muts.push(("btr.worldline_id", "record.worldline_id".into(), m(&|r| r.worldline_id = other_id), None));
        muts.push(("btr.u0_ref", "record.u0_ref.flip".into(), m(&|r| r.u0_ref = WarpId(flip(&r.u0_ref.0, 1))), None));
        muts.push(("btr.input_boundary_hash", "record.input_boundary_hash.flip".into(), m(&|r| r.input_boundary_hash = flip(&r.input_boundary_hash, 2)), None));
        muts.push(("btr.input_boundary_hash", "record.input_boundary_hash=output".into(), m(&|r| r.input_boundary_hash = r.output_boundary_hash), None));
        muts.push(("btr.output_boundary_hash", "record.output_boundary_hash.flip".into(), m(&|r| r.output_boundary_hash = flip(&r.output_boundary_hash, 2)), None));
        muts.push(("btr.output_boundary_hash", "record.output_boundary_hash=input".into(), m(&|r| r.output_boundary_hash = r.input_boundary_hash), None));
        muts.push(("btr.payload.worldline_id", "payload.worldline_id".into(), m(&|r| r.payload.worldline_id = other_id), None));
        muts.push(("btr.payload.start_tick", "payload.start_worldline_tick+1".into(), m(&|r| r.payload.start_worldline_tick = wt(a + 1)), None));
        if a > 0 {
            muts.push(("btr.payload.start_tick", "payload.start_worldline_tick-1".into(), m(&|r| r.payload.start_worldline_tick = wt(a - 1)), None));
        }
        muts.push(("btr.logical_counter", "record.logical_counter+1".into(), m(&|r| r.logical_counter += 1),
            Some("BTR logical_counter: carried 'deterministic monotone counter', not part of any digest and not checked by validate_btr")));
        muts.push(("btr.auth_tag", "record.auth_tag altered".into(), m(&|r| r.auth_tag.push(1)),
            Some("BTR auth_tag: documented as 'opaque auth payload reserved for later phases' (provenance_store.rs); no verification exists yet")));
        let len = rec.payload.entries.len();
        for i in 0..len {
            if i + 1 < len {
                muts.push(("btr.entry.swap", format!("payload.entries.swap[{i}]"), m(&|r| r.payload.entries.swap(i, i + 1)), None));
                muts.push(("btr.entry.delete", format!("payload.entries.delete[{i}]"), m(&|r| {
                    r.payload.entries.remove(i);
                }), None));
            }
            muts.push(("btr.entry.duplicate", format!("payload.entries.duplicate[{i}]"), m(&|r| {
                let e = r.payload.entries[i].clone();
                r.payload.entries.insert(i, e);
            }), None));
            let e = &rec.payload.entries[i];
            let donors = Donors {
                same: rec.payload.entries.get((i + 1) % len).filter(|_| len > 1 && (i + 1) % len != i),
                other: None,
                other_worldline: other_id,
            };
            for (fam, label, me) in entry_mutants(e, &donors, unconstructible) {
                if me == *e {
                    continue;
                }
                let mut r = rec.clone();
                r.payload.entries[i] = me;
                muts.push(("btr.entry.field", format!("payload.entries[{i}].{label} ({fam})"), r, None));
            }
        }
        if len > 1 {
            muts.push(("btr.truncate", "payload.entries.truncate-last".into(), m(&|r| {
                r.payload.entries.pop();
            }), None));
        }
        // material that reaches past what the validating store retains: the store
        // cannot vouch for those entries, so acceptance is acceptance of unverified history
        if b == n && len > 0 {
            for extra in 1..=2u64 {
                muts.push(("btr.extend-past-tip", format!("payload.entries + {extra} forged entr(y/ies) past the retained tip (self-consistent output boundary)"), m(&|r| {
                    for k in 0..extra {
                        let mut e = r.payload.entries[len - 1].clone();
                        e.worldline_tick = wt(n + k);
                        r.payload.entries.push(e);
                    }
                    if let Some(last) = r.payload.entries.last() {
                        r.output_boundary_hash = last.expected.state_root;
                    }
                }), None));
            }
            muts.push(("btr.extend-past-tip", "record fabricated entirely past the retained tip (starts at the tip)".into(), m(&|r| {
                let mut e = r.payload.entries[len - 1].clone();
                e.worldline_tick = wt(n);
                r.input_boundary_hash = r.output_boundary_hash;
                r.payload.start_worldline_tick = wt(n);
                r.payload.entries = vec![e];
            }), None));
        }
        for (family, label, r, unbound) in muts {
            let verdict = match svc.validate_btr(&r) {
                Err(e) => Err(format!("validate_btr:{}", err_name(&format!("{e:?}")))),
                Ok(()) => {
                    // An accepted record is fine iff it is exactly the authentic record
                    // of the range it claims (e.g. truncation across a tick that left
                    // the state root unchanged yields the authentic shorter BTR).
                    let s0 = r.payload.start_worldline_tick;
                    let e0 = wt(s0.as_u64() + r.payload.entries.len() as u64);
                    let authentic = svc.build_btr(r.worldline_id, s0, e0, rec.logical_counter, rec.auth_tag.clone());
                    Ok(authentic.is_ok_and(|a| a == r))
                }
            };
            t.record_verdict("validate_btr", family, &label, wi, a, verdict, unbound);
        }
    }
}

struct ExportCtx<'a> {
    prov: &'a ProvenanceService,
}
impl WitnessedSuffixExportContext for ExportCtx<'_> {
    fn source_entries(&self, r: &ExportSuffixRequest) -> Option<Vec<ProvenanceRef>> {
        let w = r.source_worldline_id;
        let len = self.prov.len(w).ok()?;
        let hi = r.target_frontier.map_or(len.saturating_sub(1), |t| t.worldline_tick.as_u64());
        let lo = r.base_frontier.worldline_tick.as_u64();
        Some(
            (lo + 1..=hi)
                .filter_map(|t| self.prov.entry(w, wt(t)).ok())
                .map(|e| e.as_ref())
                .collect(),
        )
    }
    fn boundary_witness(&self, r: &ExportSuffixRequest) -> Option<ProvenanceRef> {
        Some(r.base_frontier)
    }
}

/// Local admission context backed by the real provenance: shell identity is
/// recomputed locally with the repository's public digest function, every
/// source coordinate must resolve to a retained entry, and the posture echoes
/// what would be admitted (so an accepted alteration is visible).
struct AdmitCtx<'a> {
    prov: &'a ProvenanceService,
}
impl WitnessedSuffixAdmissionContext for AdmitCtx<'_> {
    fn source_shell_digest(&self, shell: &WitnessedSuffixShell) -> Option<Hash> {
        Some(derive_witnessed_suffix_shell_digest(shell))
    }
    fn resolve_target_basis(&self, b: ProvenanceRef) -> Option<ProvenanceRef> {
        let e = self.prov.entry(b.worldline_id, b.worldline_tick).ok()?;
        (e.expected.commit_hash == b.commit_hash).then_some(b)
    }
    fn local_admission_posture(&self, r: &WitnessedSuffixAdmissionRequest) -> WitnessedSuffixLocalAdmissionPosture {
        WitnessedSuffixLocalAdmissionPosture::Admissible {
            admitted_refs: r.source_suffix.source_entries.clone(),
        }
    }
}

fn suffix_mutants(t: &mut Tally<'_>, world: &World, wi: usize, w: WorldlineId) {
    let n = world.h.len(w);
    if n < 2 {
        return;
    }
    let prov = &world.ck;
    let other_id = world.h.wls.iter().find(|x| x.id != w).map_or(wl_id(250), |o| o.id);
    let refat = |tick: u64| prov.entry(w, wt(tick)).expect("entry").as_ref();
    let mut ranges = vec![(0u64, n - 1)];
    if n >= 4 {
        ranges.push((1, n - 2));
    }
    for (a, b) in ranges {
        let req = ExportSuffixRequest {
            source_worldline_id: w,
            base_frontier: refat(a),
            target_frontier: Some(refat(b)),
            basis_report: None,
        };
        let bundle = match export_suffix(&req, &ExportCtx { prov }) {
            Ok(x) => x,
            Err(e) => {
                t.rep.violation("C05:export_suffix:authentic-rejected", &format!("{e:?}"), json!({"seed": t.args.seed, "case": t.case, "part": t.part, "worldline": wi, "range": [a, b]}));
                continue;
            }
        };
        let target_basis = refat(a);
        let import = |bd: &CausalSuffixBundle| {
            import_suffix(
                &ImportSuffixRequest {
                    bundle: bd.clone(),
                    target_worldline_id: w,
                    target_basis,
                    basis_report: None,
                },
                &AdmitCtx { prov },
            )
        };
        let orig_res = import(&bundle);
        let admitted_ok = matches!(&orig_res.admission.outcome, WitnessedSuffixAdmissionOutcome::Admitted { admitted_refs, .. } if *admitted_refs == bundle.source_suffix.source_entries);
        t.rep.count("authentic_verifications", 1);
        if !admitted_ok || orig_res.bundle_digest != bundle.bundle_digest {
            t.rep.violation("C05:import_suffix:authentic-rejected", &format!("untampered bundle not admitted: {:?}", orig_res.admission.outcome), json!({"seed": t.args.seed, "case": t.case, "part": t.part, "worldline": wi, "range": [a, b]}));
            continue;
        }
        let mut muts: Vec<(&'static str, String, CausalSuffixBundle)> = Vec::new();
        let m = |f: &dyn Fn(&mut CausalSuffixBundle)| {
            let mut x = bundle.clone();
            f(&mut x);
            x
        };
        fn ref_muts(name: &str, other: WorldlineId) -> Vec<(String, Box<dyn Fn(&mut ProvenanceRef)>)> {
            vec![
                (format!("{name}.worldline_id"), Box::new(move |r: &mut ProvenanceRef| r.worldline_id = other)),
                (format!("{name}.worldline_tick+1"), Box::new(|r: &mut ProvenanceRef| r.worldline_tick = wt(r.worldline_tick.as_u64() + 1))),
                (format!("{name}.commit_hash.flip"), Box::new(|r: &mut ProvenanceRef| r.commit_hash = flip(&r.commit_hash, 4))),
            ]
        }
        for (label, f) in ref_muts("base_frontier", other_id) {
            muts.push(("suffix.base_frontier", label, m(&|x| f(&mut x.base_frontier))));
        }
        for (label, f) in ref_muts("target_frontier", other_id) {
            muts.push(("suffix.target_frontier", label, m(&|x| f(&mut x.target_frontier))));
        }
        muts.push(("suffix.bundle_digest", "bundle_digest.flip".into(), m(&|x| x.bundle_digest = flip(&x.bundle_digest, 1))));
        muts.push(("suffix.witness_digest", "source_suffix.witness_digest.flip".into(), m(&|x| x.source_suffix.witness_digest = flip(&x.source_suffix.witness_digest, 1))));
        muts.push(("suffix.source_worldline_id", "source_suffix.source_worldline_id".into(), m(&|x| x.source_suffix.source_worldline_id = other_id)));
        muts.push(("suffix.start_tick", "source_suffix.source_suffix_start_tick+1".into(), m(&|x| x.source_suffix.source_suffix_start_tick = wt(x.source_suffix.source_suffix_start_tick.as_u64() + 1))));
        muts.push(("suffix.start_tick", "source_suffix.source_suffix_start_tick-1".into(), m(&|x| x.source_suffix.source_suffix_start_tick = wt(x.source_suffix.source_suffix_start_tick.as_u64().saturating_sub(1)))));
        muts.push(("suffix.end_tick", "source_suffix.source_suffix_end_tick+1".into(), m(&|x| x.source_suffix.source_suffix_end_tick = x.source_suffix.source_suffix_end_tick.map(|e| wt(e.as_u64() + 1)))));
        muts.push(("suffix.end_tick", "source_suffix.source_suffix_end_tick=None".into(), m(&|x| x.source_suffix.source_suffix_end_tick = None)));
        muts.push(("suffix.boundary_witness", "source_suffix.boundary_witness=None".into(), m(&|x| x.source_suffix.boundary_witness = None)));
        for (label, f) in ref_muts("boundary_witness", other_id) {
            muts.push(("suffix.boundary_witness", label, m(&|x| {
                if let Some(b) = x.source_suffix.boundary_witness.as_mut() {
                    f(b);
                }
            })));
        }
        let ne = bundle.source_suffix.source_entries.len();
        for i in 0..ne {
            for (label, f) in ref_muts(&format!("source_entries[{i}]"), other_id) {
                muts.push(("suffix.source_entry.field", label, m(&|x| f(&mut x.source_suffix.source_entries[i]))));
            }
            muts.push(("suffix.source_entry.delete", format!("source_entries.delete[{i}]"), m(&|x| {
                x.source_suffix.source_entries.remove(i);
            })));
            muts.push(("suffix.source_entry.duplicate", format!("source_entries.duplicate[{i}]"), m(&|x| {
                let e = x.source_suffix.source_entries[i];
                x.source_suffix.source_entries.insert(i, e);
            })));
            if i + 1 < ne {
                muts.push(("suffix.source_entry.swap", format!("source_entries.swap[{i}]"), m(&|x| x.source_suffix.source_entries.swap(i, i + 1))));
            }
            muts.push(("suffix.source_entry.transplant", format!("source_entries[{i}]=ref of another tick"), m(&|x| x.source_suffix.source_entries[i] = refat(a))));
        }
        for (family, label, bd) in muts {
            if bd == bundle {
                continue;
            }
            // import_suffix
            let res = import(&bd);
            let verdict = match &res.admission.outcome {
                WitnessedSuffixAdmissionOutcome::Obstructed { .. } => Err("import_suffix:Obstructed".to_owned()),
                _ => Ok(false),
            };
            t.record_verdict("import_suffix", family, &label, wi, a, verdict, None);
            // evaluate_witnessed_suffix_admission on the shell alone (no bundle digest)
            let shell_changed = bd.source_suffix != bundle.source_suffix;
            if shell_changed {
                let resp = evaluate_witnessed_suffix_admission(
                    &WitnessedSuffixAdmissionRequest {
                        source_suffix: bd.source_suffix.clone(),
                        target_worldline_id: w,
                        target_basis,
                        basis_report: None,
                    },
                    &AdmitCtx { prov },
                );
                let verdict = match &resp.outcome {
                    WitnessedSuffixAdmissionOutcome::Obstructed { .. } => Err("evaluate_admission:Obstructed".to_owned()),
                    _ => Ok(false),
                };
                t.record_verdict("evaluate_witnessed_suffix_admission", family, &label, wi, a, verdict, None);
            }
        }
    }
}

fn plan(args: &Args) -> Vec<(u64, u64)> {
    let cases = args.by_tier(6u64, 160);
    let mut v = Vec::new();
    for c in 0..cases {
        for p in 0..PARTS {
            v.push((c, p));
        }
    }
    v
}

pub fn run(args: &Args) -> i32 {
    let mut rep = Report::new(
        args,
        "fault_enumeration",
        "Histories come from the real runtime (1-3 worldlines x 1-4 writer heads, forks, checkpoints, receipts with accepted and rejected candidates). \
         For every worldline and EVERY tick position every mutation operator is applied once (each hash: flip one bit / replace by another entry's value; tick +-1; worldline swap; \
         parents add/drop/reorder/retarget; every op: delete/duplicate/swap/alter each field; every in/out slot; every payload byte (<=24 bytes, else 8 positions); receipt entry edits; \
         header fields; outputs/atom writes; entry swap/duplicate/delete/truncate/cross-worldline transplant), every checkpoint field at every coordinate, every BTR and suffix-bundle field. \
         One case = (history, worldline, position, operator label, verification surface); it is non-trivial when the mutated material differs from the original (no-op mutants are skipped); distinct by that tuple.",
    );
    if let Some(path) = &args.replay {
        return replay(args, path, rep);
    }
    let shards = plan(args);
    // Panics inside probed verification code are caught and classified; keep stderr quiet.
    std::panic::set_hook(Box::new(|_| {}));
    let budget = Budget::for_tier(args.tier, 75.0, 1100.0);
    verif_core::run_shards(&mut rep, args.jobs, shards.len(), |i, rep| {
        let (case, part) = shards[i];
        if budget.expired() {
            rep.count("shards_skipped_by_budget", 1);
            return;
        }
        run_shard(rep, args, case, part, None);
        rep.count("shards_run", 1);
    });
    rep.set("shards_planned", json!(shards.len()));
    rep.set(
        "unbound_metadata_policy",
        Value::Object(UNBOUND_OK.iter().map(|(f, r)| ((*f).to_owned(), json!(r))).collect()),
    );
    rep.assumption("An alteration accepted with identical graph state, state_root, commit-id chain, parents and tick but different retained diagnostics is tallied (unbound_metadata_fields) only for the operator families listed in unbound_metadata_policy; any other accepted difference is a violation");
    rep.assumption("validate_btr / import_suffix have no materialised result: acceptance of any altered digest- or store-covered field is the violation there");
    rep.assumption("Suffix admission uses a harness-side WitnessedSuffixAdmissionContext that recomputes the shell digest with the repository's derive_witnessed_suffix_shell_digest and resolves bases against the real provenance");
    rep.finish(200)
}

fn replay(args: &Args, path: &std::path::Path, mut rep: Report) -> i32 {
    let Ok(text) = std::fs::read_to_string(path) else {
        println!("HARNESS-ERROR cannot read replay file");
        return 2;
    };
    let Ok(v) = serde_json::from_str::<Value>(&text) else {
        println!("HARNESS-ERROR replay file is not JSON");
        return 2;
    };
    let r = &v["replay"];
    let mut a = args.clone();
    a.seed = r["seed"].as_u64().unwrap_or(args.seed);
    if v["tier"].as_str() == Some("thorough") {
        a.tier = verif_core::Tier::Thorough;
    } else {
        a.tier = verif_core::Tier::Quick;
    }
    let case = r["case"].as_u64().unwrap_or(0);
    let part = r["part"].as_u64().unwrap_or(0);
    let surface = r["surface"].as_str().unwrap_or("").to_owned();
    let label = r["label"].as_str().unwrap_or("").to_owned();
    let entry_surface = surface.starts_with("rebuild") || surface.starts_with("tamper-store:seek") || surface.starts_with("tamper-store+checkpoints");
    println!("REPLAY case={case} part={part} surface={surface} label={label} worldline={} position={}", r["worldline"], r["position"]);
    let only = (entry_surface && r["operator"].as_str().is_some_and(|o| !o.starts_with("store.") && !o.starts_with("base.")))
        .then(|| (surface.as_str(), label.as_str(), r["worldline"].as_u64().unwrap_or(0), r["position"].as_u64().unwrap_or(0)));
    run_shard(&mut rep, &a, case, part, only);
    println!("REPLAY-RESULT violations={} (recorded signature: {})", rep.violations(), v["signature"].as_str().unwrap_or("?"));
    i32::from(rep.violations() > 0)
}
