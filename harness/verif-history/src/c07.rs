//! C07 — replay is path-independent.
//!
//! Oracles: (a) the live log recorded after every committed pass, (b) ground
//! replay = a reader cursor that only ever steps forward from tick 0 over a
//! provenance copy with no checkpoints.
//!
//! Lanes:
//!  * `matrix`  — histories of 3–8 ticks: EXHAUSTIVE over (start tick, target
//!    tick, checkpoint subset ⊆ 0..=N); fresh cursor per pair plus a reused
//!    cursor chain; `replay_worldline_state_at` for every t as third path.
//!  * `fork`    — fork at every tick (`ProvenanceService::fork` and
//!    `LocalProvenanceStore::fork`), same matrix on the fork, then both sides
//!    are continued with divergent live ticks and re-checked.
//!  * `long`    — histories of 20–200 ticks: random seek/step/PlaybackMode
//!    sequences, random checkpoint placements, fresh vs reused cursors.

use std::collections::BTreeMap;

use verif_core::{hex4, json, Args, Budget, Report, Rng, Value};
use warp_core::{
    CheckpointRef, CursorId, CursorRole, LocalProvenanceStore, PlaybackCursor, PlaybackMode,
    ProvenanceService, ProvenanceStore, ReplayCheckpoint, SeekError, SeekThen, StepResult,
    WorldlineId, WorldlineState, WorldlineTick,
};

use crate::abs::{fast_fp, observe, tx_counter_of, Obs};
use crate::guard::sut;
use crate::workload::{wl_id, Hist, LiveRec, Shape};

fn wt(t: u64) -> WorldlineTick {
    WorldlineTick::from_raw(t)
}

pub struct Ground {
    pub obs: Vec<Obs>,
    pub fp: Vec<u64>,
    pub states: Vec<WorldlineState>,
}

fn cursor(n: u64, w: WorldlineId, base: &WorldlineState, role: CursorRole, pin: u64) -> PlaybackCursor {
    let mut id = [0u8; 32];
    id[..8].copy_from_slice(&n.to_le_bytes());
    PlaybackCursor::new(CursorId(id), w, base.root().warp_id, role, base, wt(pin))
}

/// Copy of `prov` restricted to `wls` with every checkpoint dropped (entries
/// re-appended through the public append API).
pub fn strip(prov: &ProvenanceService, wls: &[(WorldlineId, &WorldlineState)]) -> Result<ProvenanceService, String> {
    let mut out = ProvenanceService::new();
    for (w, base) in wls {
        out.register_worldline(*w, base).map_err(|e| format!("strip register: {e:?}"))?;
    }
    for (w, _) in wls {
        let n = prov.len(*w).map_err(|e| format!("strip len: {e:?}"))?;
        for t in 0..n {
            let e = prov.entry(*w, wt(t)).map_err(|e| format!("strip entry: {e:?}"))?;
            out.append_local_commit(e).map_err(|e| format!("strip append: {e:?}"))?;
        }
    }
    Ok(out)
}

/// Oracle (b): forward-only stepping from tick 0, no checkpoints.
pub fn ground_replay(
    nockpt: &ProvenanceService,
    w: WorldlineId,
    base: &WorldlineState,
) -> Result<Ground, String> {
    let n = nockpt.len(w).map_err(|e| format!("{e:?}"))?;
    if nockpt.checkpoint_before(w, WorldlineTick::MAX).is_some() {
        return Err("ground provenance unexpectedly has checkpoints".into());
    }
    let mut c = cursor(0, w, base, CursorRole::Reader, n);
    let mut g = Ground {
        obs: Vec::new(),
        fp: Vec::new(),
        states: Vec::new(),
    };
    seek(&mut c, 0, nockpt, base).map_err(|e| format!("ground seek 0: {e:?}"))?;
    for t in 0..=n {
        if c.current_tick().as_u64() != t {
            return Err(format!("ground cursor at {} expected {t}", c.current_tick().as_u64()));
        }
        g.obs.push(observe(c.materialized_state(), true));
        g.fp.push(fast_fp(c.materialized_state()));
        g.states.push(c.materialized_state().clone());
        if t < n {
            c.mode = PlaybackMode::StepForward;
            match sut(|| c.step(nockpt, base)) {
                Ok(Ok(StepResult::Advanced)) => {}
                other => return Err(format!("ground step at {t}: {other:?}")),
            }
        }
    }
    Ok(g)
}

fn seek_err_name(e: &SeekError) -> &'static str {
    match e {
        SeekError::HistoryUnavailable { .. } => "HistoryUnavailable",
        SeekError::StateRootMismatch { .. } => "StateRootMismatch",
        SeekError::PatchDigestMismatch { .. } => "PatchDigestMismatch",
        SeekError::CommitHashMismatch { .. } => "CommitHashMismatch",
        SeekError::ReceiptMismatch { .. } => "ReceiptMismatch",
        SeekError::ApplyError { .. } => "ApplyError",
        SeekError::PinnedFrontierExceeded { .. } => "PinnedFrontierExceeded",
        SeekError::CheckpointStateRootMismatch { .. } => "CheckpointStateRootMismatch",
        SeekError::ReplayBaseWarpMismatch { .. } => "ReplayBaseWarpMismatch",
        SeekError::InitialBoundaryHashMismatch { .. } => "InitialBoundaryHashMismatch",
    }
}


/// `seek_to` with panics of the code under test turned into a typed outcome.
fn seek<P: ProvenanceStore>(c: &mut PlaybackCursor, t: u64, prov: &P, base: &WorldlineState) -> Result<(), SeekOutcome> {
    match sut(|| c.seek_to(wt(t), prov, base)) {
        Ok(Ok(())) => Ok(()),
        Ok(Err(e)) => Err(SeekOutcome::Typed(e)),
        Err(p) => Err(SeekOutcome::Panic(p)),
    }
}

#[derive(Debug)]
#[allow(dead_code)] // payloads are rendered through Debug in violation messages
enum SeekOutcome {
    Typed(SeekError),
    Panic(String),
}

impl SeekOutcome {
    fn sig(&self) -> String {
        match self {
            Self::Typed(e) => format!("error:{}", seek_err_name(e)),
            Self::Panic(_) => "panic".to_owned(),
        }
    }
}

/// Compare one materialised state with ground truth at `tick`.
fn check_state(
    rep: &mut Report,
    lane: &str,
    st: &WorldlineState,
    tick: u64,
    g: &Ground,
    sample_tx: bool,
    info: &dyn Fn() -> Value,
) -> bool {
    let Some(gobs) = g.obs.get(tick as usize) else {
        rep.inconclusive("harness: ground has no observation for landing tick");
        return false;
    };
    let mut ok = true;
    if fast_fp(st) != g.fp[tick as usize] {
        ok = false;
        let o = observe(st, true);
        let (what, detail) = if let Some((w, d)) = gobs.core_diff(&o) {
            (w.to_owned(), d)
        } else if let Some((w, d)) = gobs.meta_diff(&o) {
            (format!("meta:{w}"), d)
        } else {
            ("fingerprint".to_owned(), "fingerprints differ, no field diff found".to_owned())
        };
        rep.violation(
            &format!("C07:{lane}:{what}"),
            &format!("state at tick {tick} differs from ground replay (ground vs path): {detail}"),
            info(),
        );
    } else if sample_tx {
        let a = tx_counter_of(st);
        if a.is_none() || gobs.tx_counter.is_none() {
            rep.count("tx_counter_unobservable", 1);
        } else if a != gobs.tx_counter {
            ok = false;
            rep.violation(
                &format!("C07:{lane}:tx-counter"),
                &format!("tx_counter {a:?} vs ground {:?} at tick {tick}", gobs.tx_counter),
                info(),
            );
        } else {
            rep.count("tx_counter_compared", 1);
        }
    }
    ok
}

/// Oracle (a) vs oracle (b): ground replay must equal the live log.
fn check_ground_vs_live(rep: &mut Report, lane: &str, g: &Ground, live: &[LiveRec], info: &dyn Fn() -> Value) {
    if live.len() != g.obs.len() {
        rep.violation(
            &format!("C07:{lane}:live-length"),
            &format!("live log has {} coordinates, ground replay {}", live.len(), g.obs.len()),
            info(),
        );
        return;
    }
    for (t, (l, o)) in live.iter().zip(&g.obs).enumerate() {
        rep.count("live_ticks_compared", 1);
        if l.state_root != o.state_root {
            rep.violation(
                &format!("C07:{lane}:live:state-root"),
                &format!("tick {t}: live state_root {} vs replay {}", hex4(&l.state_root), hex4(&o.state_root)),
                info(),
            );
        }
        if l.commit_hash != o.tip_commit() {
            rep.violation(
                &format!("C07:{lane}:live:commit-id"),
                &format!("tick {t}: live commit {:?} vs replay {:?}", l.commit_hash.map(|h| hex4(&h)), o.tip_commit().map(|h| hex4(&h))),
                info(),
            );
        }
        if let Some(lo) = &l.obs {
            rep.count("live_states_compared", 1);
            // committed_ingress is never observed; tx_counter is compared.
            if let Some((what, d)) = lo.core_diff(o) {
                rep.violation(
                    &format!("C07:{lane}:live:{what}"),
                    &format!("tick {t}: live runtime state vs ground replay: {d}"),
                    info(),
                );
            } else if let Some((what, _)) = lo.meta_diff(o) {
                // Not part of "state and hashes"; recorded as an observation.
                rep.observe("live_vs_replay_metadata_differences", what);
            }
        }
    }
}

#[derive(Clone, Copy, PartialEq, Eq)]
enum CkSrc {
    Replayed,
    Live,
}

/// Install a checkpoint at `t` built from the ground-replay state or from the
/// recorded live frontier state.
fn install_ckpt(
    prov: &mut ProvenanceService,
    w: WorldlineId,
    t: u64,
    g: &Ground,
    live: &[LiveRec],
    src: CkSrc,
) -> Result<CkSrc, String> {
    let live_state = live.get(t as usize).and_then(|l| l.state.as_ref());
    match (src, live_state) {
        (CkSrc::Live, Some(st)) => {
            sut(|| prov.checkpoint(w, st))
                .map_err(|p| format!("checkpoint(live@{t}) PANIC: {p}"))?
                .map_err(|e| format!("checkpoint(live@{t}): {e:?}"))?;
            Ok(CkSrc::Live)
        }
        _ => {
            let st = &g.states[t as usize];
            let ck = ReplayCheckpoint {
                checkpoint: CheckpointRef {
                    worldline_tick: wt(t),
                    state_hash: st.state_root(),
                },
                state: st.clone(),
            };
            sut(|| prov.add_checkpoint(w, ck))
                .map_err(|p| format!("add_checkpoint(replayed@{t}) PANIC: {p}"))?
                .map_err(|e| format!("add_checkpoint(replayed@{t}): {e:?}"))?;
            Ok(CkSrc::Replayed)
        }
    }
}

/// Checkpoint ticks visible through the public trait (probing).
fn ckpt_ticks<P: ProvenanceStore>(p: &P, w: WorldlineId, upto: u64) -> Vec<u64> {
    let mut out = Vec::new();
    let mut probe = upto + 2;
    while let Some(c) = p.checkpoint_before(w, wt(probe)) {
        out.push(c.worldline_tick.as_u64());
        probe = c.worldline_tick.as_u64();
        if probe == 0 {
            break;
        }
    }
    out.reverse();
    out
}

struct MatrixStats {
    seeks: u64,
    triples: u64,
    replay_at: u64,
}

/// All (start, target) pairs over coordinates `0..=n` on `prov` (which carries
/// some checkpoint subset): fresh cursor per pair, optional reused-cursor
/// chain, and `replay_at` for every t (third path).
#[allow(clippy::too_many_arguments)]
fn seek_matrix<P: ProvenanceStore>(
    rep: &mut Report,
    lane: &str,
    prov: &P,
    replay_at: Option<&ProvenanceService>,
    w: WorldlineId,
    base: &WorldlineState,
    seek_base: &WorldlineState,
    n: u64,
    g: &Ground,
    chain: bool,
    tx_every: u64,
    info: &dyn Fn(u64, u64, &str) -> Value,
) -> MatrixStats {
    let mut st = MatrixStats {
        seeks: 0,
        triples: 0,
        replay_at: 0,
    };
    let mut k = 0u64;
    if let Some(svc) = replay_at {
        for t in 0..=n {
            st.replay_at += 1;
            match sut(|| svc.replay_worldline_state_at(w, seek_base, wt(t))).map_err(|p| format!("PANIC {p}")).and_then(|r| r.map_err(|e| format!("{e:?}"))) {
                Ok(s) => {
                    check_state(rep, &format!("{lane}:replay-at"), &s, t, g, true, &|| info(t, t, "replay_worldline_state_at"));
                }
                Err(e) => rep.violation(
                    &format!("C07:{lane}:replay-at:error"),
                    &format!("replay_worldline_state_at({t}) failed on authentic history: {e}"),
                    info(t, t, "replay_worldline_state_at"),
                ),
            }
        }
    }
    for start in 0..=n {
        for target in 0..=n {
            st.triples += 1;
            k += 1;
            let mut c = cursor(k, w, base, CursorRole::Reader, n);
            let mut ok = true;
            for (leg, to) in [("start", start), ("target", target)] {
                st.seeks += 1;
                match seek(&mut c, to, prov, seek_base) {
                    Ok(()) => {
                        if c.current_tick().as_u64() != to {
                            rep.violation(
                                &format!("C07:{lane}:cursor-tick"),
                                &format!("seek_to({to}) left cursor at {}", c.current_tick().as_u64()),
                                info(start, target, leg),
                            );
                            ok = false;
                            break;
                        }
                        let sample = tx_every > 0 && k % tx_every == 0;
                        if !check_state(rep, lane, c.materialized_state(), to, g, sample, &|| info(start, target, leg)) {
                            ok = false;
                            break;
                        }
                    }
                    Err(e) => {
                        rep.violation(
                            &format!("C07:{lane}:{}", e.sig()),
                            &format!("seek_to({to}) from {} failed on authentic history: {e:?}", c.current_tick().as_u64()),
                            info(start, target, leg),
                        );
                        ok = false;
                        break;
                    }
                }
            }
            if !ok {
                continue;
            }
        }
    }
    if chain {
        // Reused cursor: start → t → start → t' → ... (stale cursor state must
        // never leak into a later landing).
        for start in 0..=n {
            let mut c = cursor(1_000_000 + start, w, base, CursorRole::Reader, n);
            let mut seq = vec![start];
            for t in 0..=n {
                seq.push(t);
                seq.push(start);
            }
            for to in seq {
                st.seeks += 1;
                match seek(&mut c, to, prov, seek_base) {
                    Ok(()) => {
                        if !check_state(rep, &format!("{lane}:reused"), c.materialized_state(), to, g, false, &|| info(start, to, "reused-chain")) {
                            break;
                        }
                    }
                    Err(e) => {
                        rep.violation(
                            &format!("C07:{lane}:reused:{}", e.sig()),
                            &format!("reused cursor seek_to({to}) failed: {e:?}"),
                            info(start, to, "reused-chain"),
                        );
                        break;
                    }
                }
            }
        }
    }
    st
}

// ---------------------------------------------------------------------------
// Plans
// ---------------------------------------------------------------------------

#[derive(Debug, Clone)]
pub struct Shard {
    pub lane: &'static str,
    pub case: u64,
    pub part: u64,
    pub parts: u64,
    pub ticks: u64,
}

fn plan(args: &Args) -> Vec<Shard> {
    let mut v = Vec::new();
    // matrix: N cycles through 3..=8
    let n_matrix = args.by_tier(16u64, 60);
    for case in 0..n_matrix {
        let ticks = [3, 5, 4, 6, 8, 7, 5, 6][(case % 8) as usize];
        let parts = match ticks {
            8 => 8,
            7 => 4,
            6 => 2,
            _ => 1,
        };
        for part in 0..parts {
            v.push(Shard {
                lane: "matrix",
                case,
                part,
                parts,
                ticks,
            });
        }
    }
    let n_fork = args.by_tier(12u64, 48);
    for case in 0..n_fork {
        let ticks = [3, 4, 5, 6, 4, 5][(case % 6) as usize];
        v.push(Shard {
            lane: "fork",
            case,
            part: 0,
            parts: 1,
            ticks,
        });
    }
    let n_long = args.by_tier(12u64, 48);
    for case in 0..n_long {
        let ticks = if args.is_quick() {
            [20, 28, 36, 48, 60, 24][(case % 6) as usize]
        } else {
            [20, 40, 60, 90, 120, 150, 200, 30][(case % 8) as usize]
        };
        v.push(Shard {
            lane: "long",
            case,
            part: 0,
            parts: 1,
            ticks,
        });
    }
    v
}

fn build_history(seed: u64, lane: &str, case: u64, ticks: u64) -> Result<(Hist, Rng), String> {
    let mut rng = Rng::for_case(seed, &format!("C07/{lane}"), case);
    let shape = Shape {
        worldlines: rng.range_usize(1, 3),
        max_heads: 4,
        target_ticks: ticks,
        twin_initial: rng.chance(1, 3),
    };
    let mut h = Hist::new(&mut rng, shape);
    h.run_to(&mut rng, ticks)?;
    Ok((h, rng))
}

fn run_shard(rep: &mut Report, args: &Args, sh: &Shard) {
    let (h, rng) = match build_history(args.seed, sh.lane, sh.case, sh.ticks) {
        Ok(x) => x,
        Err(e) => {
            rep.inconclusive(&format!("harness: history generation failed: {e}"));
            return;
        }
    };
    match sh.lane {
        "matrix" => lane_matrix(rep, args, sh, &h),
        "fork" => lane_fork(rep, args, sh, &h, rng),
        _ => lane_long(rep, args, sh, &h, rng),
    }
}

fn bases(h: &Hist) -> Vec<(WorldlineId, &WorldlineState)> {
    h.wls.iter().map(|w| (w.id, &w.base)).collect()
}

fn lane_matrix(rep: &mut Report, args: &Args, sh: &Shard, h: &Hist) {
    let nock = match strip(&h.prov, &bases(h)) {
        Ok(p) => p,
        Err(e) => {
            rep.inconclusive(&format!("harness: {e}"));
            return;
        }
    };
    if sh.part == 0 {
        rep.count("matrix_histories", 1);
        rep.eval();
        if rep.wants_sample() {
            rep.sample(json!({"lane": "matrix", "case": sh.case, "history": h.describe()}));
        }
    }
    for (wi, wl) in h.wls.iter().enumerate() {
        let n = h.len(wl.id);
        let g = match ground_replay(&nock, wl.id, &wl.base) {
            Ok(g) => g,
            Err(e) => {
                rep.violation(
                    "C07:matrix:ground-replay-error",
                    &format!("forward-only replay of authentic history failed: {e}"),
                    json!({"seed": args.seed, "lane": "matrix", "case": sh.case, "part": sh.part, "ticks": sh.ticks, "worldline": wi}),
                );
                continue;
            }
        };
        let live = &h.live[&wl.id];
        let info0 = || json!({"seed": args.seed, "lane": "matrix", "case": sh.case, "part": sh.part, "ticks": sh.ticks, "worldline": wi});
        if sh.part == 0 {
            check_ground_vs_live(rep, "matrix", &g, live, &info0);
            rep.count("matrix_worldlines", 1);
            rep.count("matrix_ticks", n);
        }
        let subsets = 1u64 << (n + 1);
        let live_base = live.last().and_then(|l| l.state.clone());
        for subset in 0..subsets {
            if subset % sh.parts != sh.part {
                continue;
            }
            let mut prov = nock.clone();
            let mut installed = Vec::new();
            let mut fail = None;
            for t in 0..=n {
                if (subset >> t) & 1 == 1 {
                    let src = if (subset + t) % 2 == 0 { CkSrc::Live } else { CkSrc::Replayed };
                    match install_ckpt(&mut prov, wl.id, t, &g, live, src) {
                        Ok(s) => {
                            installed.push(t);
                            rep.count(if s == CkSrc::Live { "checkpoints_from_live_state" } else { "checkpoints_from_replayed_state" }, 1);
                        }
                        Err(e) => {
                            fail = Some(e);
                            break;
                        }
                    }
                }
            }
            if let Some(e) = fail {
                rep.violation(
                    "C07:matrix:authentic-checkpoint-rejected",
                    &format!("installing an authentic checkpoint failed: {e}"),
                    json!({"seed": args.seed, "lane": "matrix", "case": sh.case, "part": sh.part, "ticks": sh.ticks, "worldline": wi, "subset": subset}),
                );
                continue;
            }
            if ckpt_ticks(&prov, wl.id, n) != installed {
                rep.inconclusive("harness: installed checkpoint set not observable via checkpoint_before");
            }
            // Alternate the replay base handed to seek/replay: U0 or the live
            // (advanced) frontier state — both name the same initial boundary.
            let seek_base = match (&live_base, subset % 3 == 2) {
                (Some(lb), true) => lb,
                _ => &wl.base,
            };
            let info = |s: u64, t: u64, leg: &str| {
                json!({"seed": args.seed, "lane": "matrix", "case": sh.case, "part": sh.part, "ticks": sh.ticks,
                        "worldline": wi, "subset": subset, "checkpoints": installed, "start": s, "target": t, "leg": leg})
            };
            let stats = seek_matrix(
                rep,
                "matrix",
                &prov,
                Some(&prov),
                wl.id,
                &wl.base,
                seek_base,
                n,
                &g,
                subset % 4 == 1,
                7,
                &info,
            );
            rep.count("matrix_seeks", stats.seeks);
            rep.count("matrix_triples_start_target_subset", stats.triples);
            rep.count("matrix_checkpoint_subsets", 1);
            rep.count("replay_worldline_state_at_calls", stats.replay_at);
            rep.evals(stats.triples);
            // non-trivial = a real move (start ≠ target); distinct by construction
            rep.nontrivial_enumerated(stats.triples - (n + 1));
        }
    }
}

fn lane_fork(rep: &mut Report, args: &Args, sh: &Shard, h: &Hist, mut rng: Rng) {
    let nock = match strip(&h.prov, &bases(h)) {
        Ok(p) => p,
        Err(e) => {
            rep.inconclusive(&format!("harness: {e}"));
            return;
        }
    };
    rep.count("fork_histories", 1);
    rep.eval();
    if rep.wants_sample() {
        rep.sample(json!({"lane": "fork", "case": sh.case, "history": h.describe()}));
    }
    let wi = 0usize;
    let wl = &h.wls[wi];
    let n = h.len(wl.id);
    let g = match ground_replay(&nock, wl.id, &wl.base) {
        Ok(g) => g,
        Err(e) => {
            rep.violation(
                "C07:fork:ground-replay-error",
                &format!("forward-only replay of authentic history failed: {e}"),
                json!({"seed": args.seed, "lane": "fork", "case": sh.case, "ticks": sh.ticks}),
            );
            return;
        }
    };
    let live = &h.live[&wl.id];
    let subsets = 1u64 << (n + 1);
    let u0 = h.prov.u0(wl.id).expect("u0");
    let boundary = ProvenanceStore::initial_boundary_hash(&h.prov, wl.id).expect("boundary");
    for f in 0..n {
        // ---- seek matrix on the fork, for every checkpoint subset of the source
        for subset in 0..subsets {
            // thorough: all subsets; quick: all subsets for n ≤ 4, else every 3rd (+ full and empty)
            if args.is_quick() && n > 4 && !(subset % 3 == f % 3 || subset == subsets - 1) {
                continue;
            }
            let mut prov = nock.clone();
            let mut installed = Vec::new();
            for t in 0..=n {
                if (subset >> t) & 1 == 1 {
                    let src = if (subset + t) % 2 == 1 { CkSrc::Live } else { CkSrc::Replayed };
                    if let Err(e) = install_ckpt(&mut prov, wl.id, t, &g, live, src) {
                        rep.violation(
                            "C07:fork:authentic-checkpoint-rejected",
                            &e,
                            json!({"seed": args.seed, "lane": "fork", "case": sh.case, "ticks": sh.ticks, "subset": subset}),
                        );
                    } else {
                        installed.push(t);
                    }
                }
            }
            let child = wl_id(100 + f as u8);
            let info = |s: u64, t: u64, leg: &str| {
                json!({"seed": args.seed, "lane": "fork", "case": sh.case, "ticks": sh.ticks, "fork_tick": f,
                        "subset": subset, "checkpoints": installed, "start": s, "target": t, "leg": leg})
            };
            let use_local = subset % 2 == 1;
            if use_local {
                // LocalProvenanceStore::fork
                let mut local = LocalProvenanceStore::new();
                let mut ok = local.register_worldline_with_boundary(wl.id, u0, boundary).is_ok();
                for t in 0..n {
                    ok &= prov
                        .entry(wl.id, wt(t))
                        .ok()
                        .and_then(|e| local.append_local_commit(e).ok())
                        .is_some();
                }
                for t in &installed {
                    ok &= local
                        .add_checkpoint(wl.id, ReplayCheckpoint::from_state(&g.states[*t as usize]))
                        .is_ok();
                }
                if !ok {
                    rep.inconclusive("harness: could not mirror history into LocalProvenanceStore");
                    continue;
                }
                if let Err(e) = local.fork(wl.id, wt(f), child) {
                    rep.violation("C07:fork:fork-error", &format!("LocalProvenanceStore::fork({f}) failed: {e:?}"), info(0, 0, "fork"));
                    continue;
                }
                rep.count("forks_local_store", 1);
                let copied = ckpt_ticks(&local, child, n);
                rep.count("fork_checkpoints_copied", copied.len() as u64);
                let st = seek_matrix(rep, "fork-matrix", &local, None, child, &wl.base, &wl.base, f + 1, &g, false, 11, &info);
                rep.count("fork_seeks", st.seeks);
                rep.count("fork_triples", st.triples);
                rep.evals(st.triples);
                rep.nontrivial_enumerated(st.triples - (f + 2));
            } else {
                if let Err(e) = prov.fork(wl.id, wt(f), child) {
                    rep.violation("C07:fork:fork-error", &format!("ProvenanceService::fork({f}) failed: {e:?}"), info(0, 0, "fork"));
                    continue;
                }
                rep.count("forks_service", 1);
                let copied = ckpt_ticks(&prov, child, n);
                rep.count("fork_checkpoints_copied", copied.len() as u64);
                let st = seek_matrix(rep, "fork-matrix", &prov, Some(&prov), child, &wl.base, &wl.base, f + 1, &g, subset % 4 == 0, 11, &info);
                rep.count("fork_seeks", st.seeks);
                rep.count("fork_triples", st.triples);
                rep.count("replay_worldline_state_at_calls", st.replay_at);
                rep.evals(st.triples);
                rep.nontrivial_enumerated(st.triples - (f + 2));
            }
        }

        // ---- continue both sides with divergent live ticks, re-check both
        for variant in 0..2u64 {
            let mut world = h.fork_world();
            // checkpoints on the source before forking: all ticks / random subset
            let mask = if variant == 0 { (1u64 << (n + 1)) - 1 } else { rng.below(1u64 << (n + 1)) };
            let mut failed = false;
            for t in 0..=n {
                if (mask >> t) & 1 == 1 {
                    let src = if rng.chance(1, 2) { CkSrc::Live } else { CkSrc::Replayed };
                    if let Err(e) = install_ckpt(&mut world.prov, wl.id, t, &g, live, src) {
                        rep.violation("C07:fork-continue:authentic-checkpoint-rejected", &e, json!({"seed": args.seed, "lane": "fork", "case": sh.case, "ticks": sh.ticks, "fork_tick": f}));
                        failed = true;
                    }
                }
            }
            if failed {
                continue;
            }
            let child = wl_id(200 + f as u8);
            if let Err(e) = world.prov.fork(wl.id, wt(f), child) {
                rep.violation("C07:fork-continue:fork-error", &format!("{e:?}"), json!({"seed": args.seed, "lane": "fork", "case": sh.case, "ticks": sh.ticks, "fork_tick": f}));
                continue;
            }
            if let Err(e) = world.adopt_fork(wl.id, child, f, 1 + (f as usize % 2)) {
                rep.violation(
                    "C07:fork-continue:child-frontier-error",
                    &format!("materialising the fork child at its tip failed on authentic history: {e}"),
                    json!({"seed": args.seed, "lane": "fork", "case": sh.case, "ticks": sh.ticks, "fork_tick": f, "variant": variant}),
                );
                continue;
            }
            let extra = 2 + variant;
            let mut caps: BTreeMap<WorldlineId, u64> = BTreeMap::new();
            caps.insert(wl.id, n + extra);
            caps.insert(child, f + 1 + extra);
            let mut guard = 0;
            let mut err = None;
            while (world.len(wl.id) < n + extra || world.len(child) < f + 1 + extra) && guard < 12 {
                if let Err(e) = world.pass(&mut rng, &caps) {
                    err = Some(e);
                    break;
                }
                guard += 1;
            }
            if let Some(e) = err {
                rep.inconclusive(&format!("fork-continue: live pass failed after fork: {}", e.chars().take(160).collect::<String>()));
                continue;
            }
            rep.count("fork_continuations", 1);
            rep.count("fork_continuation_ticks", world.len(wl.id) - n + world.len(child) - (f + 1));
            let all: Vec<(WorldlineId, &WorldlineState)> = world.wls.iter().map(|w| (w.id, &w.base)).collect();
            let nock2 = match strip(&world.prov, &all) {
                Ok(p) => p,
                Err(e) => {
                    rep.inconclusive(&format!("harness: {e}"));
                    continue;
                }
            };
            for side in [wl.id, child] {
                let n2 = world.len(side);
                let info = |s: u64, t: u64, leg: &str| {
                    json!({"seed": args.seed, "lane": "fork", "case": sh.case, "ticks": sh.ticks, "fork_tick": f, "variant": variant,
                            "side": if side == child { "child" } else { "source" }, "checkpoint_mask": mask, "start": s, "target": t, "leg": leg})
                };
                let g2 = match ground_replay(&nock2, side, &wl.base) {
                    Ok(g) => g,
                    Err(e) => {
                        rep.violation("C07:fork-continue:ground-replay-error", &e, info(0, 0, "ground"));
                        continue;
                    }
                };
                check_ground_vs_live(rep, "fork-continue", &g2, &world.live[&side], &|| info(0, 0, "live"));
                let st = seek_matrix(rep, "fork-continue", &world.prov, Some(&world.prov), side, &wl.base, &wl.base, n2, &g2, variant == 0, 5, &info);
                rep.count("fork_continue_seeks", st.seeks);
                rep.count("fork_triples", st.triples);
                rep.count("replay_worldline_state_at_calls", st.replay_at);
                rep.evals(st.triples);
                rep.nontrivial_enumerated(st.triples - (n2 + 1));
            }
        }
    }
}

fn lane_long(rep: &mut Report, args: &Args, sh: &Shard, h: &Hist, mut rng: Rng) {
    let nock = match strip(&h.prov, &bases(h)) {
        Ok(p) => p,
        Err(e) => {
            rep.inconclusive(&format!("harness: {e}"));
            return;
        }
    };
    rep.count("long_histories", 1);
    rep.eval();
    if rep.wants_sample() {
        rep.sample(json!({"lane": "long", "case": sh.case, "history": h.describe()}));
    }
    let budget = Budget::for_tier(args.tier, 25.0, 240.0);
    for (wi, wl) in h.wls.iter().enumerate() {
        let n = h.len(wl.id);
        let info0 = || json!({"seed": args.seed, "lane": "long", "case": sh.case, "ticks": sh.ticks, "worldline": wi});
        let g = match ground_replay(&nock, wl.id, &wl.base) {
            Ok(g) => g,
            Err(e) => {
                rep.violation("C07:long:ground-replay-error", &e, info0());
                continue;
            }
        };
        let live = &h.live[&wl.id];
        check_ground_vs_live(rep, "long", &g, live, &info0);
        rep.count("long_ticks", n);
        let mut prov = nock.clone();
        let mut pool: Vec<PlaybackCursor> = Vec::new();
        let mut trace: Vec<String> = Vec::new();
        let ops = args.by_tier(260u64, 1500);
        let mut next_cursor = 0u64;
        for opi in 0..ops {
            if budget.expired() {
                rep.count("long_ops_cut_by_budget", ops - opi);
                break;
            }
            // checkpoint placement
            if rng.chance(1, 6) {
                let t = rng.below(n + 1);
                let src = if rng.chance(1, 2) { CkSrc::Live } else { CkSrc::Replayed };
                match install_ckpt(&mut prov, wl.id, t, &g, live, src) {
                    Ok(s) => {
                        rep.count(if s == CkSrc::Live { "checkpoints_from_live_state" } else { "checkpoints_from_replayed_state" }, 1);
                        trace.push(format!("ckpt@{t}"));
                    }
                    Err(e) => rep.violation("C07:long:authentic-checkpoint-rejected", &e, json!({"seed": args.seed, "lane": "long", "case": sh.case, "ticks": sh.ticks, "worldline": wi, "trace": trace})),
                }
            }
            // cursor choice: fresh vs reused
            let fresh = pool.is_empty() || rng.chance(1, 5);
            let mut fresh_idx = 0usize;
            if fresh {
                next_cursor += 1;
                let role = if rng.chance(1, 6) { CursorRole::Writer } else { CursorRole::Reader };
                let pin = match rng.below(8) {
                    0 | 1 => rng.below(n + 1),
                    2 => n + 3,
                    _ => n,
                };
                let c = cursor(next_cursor, wl.id, &wl.base, role, pin);
                trace.push(format!("new#{next_cursor}(pin{pin},{role:?})"));
                if pool.len() >= 4 {
                    fresh_idx = rng.below_usize(pool.len());
                    pool[fresh_idx] = c;
                } else {
                    pool.push(c);
                    fresh_idx = pool.len() - 1;
                }
                rep.count("long_cursors_fresh", 1);
            } else {
                rep.count("long_cursor_reuses", 1);
            }
            let ci = if fresh { fresh_idx } else { rng.below_usize(pool.len()) };
            let c = &mut pool[ci];
            let before = c.current_tick().as_u64();
            let pin = c.pin_max_tick.as_u64();
            let seek_base = match (live.last().and_then(|l| l.state.as_ref()), rng.chance(1, 4)) {
                (Some(lb), true) => lb,
                _ => &wl.base,
            };
            let kind = rng.below(9);
            let (label, expect): (String, Option<u64>) = match kind {
                0 | 1 => {
                    let t = rng.below(n + 2);
                    let lab = format!("seek{t}");
                    let res = match sut(|| c.seek_to(wt(t), &prov, seek_base)) {
                        Ok(r) => r,
                        Err(p) => {
                            rep.violation("C07:long:panic", &format!("seek_to({t}) from {before} panicked: {p}"), json!({"seed": args.seed, "lane": "long", "case": sh.case, "ticks": sh.ticks, "worldline": wi, "trace": trace}));
                            pool.remove(ci);
                            continue;
                        }
                    };
                    match res {
                        Ok(()) if t <= pin && t <= n => (lab, Some(t)),
                        Ok(()) => {
                            rep.violation("C07:long:seek-beyond-bound-accepted", &format!("seek_to({t}) succeeded with pin {pin}, len {n}"), json!({"seed": args.seed, "lane": "long", "case": sh.case, "ticks": sh.ticks, "worldline": wi, "trace": trace}));
                            (lab, None)
                        }
                        Err(SeekError::PinnedFrontierExceeded { .. }) if t > pin => {
                            rep.observe("typed_errors", "PinnedFrontierExceeded");
                            (lab, Some(before))
                        }
                        Err(SeekError::HistoryUnavailable { .. }) if t > n => {
                            rep.observe("typed_errors", "HistoryUnavailable");
                            (lab, Some(before))
                        }
                        Err(e) => {
                            rep.violation(&format!("C07:long:error:{}", seek_err_name(&e)), &format!("seek_to({t}) from {before}: {e:?}"), json!({"seed": args.seed, "lane": "long", "case": sh.case, "ticks": sh.ticks, "worldline": wi, "trace": trace}));
                            (lab, None)
                        }
                    }
                }
                _ => {
                    let mode = match kind {
                        2 => PlaybackMode::StepForward,
                        3 => PlaybackMode::StepBack,
                        4 => PlaybackMode::Play,
                        5 => PlaybackMode::Paused,
                        6 => PlaybackMode::Seek { target: wt(rng.below(pin.min(n) + 1)), then: SeekThen::Pause },
                        7 => PlaybackMode::Seek { target: wt(rng.below(pin.min(n) + 1)), then: SeekThen::Play },
                        _ => c.mode,
                    };
                    c.mode = mode;
                    let steps = if matches!(mode, PlaybackMode::Play) { rng.range(1, 4) } else { 1 };
                    let mut exp = before;
                    let mut lab = format!("{mode:?}x{steps}");
                    lab.retain(|ch| !ch.is_whitespace());
                    let mut bad = false;
                    for _ in 0..steps {
                        let m = c.mode;
                        let reader = c.role == CursorRole::Reader;
                        let r = match sut(|| c.step(&prov, seek_base)) {
                            Ok(r) => r,
                            Err(p) => {
                                rep.violation("C07:long:panic", &format!("step in mode {m:?} at {exp} panicked: {p}"), json!({"seed": args.seed, "lane": "long", "case": sh.case, "ticks": sh.ticks, "worldline": wi, "trace": trace}));
                                bad = true;
                                break;
                            }
                        };
                        rep.observe("playback_modes_stepped", &format!("{m:?}").split(['{', '(', ' ']).next().unwrap_or("?").to_owned());
                        let want = match m {
                            PlaybackMode::Paused => exp,
                            PlaybackMode::Play | PlaybackMode::StepForward => {
                                if reader && exp < pin.min(n) { exp + 1 } else { exp }
                            }
                            PlaybackMode::StepBack => exp.saturating_sub(1),
                            PlaybackMode::Seek { target, .. } => target.as_u64(),
                        };
                        match r {
                            Ok(sr) => {
                                rep.observe("step_results", &format!("{sr:?}"));
                                exp = want;
                            }
                            Err(SeekError::HistoryUnavailable { .. }) if reader && matches!(m, PlaybackMode::Play | PlaybackMode::StepForward) && exp >= n => {
                                rep.observe("typed_errors", "HistoryUnavailable");
                            }
                            Err(e) => {
                                rep.violation(&format!("C07:long:step-error:{}", seek_err_name(&e)), &format!("step in mode {m:?} at {exp}: {e:?}"), json!({"seed": args.seed, "lane": "long", "case": sh.case, "ticks": sh.ticks, "worldline": wi, "trace": trace}));
                                bad = true;
                                break;
                            }
                        }
                    }
                    (lab, if bad { None } else { Some(exp) })
                }
            };
            trace.push(format!("c{ci}:{label}"));
            if trace.len() > 60 {
                trace.remove(0);
            }
            rep.count("long_ops", 1);
            rep.evals(1);
            let Some(exp) = expect else {
                pool.remove(ci);
                continue;
            };
            let c = &pool[ci];
            let at = c.current_tick().as_u64();
            let tr = trace.clone();
            let info = || json!({"seed": args.seed, "lane": "long", "case": sh.case, "ticks": sh.ticks, "worldline": wi, "trace": tr, "cursor_tick": at, "expected_tick": exp});
            if at != exp {
                rep.violation("C07:long:cursor-tick", &format!("cursor at {at}, expected {exp} after {label}"), info());
                pool.remove(ci);
                continue;
            }
            if !check_state(rep, "long", c.materialized_state(), at, &g, opi % 3 == 0, &info) {
                pool.remove(ci);
                continue;
            }
            if at != before {
                rep.nontrivial(&[&sh.case.to_le_bytes()[..], &(wi as u64).to_le_bytes()[..], &opi.to_le_bytes()[..], b"long"].concat());
            }
            // third path now and then
            if rng.chance(1, 8) {
                let t = rng.below(n + 1);
                rep.count("replay_worldline_state_at_calls", 1);
                match sut(|| prov.replay_worldline_state_at(wl.id, seek_base, wt(t))).map_err(|p| format!("PANIC {p}")).and_then(|r| r.map_err(|e| format!("{e:?}"))) {
                    Ok(s) => {
                        check_state(rep, "long:replay-at", &s, t, &g, true, &info);
                    }
                    Err(e) => rep.violation("C07:long:replay-at:error", &format!("replay_worldline_state_at({t}): {e}"), info()),
                }
            }
            // fork at a random tick and probe the child with a few seeks
            if n > 0 && rng.chance(1, 25) {
                let f = rng.below(n);
                let child = wl_id(150);
                let mut p2 = prov.clone();
                match p2.fork(wl.id, wt(f), child) {
                    Ok(()) => {
                        rep.count("forks_service", 1);
                        let mut cc = cursor(9_000_000 + opi, child, &wl.base, CursorRole::Reader, f + 1);
                        for _ in 0..6 {
                            let t = rng.below(f + 2);
                            match seek(&mut cc, t, &p2, &wl.base) {
                                Ok(()) => {
                                    rep.count("fork_seeks", 1);
                                    check_state(rep, "long:fork", cc.materialized_state(), t, &g, false, &info);
                                }
                                Err(e) => {
                                    rep.violation(&format!("C07:long:fork:{}", e.sig()), &format!("fork child seek_to({t}): {e:?}"), info());
                                    break;
                                }
                            }
                        }
                    }
                    Err(e) => rep.violation("C07:long:fork-error", &format!("{e:?}"), info()),
                }
            }
        }
    }
}

pub fn run(args: &Args) -> i32 {
    let mut rep = Report::new(
        args,
        "exploration",
        "Histories are produced by the real runtime (1-3 worldlines x 1-4 writer heads, 3 native rules, random intents through ingest + super_tick). \
         matrix lane: for every worldline of every 3-8 tick history, EVERY (start tick, target tick, checkpoint subset of 0..=N) triple is enumerated; \
         a triple is one case, non-trivial iff start != target (distinct by construction). fork lane: fork at every tick x checkpoint subsets, same matrix on \
         the fork child, then both sides continued with divergent live ticks. long lane: 20-200 tick histories, one case = one random cursor operation \
         (seek/step/mode change/checkpoint placement, fresh or reused cursor), non-trivial iff the cursor moved. Every landing is compared with ground replay \
         (forward-only cursor, no checkpoints) and ground replay with the live log: abstract graph state, state_root, commit-id chain, tick, replay metadata.",
    );
    if let Some(path) = &args.replay {
        return replay(args, path, rep);
    }
    let shards = plan(args);
    crate::guard::quiet_panics();
    let budget = Budget::for_tier(args.tier, 70.0, 1000.0);
    let planned = shards.len();
    verif_core::run_shards(&mut rep, args.jobs, planned, |i, rep| {
        let sh = &shards[i];
        if budget.expired() {
            rep.count("shards_skipped_by_budget", 1);
            if sh.lane == "matrix" {
                rep.exhaustive(false);
            }
            return;
        }
        run_shard(rep, args, sh);
        if sh.lane == "matrix" {
            rep.exhaustive(true);
        }
        rep.count("shards_run", 1);
    });
    rep.set("shards_planned", json!(planned));
    rep.assumption("exhaustive=true refers to the matrix lane only: every (start,target,checkpoint-subset) triple of every generated 3-8 tick history was enumerated; histories themselves are sampled");
    rep.assumption("committed_ingress is never compared (intentionally empty in replayed states); tx_counter is read from the Debug rendering because no public getter exists");
    rep.finish(50)
}

fn replay(args: &Args, path: &std::path::Path, mut rep: Report) -> i32 {
    let Ok(text) = std::fs::read_to_string(path) else {
        println!("HARNESS-ERROR cannot read replay file");
        return 2;
    };
    let Ok(v) = serde_json::from_str::<Value>(&text) else {
        println!("HARNESS-ERROR replay file is not JSON");
        return 2;
    };
    let r = &v["replay"];
    let lane = match r["lane"].as_str() {
        Some("matrix") => "matrix",
        Some("fork") => "fork",
        Some("long") => "long",
        _ => {
            println!("HARNESS-ERROR replay file has no lane");
            return 2;
        }
    };
    let mut a = args.clone();
    a.seed = r["seed"].as_u64().unwrap_or(args.seed);
    let sh = Shard {
        lane,
        case: r["case"].as_u64().unwrap_or(0),
        part: r["part"].as_u64().unwrap_or(0),
        parts: plan(&a)
            .iter()
            .find(|s| s.lane == lane && s.case == r["case"].as_u64().unwrap_or(0))
            .map_or(1, |s| s.parts),
        ticks: r["ticks"].as_u64().unwrap_or(4),
    };
    println!("REPLAY lane={} case={} part={}/{} ticks={} seed={}", sh.lane, sh.case, sh.part, sh.parts, sh.ticks, a.seed);
    run_shard(&mut rep, &a, &sh);
    println!("REPLAY-RESULT violations={} (recorded signature: {})", rep.violations(), v["signature"].as_str().unwrap_or("?"));
    i32::from(rep.violations() > 0)
}
