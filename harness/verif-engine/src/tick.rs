//! Running one tick on the real engine and on the reference model.

use std::collections::BTreeMap;
use std::panic::{catch_unwind, AssertUnwindSafe};

use warp_core::{
    scope_hash, AttachmentKey, EngineBuilder, Footprint, FootprintViolation,
    FootprintViolationWithPanic, Hash, NodeKey, SchedulerKind, Snapshot, TickReceipt,
    TickReceiptDisposition, WarpId, WarpState, WarpTickPatchV1,
};

use crate::model::{AState, ExtractIssues};
use crate::prog::{self, Effect, Program};

#[derive(Clone, Debug)]
pub struct TickConfig {
    pub kind: SchedulerKind,
    pub workers: usize,
    pub reg_order: Vec<usize>,
    pub policy_id: u32,
}

impl Default for TickConfig {
    fn default() -> Self {
        Self {
            kind: SchedulerKind::Radix,
            workers: 1,
            reg_order: (0..=prog::SYS_SLOT).collect(),
            policy_id: warp_core::POLICY_ID_NO_POLICY_V0,
        }
    }
}

pub struct Committed {
    pub snapshot: Snapshot,
    pub receipt: TickReceipt,
    pub patch: WarpTickPatchV1,
    pub post_state: WarpState,
    pub post: AState,
    pub issues: ExtractIssues,
}

pub enum Failure {
    /// `commit_with_receipt` returned `Err`.
    Error(String),
    /// The commit unwound with a footprint violation.
    Violation(FootprintViolation),
    /// Violation carried together with an executor panic.
    ViolationWithPanic(FootprintViolation),
    /// Deliberate executor panic of a harness rule.
    RulePanic(prog::VerifRulePanic),
    /// Any other panic payload.
    OtherPanic(String),
}

impl Failure {
    pub fn describe(&self) -> String {
        match self {
            Self::Error(e) => format!("error: {e}"),
            Self::Violation(v) => format!("footprint violation: {v:?}"),
            Self::ViolationWithPanic(v) => format!("footprint violation with executor panic: {v:?}"),
            Self::RulePanic(p) => format!("harness rule panic: {p:?}"),
            Self::OtherPanic(s) => format!("panic: {s}"),
        }
    }
}

pub enum TickResult {
    Committed(Box<Committed>),
    /// Commit failed; carries the engine's state after the failure.
    Failed { why: Failure, state_after: AState },
    /// Harness-side problem (cannot build engine, apply rejected, …).
    Harness(String),
}

/// Canonical, order-free outcome of a committed tick: everything the C01/C02
/// statements list, as one comparable string-keyed map.
pub fn outcome_tuple(c: &Committed) -> BTreeMap<&'static str, String> {
    let mut m = BTreeMap::new();
    let s = &c.snapshot;
    m.insert("state_root", verif_core::hex(&s.state_root));
    m.insert("commit_id", verif_core::hex(&s.hash));
    m.insert("parents", format!("{:?}", s.parents));
    m.insert("plan_digest", verif_core::hex(&s.plan_digest));
    m.insert("decision_digest", verif_core::hex(&s.decision_digest));
    m.insert("rewrites_digest", verif_core::hex(&s.rewrites_digest));
    m.insert("patch_digest", verif_core::hex(&s.patch_digest));
    m.insert("policy_id", format!("{}", s.policy_id));
    m.insert("root", format!("{:?}", s.root));
    m.insert("patch.digest", verif_core::hex(&c.patch.digest()));
    m.insert("patch.ops", format!("{:?}", c.patch.ops()));
    m.insert("patch.in_slots", format!("{:?}", c.patch.in_slots()));
    m.insert("patch.out_slots", format!("{:?}", c.patch.out_slots()));
    m.insert("patch.status", format!("{:?}", c.patch.commit_status()));
    m.insert("patch.rule_pack", verif_core::hex(&c.patch.rule_pack_id()));
    m.insert("receipt.entries", format!("{:?}", c.receipt.entries()));
    let bl: Vec<Vec<u32>> = (0..c.receipt.entries().len())
        .map(|i| c.receipt.blocked_by(i).to_vec())
        .collect();
    m.insert("receipt.blocked_by", format!("{bl:?}"));
    m.insert("receipt.digest", verif_core::hex(&c.receipt.digest()));
    m.insert("post_state", format!("{:?}", c.post));
    m
}

pub fn first_tuple_diff(a: &BTreeMap<&'static str, String>, b: &BTreeMap<&'static str, String>) -> Option<&'static str> {
    for (k, v) in a {
        if b.get(k) != Some(v) {
            return Some(k);
        }
    }
    None
}

fn panic_to_failure(p: Box<dyn std::any::Any + Send>) -> Failure {
    let p = match p.downcast::<FootprintViolation>() {
        Ok(v) => return Failure::Violation(*v),
        Err(p) => p,
    };
    let p = match p.downcast::<FootprintViolationWithPanic>() {
        Ok(v) => return Failure::ViolationWithPanic(v.violation.clone()),
        Err(p) => p,
    };
    let p = match p.downcast::<prog::VerifRulePanic>() {
        Ok(v) => return Failure::RulePanic(*v),
        Err(p) => p,
    };
    if let Some(s) = p.downcast_ref::<String>() {
        return Failure::OtherPanic(s.clone());
    }
    if let Some(s) = p.downcast_ref::<&str>() {
        return Failure::OtherPanic((*s).to_owned());
    }
    Failure::OtherPanic("non-string panic payload".to_owned())
}

/// Run one tick. `enqueue` lists indices into `programs` in arrival order
/// (repeats = duplicate enqueues). `descent` gives the descent chain per
/// non-root instance (handed to `apply_in_warp` as the API documents).
pub fn run_tick(
    pre: &WarpState,
    root: NodeKey,
    programs: &[Program],
    enqueue: &[usize],
    descent: &BTreeMap<WarpId, Vec<AttachmentKey>>,
    cfg: &TickConfig,
) -> TickResult {
    let mut engine = match EngineBuilder::from_state(pre.clone(), root)
        .scheduler(cfg.kind)
        .workers(cfg.workers)
        .policy_id(cfg.policy_id)
        .build()
    {
        Ok(e) => e,
        Err(e) => return TickResult::Harness(format!("EngineBuilder::build: {e:?}")),
    };
    if let Err(e) = prog::register_slots(&mut engine, &cfg.reg_order) {
        return TickResult::Harness(e);
    }
    let tx = engine.begin();
    for &i in enqueue {
        let p = &programs[i];
        let empty: Vec<AttachmentKey> = Vec::new();
        let stack = descent.get(&p.warp).unwrap_or(&empty);
        match engine.apply_in_warp(tx, p.warp, prog::slot_name(p.slot), &p.scope, stack) {
            Ok(warp_core::ApplyResult::Applied) => {}
            Ok(warp_core::ApplyResult::NoMatch) => {
                if p.matches {
                    return TickResult::Harness("apply_in_warp said NoMatch for a matching program".into());
                }
            }
            Err(e) => return TickResult::Harness(format!("apply_in_warp: {e:?}")),
        }
    }
    let res = catch_unwind(AssertUnwindSafe(|| engine.commit_with_receipt(tx)));
    match res {
        Ok(Ok((snapshot, receipt, patch))) => {
            let post_state = engine.state().clone();
            let (post, issues) = AState::extract(&post_state);
            TickResult::Committed(Box::new(Committed { snapshot, receipt, patch, post_state, post, issues }))
        }
        Ok(Err(e)) => {
            let (after, _) = AState::extract(engine.state());
            TickResult::Failed { why: Failure::Error(format!("{e:?}")), state_after: after }
        }
        Err(p) => {
            let (after, _) = AState::extract(engine.state());
            TickResult::Failed { why: panic_to_failure(p), state_after: after }
        }
    }
}

// ---------------------------------------------------------------------------
// Reference admission over real footprints (written from the C03 statement)
// ---------------------------------------------------------------------------

pub fn ref_conflict_fp(a: &Footprint, b: &Footprint) -> bool {
    fn hits<T: PartialEq>(xs: impl Iterator<Item = T>, ys: &[T]) -> bool {
        for x in xs {
            if ys.contains(&x) {
                return true;
            }
        }
        false
    }
    let (anr, anw): (Vec<_>, Vec<_>) = (a.n_read.iter().copied().collect(), a.n_write.iter().copied().collect());
    let (bnr, bnw): (Vec<_>, Vec<_>) = (b.n_read.iter().copied().collect(), b.n_write.iter().copied().collect());
    let (aer, aew): (Vec<_>, Vec<_>) = (a.e_read.iter().copied().collect(), a.e_write.iter().copied().collect());
    let (ber, bew): (Vec<_>, Vec<_>) = (b.e_read.iter().copied().collect(), b.e_write.iter().copied().collect());
    let (aar, aaw): (Vec<_>, Vec<_>) = (a.a_read.iter().copied().collect(), a.a_write.iter().copied().collect());
    let (bar, baw): (Vec<_>, Vec<_>) = (b.a_read.iter().copied().collect(), b.a_write.iter().copied().collect());
    let ap: Vec<_> = a.b_in.iter().chain(a.b_out.iter()).copied().collect();
    let bp: Vec<_> = b.b_in.iter().chain(b.b_out.iter()).copied().collect();
    // a write overlapping another's read or write of the same node / edge / attachment
    hits(anw.iter().copied(), &bnw) || hits(anw.iter().copied(), &bnr) || hits(bnw.iter().copied(), &anr)
        || hits(aew.iter().copied(), &bew) || hits(aew.iter().copied(), &ber) || hits(bew.iter().copied(), &aer)
        || hits(aaw.iter().copied(), &baw) || hits(aaw.iter().copied(), &bar) || hits(baw.iter().copied(), &aar)
        // or any shared boundary port
        || hits(ap.iter().copied(), &bp)
}

pub struct RefPlan {
    /// Indices into `programs` in canonical order.
    pub order: Vec<usize>,
    pub accepted: Vec<bool>,
    /// Blockers as positions in `order`.
    pub blockers: Vec<Vec<u32>>,
    pub scope_hashes: Vec<Hash>,
}

/// Footprint as the engine sees it: the program's footprint plus the descent
/// chain reads the API adds for descended instances.
pub fn effective_footprint(p: &Program, descent: &BTreeMap<WarpId, Vec<AttachmentKey>>) -> Footprint {
    let mut fp = p.footprint.clone();
    if let Some(chain) = descent.get(&p.warp) {
        for k in chain {
            fp.a_read.insert(*k);
        }
    }
    fp
}

/// Canonical greedy admission of a candidate *set* (programs that match).
pub fn ref_plan(programs: &[Program], present: &[bool], descent: &BTreeMap<WarpId, Vec<AttachmentKey>>) -> RefPlan {
    let mut keyed: Vec<(Hash, Hash, usize)> = programs
        .iter()
        .enumerate()
        .filter(|(i, p)| present[*i] && p.matches)
        .map(|(i, p)| {
            let rid = prog::slot_rule_id(p.slot);
            (scope_hash(&rid, &NodeKey { warp_id: p.warp, local_id: p.scope }), rid, i)
        })
        .collect();
    keyed.sort();
    let fps: Vec<Footprint> = keyed.iter().map(|k| effective_footprint(&programs[k.2], descent)).collect();
    let mut accepted_pos: Vec<usize> = Vec::new();
    let mut accepted = Vec::new();
    let mut blockers = Vec::new();
    for (pos, fp) in fps.iter().enumerate() {
        let bl: Vec<u32> = accepted_pos
            .iter()
            .filter(|&&j| ref_conflict_fp(fp, &fps[j]))
            .map(|&j| j as u32)
            .collect();
        if bl.is_empty() {
            accepted_pos.push(pos);
            accepted.push(true);
        } else {
            accepted.push(false);
        }
        blockers.push(bl);
    }
    RefPlan {
        order: keyed.iter().map(|k| k.2).collect(),
        accepted,
        blockers,
        scope_hashes: keyed.iter().map(|k| k.0).collect(),
    }
}

/// Compare a real receipt with the reference plan. Returns a description of
/// the first divergence.
pub fn receipt_vs_plan(receipt: &TickReceipt, plan: &RefPlan, programs: &[Program]) -> Option<(String, String)> {
    let entries = receipt.entries();
    if entries.len() != plan.order.len() {
        return Some(("entry-count".into(), format!("receipt has {} entries, reference {}", entries.len(), plan.order.len())));
    }
    for (pos, e) in entries.iter().enumerate() {
        let p = &programs[plan.order[pos]];
        if e.scope_hash != plan.scope_hashes[pos] || e.rule_id != prog::slot_rule_id(p.slot) || e.scope != (NodeKey { warp_id: p.warp, local_id: p.scope }) {
            return Some(("order".into(), format!("receipt entry {pos} is ({}, slot?) but canonical order expects scope hash {}", verif_core::hex4(&e.scope_hash), verif_core::hex4(&plan.scope_hashes[pos]))));
        }
        let acc = matches!(e.disposition, TickReceiptDisposition::Applied);
        if acc != plan.accepted[pos] {
            return Some(("accept-reject".into(), format!("entry {pos} (slot {} scope {}) accepted={acc}, reference {}", p.slot, verif_core::hex4(&p.scope.0), plan.accepted[pos])));
        }
        if receipt.blocked_by(pos) != plan.blockers[pos].as_slice() {
            return Some(("blockers".into(), format!("entry {pos} blocked_by {:?}, reference {:?}", receipt.blocked_by(pos), plan.blockers[pos])));
        }
    }
    None
}

/// Model post-state: pre ⊕ effects of the accepted programs, each evaluated
/// against the abstract *pre*-state.
pub fn model_post(pre: &AState, programs: &[Program], plan: &RefPlan) -> Result<AState, String> {
    let mut effects: Vec<Effect> = Vec::new();
    for (pos, &i) in plan.order.iter().enumerate() {
        if !plan.accepted[pos] {
            continue;
        }
        let p = &programs[i];
        let (eff, _panic) = prog::eval(p, &prog::AbstractReader { st: pre, w: p.warp });
        effects.extend(eff);
    }
    prog::apply_effects(pre, &effects)
}

/// Quiet panic hook (expected panics are part of several workloads); set
/// `VERIF_DEBUG=1` to see them.
pub fn install_quiet_panic_hook() {
    if std::env::var("VERIF_DEBUG").is_err() {
        std::panic::set_hook(Box::new(|_| {}));
    }
}

// ---------------------------------------------------------------------------
// Several transactions on ONE engine (cross-transaction scheduler state)
// ---------------------------------------------------------------------------

/// One step of an engine history.
pub enum SeqStep {
    /// `begin`, enqueue `enqueue` (indices into `programs`), `abort`.
    Abort { programs: Vec<Program>, enqueue: Vec<usize> },
    /// `begin`, enqueue, `commit_with_receipt`.
    Tick { programs: Vec<Program>, enqueue: Vec<usize> },
}

/// Descent chains recomputed from the instance records of an abstract state.
pub fn descent_of(st: &AState) -> BTreeMap<WarpId, Vec<AttachmentKey>> {
    let mut out: BTreeMap<WarpId, Vec<AttachmentKey>> = BTreeMap::new();
    for w in st.insts.keys() {
        let mut chain = Vec::new();
        let mut cur = *w;
        let mut guard = 0;
        while let Some(key) = st.insts.get(&cur).and_then(|i| i.parent) {
            chain.push(key);
            cur = crate::gen::key_warp(&key);
            guard += 1;
            if guard > 64 {
                break;
            }
        }
        if !chain.is_empty() {
            chain.reverse();
            out.insert(*w, chain);
        }
    }
    out
}

/// Run a history of aborted and committed transactions on one engine. Returns
/// one result per `Tick` step (in order); stops after the first failed tick.
/// Programs are installed in the global table only for the duration of their
/// own step, so a candidate that leaks into a later transaction is observable
/// (extra receipt entry / different digests) rather than silently re-executed.
pub fn run_sequence(pre: &WarpState, root: NodeKey, steps: &[SeqStep], cfg: &TickConfig) -> Vec<TickResult> {
    let mut out = Vec::new();
    let mut engine = match EngineBuilder::from_state(pre.clone(), root)
        .scheduler(cfg.kind)
        .workers(cfg.workers)
        .policy_id(cfg.policy_id)
        .build()
    {
        Ok(e) => e,
        Err(e) => return vec![TickResult::Harness(format!("EngineBuilder::build: {e:?}"))],
    };
    if let Err(e) = prog::register_slots(&mut engine, &cfg.reg_order) {
        return vec![TickResult::Harness(e)];
    }
    for step in steps {
        let (programs, enqueue, commit) = match step {
            SeqStep::Abort { programs, enqueue } => (programs, enqueue, false),
            SeqStep::Tick { programs, enqueue } => (programs, enqueue, true),
        };
        let (cur, _) = AState::extract(engine.state());
        let descent = descent_of(&cur);
        prog::install(programs);
        let tx = engine.begin();
        let mut harness_err = None;
        for &i in enqueue {
            let p = &programs[i];
            let empty: Vec<AttachmentKey> = Vec::new();
            let stack = descent.get(&p.warp).unwrap_or(&empty);
            match engine.apply_in_warp(tx, p.warp, prog::slot_name(p.slot), &p.scope, stack) {
                Ok(warp_core::ApplyResult::Applied) => {}
                Ok(warp_core::ApplyResult::NoMatch) => {
                    if p.matches {
                        harness_err = Some("apply_in_warp said NoMatch for a matching program".to_owned());
                    }
                }
                Err(e) => harness_err = Some(format!("apply_in_warp: {e:?}")),
            }
        }
        if let Some(e) = harness_err {
            engine.abort(tx);
            prog::uninstall(programs);
            out.push(TickResult::Harness(e));
            return out;
        }
        if !commit {
            engine.abort(tx);
            prog::uninstall(programs);
            continue;
        }
        let res = catch_unwind(AssertUnwindSafe(|| engine.commit_with_receipt(tx)));
        prog::uninstall(programs);
        match res {
            Ok(Ok((snapshot, receipt, patch))) => {
                let post_state = engine.state().clone();
                let (post, issues) = AState::extract(&post_state);
                out.push(TickResult::Committed(Box::new(Committed { snapshot, receipt, patch, post_state, post, issues })));
            }
            Ok(Err(e)) => {
                let (after, _) = AState::extract(engine.state());
                out.push(TickResult::Failed { why: Failure::Error(format!("{e:?}")), state_after: after });
                return out;
            }
            Err(p) => {
                let (after, _) = AState::extract(engine.state());
                out.push(TickResult::Failed { why: panic_to_failure(p), state_after: after });
                return out;
            }
        }
    }
    out
}
