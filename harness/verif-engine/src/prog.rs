//! Data-driven rewrite programs.
//!
//! Rules are plain `fn` pointers, so the harness registers eight rule slots
//! `verif/p0..p7` (+ one *system* slot whose name equals the engine's
//! dispatch-inbox rule so that it may emit `OpenPortal`) whose
//! matcher/executor/footprint functions look up `(slot, warp, scope)` in a
//! process-global table. A program is a list of micro-ops; written values are
//! hashes of the values *read*, so executing against anything but the pre-tick
//! state changes the output. The same program is evaluated by an abstract
//! interpreter over `AState` that shares no code with `tick_patch`, `merge` or
//! `scheduler` and has no notion of op ordering.

use std::collections::{BTreeMap, BTreeSet, HashMap};
use std::sync::RwLock;

use warp_core::{
    make_type_id, AtomPayload, AttachmentKey, AttachmentValue, ConflictPolicy, EdgeId, EdgeKey,
    EdgeRecord, Engine, Footprint, GraphView, Hash, NodeId, NodeKey, NodeRecord, PatternGraph,
    PortalInit, RewriteRule, TickDelta, TypeId, WarpId, WarpOp,
};

use crate::model::{AInst, AState, AVal};

pub const N_SLOTS: usize = 8;
/// Index of the system slot (may emit instance-level ops under enforcement).
pub const SYS_SLOT: usize = 8;

#[derive(Clone, Debug, PartialEq, Eq)]
pub enum Mop {
    // ---- reads (fold what they see into the accumulator) ----
    ReadNode(NodeId),
    ReadAdj(NodeId),
    ReadNodeAtt(NodeId),
    ReadEdgeAtt(EdgeId),
    HasEdge(EdgeId),
    // ---- writes ----
    /// Set node attachment to `Atom(ty, H(acc, salt)[..len])`.
    SetNodeAtt { node: NodeId, ty: TypeId, len: u8 },
    SetEdgeAtt { edge: EdgeId, ty: TypeId, len: u8 },
    ClearNodeAtt(NodeId),
    ClearEdgeAtt(EdgeId),
    /// Create a node or retype an existing one; type = one of two derived from acc.
    UpsertNode { node: NodeId, tys: [TypeId; 2] },
    /// Delete a node together with the listed incident edges `(id, from)`
    /// (the view has no inbound-edge accessor, so the list is fixed at
    /// generation time from the pre-state, as a real rule would have to know it).
    DeleteNode { node: NodeId, incident: Vec<(EdgeId, NodeId)> },
    /// Insert or overwrite an edge record. `old_from` is the current source when
    /// the edge already exists under a different source (re-parenting).
    UpsertEdge { edge: EdgeId, from: NodeId, to: NodeId, tys: [TypeId; 2], old_from: Option<NodeId> },
    DeleteEdge { edge: EdgeId, from: NodeId },
    /// System slot only.
    OpenPortalNode { node: NodeId, child: WarpId, child_root: NodeId, root_ty: TypeId },
    OpenPortalEdge { edge: EdgeId, child: WarpId, child_root: NodeId, root_ty: TypeId },
    // ---- faults for C09/C14 style workloads ----
    /// Executor panics (after performing the preceding micro-ops).
    Panic,
    /// Emit an op into a foreign instance.
    ForeignSetNodeAtt { warp: WarpId, node: NodeId },
    /// Declare a boundary port (`b_in` / `b_out`) in the footprint. No graph
    /// effect: ports only take part in admission.
    ClaimPort { port: u64, out: bool },
    /// Delete an edge and recreate it under the same id in one rewrite (new source
    /// and/or target), optionally re-setting the attachment it carried (value read
    /// from the pre-state) and optionally deleting the old source node together with
    /// its other incident edges `(id, from)`. This is what a rule has to emit to move
    /// an edge off a node it deletes: `DeleteEdge`, `DeleteNode`, `UpsertEdge`,
    /// `SetAttachment`.
    RecreateEdge {
        edge: EdgeId,
        old_from: NodeId,
        new_from: NodeId,
        to: NodeId,
        tys: [TypeId; 2],
        restore_att: bool,
        delete_old_from: Option<Vec<(EdgeId, NodeId)>>,
    },
}

#[derive(Clone, Debug)]
pub struct Program {
    pub slot: usize,
    pub warp: WarpId,
    pub scope: NodeId,
    pub salt: u64,
    pub ops: Vec<Mop>,
    /// Footprint handed to the engine (honest unless a C14 case edits it).
    pub footprint: Footprint,
    /// Whether the matcher says yes.
    pub matches: bool,
}

// ---------------------------------------------------------------------------
// value derivation shared by the real executor and the abstract interpreter
// ---------------------------------------------------------------------------

pub struct Acc(blake3::Hasher);

impl Acc {
    pub fn new(salt: u64, slot: usize) -> Self {
        let mut h = blake3::Hasher::new();
        h.update(b"verif/acc");
        h.update(&salt.to_le_bytes());
        h.update(&(slot as u64).to_le_bytes());
        Self(h)
    }
    pub fn feed(&mut self, tag: u8, bytes: &[u8]) {
        self.0.update(&[tag]);
        self.0.update(&(bytes.len() as u64).to_le_bytes());
        self.0.update(bytes);
    }
    pub fn digest(&self, which: u64) -> [u8; 32] {
        let mut h = self.0.clone();
        h.update(b"out");
        h.update(&which.to_le_bytes());
        *h.finalize().as_bytes()
    }
}

fn aval_bytes(v: Option<&AVal>) -> Vec<u8> {
    match v {
        None => vec![0],
        Some(AVal::Atom(t, b)) => {
            let mut o = vec![1];
            o.extend_from_slice(&t.0);
            o.extend_from_slice(b);
            o
        }
        Some(AVal::Descend(w)) => {
            let mut o = vec![2];
            o.extend_from_slice(&w.0);
            o
        }
    }
}

fn adj_bytes(mut edges: Vec<(EdgeId, NodeId, TypeId)>) -> Vec<u8> {
    // adjacency iteration order is storage layout; an honest rule sorts
    edges.sort();
    let mut o = Vec::new();
    for (e, to, ty) in edges {
        o.extend_from_slice(&e.0);
        o.extend_from_slice(&to.0);
        o.extend_from_slice(&ty.0);
    }
    o
}

// ---------------------------------------------------------------------------
// Abstract effects
// ---------------------------------------------------------------------------

#[derive(Clone, Debug, PartialEq, Eq)]
pub enum Effect {
    NodeUpsert(WarpId, NodeId, TypeId),
    NodeDelete(WarpId, NodeId),
    EdgeUpsert(WarpId, EdgeId, NodeId, NodeId, TypeId),
    EdgeDelete(WarpId, EdgeId),
    SetNAtt(WarpId, NodeId, Option<AVal>),
    SetEAtt(WarpId, EdgeId, Option<AVal>),
    OpenPortal { key: AttachmentKey, child: WarpId, child_root: NodeId, root_ty: TypeId },
}

/// What a read sees: either the real guarded view or the abstract pre-state.
pub trait Reader {
    fn warp(&self) -> WarpId;
    fn node(&self, n: &NodeId) -> Option<TypeId>;
    fn adj(&self, n: &NodeId) -> Vec<(EdgeId, NodeId, TypeId)>;
    fn natt(&self, n: &NodeId) -> Option<AVal>;
    fn eatt(&self, e: &EdgeId) -> Option<AVal>;
    fn has_edge(&self, e: &EdgeId) -> bool;
}

pub struct ViewReader<'a>(pub GraphView<'a>);

impl Reader for ViewReader<'_> {
    fn warp(&self) -> WarpId {
        self.0.warp_id()
    }
    fn node(&self, n: &NodeId) -> Option<TypeId> {
        self.0.node(n).map(|r| r.ty)
    }
    fn adj(&self, n: &NodeId) -> Vec<(EdgeId, NodeId, TypeId)> {
        self.0.edges_from(n).map(|e| (e.id, e.to, e.ty)).collect()
    }
    fn natt(&self, n: &NodeId) -> Option<AVal> {
        self.0.node_attachment(n).map(AVal::from_real)
    }
    fn eatt(&self, e: &EdgeId) -> Option<AVal> {
        self.0.edge_attachment(e).map(AVal::from_real)
    }
    fn has_edge(&self, e: &EdgeId) -> bool {
        self.0.has_edge(e)
    }
}

pub struct AbstractReader<'a> {
    pub st: &'a AState,
    pub w: WarpId,
}

impl Reader for AbstractReader<'_> {
    fn warp(&self) -> WarpId {
        self.w
    }
    fn node(&self, n: &NodeId) -> Option<TypeId> {
        self.st.nodes.get(&(self.w, *n)).copied()
    }
    fn adj(&self, n: &NodeId) -> Vec<(EdgeId, NodeId, TypeId)> {
        self.st.out_edges(self.w, *n)
    }
    fn natt(&self, n: &NodeId) -> Option<AVal> {
        self.st.natt.get(&(self.w, *n)).cloned()
    }
    fn eatt(&self, e: &EdgeId) -> Option<AVal> {
        self.st.eatt.get(&(self.w, *e)).cloned()
    }
    fn has_edge(&self, e: &EdgeId) -> bool {
        self.st.edges.contains_key(&(self.w, *e))
    }
}

/// Evaluate a program against a reader; returns the abstract effects in
/// program order (`Err(())` = the program asked to panic at that point; the
/// effects so far are returned alongside).
pub fn eval<R: Reader>(p: &Program, r: &R) -> (Vec<Effect>, bool) {
    let w = r.warp();
    let mut acc = Acc::new(p.salt, p.slot);
    let mut out = Vec::new();
    let mut which = 0u64;
    for op in &p.ops {
        which += 1;
        match op {
            Mop::ReadNode(n) => {
                let v = r.node(n);
                acc.feed(1, &v.map_or(vec![0], |t| t.0.to_vec()));
            }
            Mop::ReadAdj(n) => acc.feed(2, &adj_bytes(r.adj(n))),
            Mop::ReadNodeAtt(n) => acc.feed(3, &aval_bytes(r.natt(n).as_ref())),
            Mop::ReadEdgeAtt(e) => acc.feed(4, &aval_bytes(r.eatt(e).as_ref())),
            Mop::HasEdge(e) => acc.feed(5, &[u8::from(r.has_edge(e))]),
            Mop::SetNodeAtt { node, ty, len } => {
                let d = acc.digest(which);
                out.push(Effect::SetNAtt(w, *node, Some(AVal::Atom(*ty, expand(&d, *len)))));
            }
            Mop::SetEdgeAtt { edge, ty, len } => {
                let d = acc.digest(which);
                out.push(Effect::SetEAtt(w, *edge, Some(AVal::Atom(*ty, expand(&d, *len)))));
            }
            Mop::ClearNodeAtt(n) => out.push(Effect::SetNAtt(w, *n, None)),
            Mop::ClearEdgeAtt(e) => out.push(Effect::SetEAtt(w, *e, None)),
            Mop::UpsertNode { node, tys } => {
                let d = acc.digest(which);
                out.push(Effect::NodeUpsert(w, *node, tys[(d[0] & 1) as usize]));
            }
            Mop::DeleteNode { node, incident } => {
                for (e, _from) in incident {
                    out.push(Effect::EdgeDelete(w, *e));
                }
                out.push(Effect::NodeDelete(w, *node));
            }
            Mop::UpsertEdge { edge, from, to, tys, .. } => {
                let d = acc.digest(which);
                out.push(Effect::EdgeUpsert(w, *edge, *from, *to, tys[(d[0] & 1) as usize]));
            }
            Mop::DeleteEdge { edge, .. } => out.push(Effect::EdgeDelete(w, *edge)),
            Mop::OpenPortalNode { node, child, child_root, root_ty } => out.push(Effect::OpenPortal {
                key: AttachmentKey::node_alpha(NodeKey { warp_id: w, local_id: *node }),
                child: *child,
                child_root: *child_root,
                root_ty: *root_ty,
            }),
            Mop::OpenPortalEdge { edge, child, child_root, root_ty } => out.push(Effect::OpenPortal {
                key: AttachmentKey::edge_beta(EdgeKey { warp_id: w, local_id: *edge }),
                child: *child,
                child_root: *child_root,
                root_ty: *root_ty,
            }),
            Mop::Panic => return (out, true),
            Mop::ClaimPort { .. } => {}
            Mop::RecreateEdge { edge, old_from, new_from, to, tys, restore_att, delete_old_from } => {
                let d = acc.digest(which);
                out.push(Effect::EdgeDelete(w, *edge));
                out.push(Effect::EdgeUpsert(w, *edge, *new_from, *to, tys[(d[0] & 1) as usize]));
                if *restore_att {
                    let v = r.eatt(edge);
                    acc.feed(4, &aval_bytes(v.as_ref()));
                    if let Some(v) = v {
                        out.push(Effect::SetEAtt(w, *edge, Some(v)));
                    }
                }
                if let Some(inc) = delete_old_from {
                    for (e2, _from) in inc {
                        out.push(Effect::EdgeDelete(w, *e2));
                    }
                    out.push(Effect::NodeDelete(w, *old_from));
                }
            }
            Mop::ForeignSetNodeAtt { warp, node } => {
                let d = acc.digest(which);
                out.push(Effect::SetNAtt(*warp, *node, Some(AVal::Atom(make_type_id("verif/foreign"), d.to_vec()))));
            }
        }
    }
    (out, false)
}

fn expand(d: &[u8; 32], len: u8) -> Vec<u8> {
    let mut v = Vec::with_capacity(len as usize);
    let mut i = 0u8;
    while v.len() < len as usize {
        v.push(d[(i % 32) as usize] ^ (i / 32));
        i = i.wrapping_add(1);
    }
    v
}

/// Translate effects into the ops a rule emits.
pub fn effects_to_ops(effects: &[Effect], incident_from: &BTreeMap<EdgeId, NodeId>) -> Vec<WarpOp> {
    let mut ops = Vec::new();
    for e in effects {
        match e {
            Effect::NodeUpsert(w, n, ty) => ops.push(WarpOp::UpsertNode {
                node: NodeKey { warp_id: *w, local_id: *n },
                record: NodeRecord { ty: *ty },
            }),
            Effect::NodeDelete(w, n) => ops.push(WarpOp::DeleteNode {
                node: NodeKey { warp_id: *w, local_id: *n },
            }),
            Effect::EdgeUpsert(w, id, from, to, ty) => ops.push(WarpOp::UpsertEdge {
                warp_id: *w,
                record: EdgeRecord { id: *id, from: *from, to: *to, ty: *ty },
            }),
            Effect::EdgeDelete(w, id) => ops.push(WarpOp::DeleteEdge {
                warp_id: *w,
                from: incident_from.get(id).copied().unwrap_or(NodeId([0; 32])),
                edge_id: *id,
            }),
            Effect::SetNAtt(w, n, v) => ops.push(WarpOp::SetAttachment {
                key: AttachmentKey::node_alpha(NodeKey { warp_id: *w, local_id: *n }),
                value: v.as_ref().map(AVal::to_real),
            }),
            Effect::SetEAtt(w, id, v) => ops.push(WarpOp::SetAttachment {
                key: AttachmentKey::edge_beta(EdgeKey { warp_id: *w, local_id: *id }),
                value: v.as_ref().map(AVal::to_real),
            }),
            Effect::OpenPortal { key, child, child_root, root_ty } => ops.push(WarpOp::OpenPortal {
                key: *key,
                child_warp: *child,
                child_root: *child_root,
                init: PortalInit::Empty { root_record: NodeRecord { ty: *root_ty } },
            }),
        }
    }
    ops
}

impl Program {
    /// `edge id -> from` for every edge the program deletes.
    pub fn delete_sources(&self) -> BTreeMap<EdgeId, NodeId> {
        let mut m = BTreeMap::new();
        for op in &self.ops {
            match op {
                Mop::DeleteNode { incident, .. } => {
                    for (e, f) in incident {
                        m.insert(*e, *f);
                    }
                }
                Mop::DeleteEdge { edge, from } => {
                    m.insert(*edge, *from);
                }
                Mop::RecreateEdge { edge, old_from, delete_old_from, .. } => {
                    m.insert(*edge, *old_from);
                    for (e, f) in delete_old_from.iter().flatten() {
                        m.insert(*e, *f);
                    }
                }
                _ => {}
            }
        }
        m
    }

    /// The honest footprint per the documented rules, with a sound partition mask.
    pub fn honest_footprint(&self) -> Footprint {
        let w = self.warp;
        let mut fp = Footprint::default();
        let nk = |n: &NodeId| NodeKey { warp_id: w, local_id: *n };
        let ek = |e: &EdgeId| EdgeKey { warp_id: w, local_id: *e };
        for op in &self.ops {
            match op {
                Mop::ReadNode(n) | Mop::ReadAdj(n) => fp.n_read.insert(nk(n)),
                Mop::ReadNodeAtt(n) => fp.a_read.insert(AttachmentKey::node_alpha(nk(n))),
                Mop::ReadEdgeAtt(e) => fp.a_read.insert(AttachmentKey::edge_beta(ek(e))),
                Mop::HasEdge(e) => fp.e_read.insert(ek(e)),
                Mop::SetNodeAtt { node, .. } | Mop::ClearNodeAtt(node) => {
                    fp.a_write.insert(AttachmentKey::node_alpha(nk(node)));
                }
                Mop::SetEdgeAtt { edge, .. } | Mop::ClearEdgeAtt(edge) => {
                    fp.a_write.insert(AttachmentKey::edge_beta(ek(edge)));
                }
                Mop::UpsertNode { node, .. } => fp.n_write.insert(nk(node)),
                Mop::DeleteNode { node, incident } => {
                    fp.n_write.insert(nk(node));
                    fp.a_write.insert(AttachmentKey::node_alpha(nk(node)));
                    for (e, from) in incident {
                        fp.e_write.insert(ek(e));
                        fp.n_write.insert(nk(from));
                        fp.a_write.insert(AttachmentKey::edge_beta(ek(e)));
                    }
                }
                Mop::UpsertEdge { edge, from, old_from, .. } => {
                    fp.e_write.insert(ek(edge));
                    fp.n_write.insert(nk(from));
                    if let Some(of) = old_from {
                        fp.n_write.insert(nk(of));
                    }
                }
                Mop::DeleteEdge { edge, from } => {
                    fp.e_write.insert(ek(edge));
                    fp.n_write.insert(nk(from));
                    fp.a_write.insert(AttachmentKey::edge_beta(ek(edge)));
                }
                Mop::OpenPortalNode { node, .. } => {
                    fp.a_write.insert(AttachmentKey::node_alpha(nk(node)));
                }
                Mop::OpenPortalEdge { edge, .. } => {
                    fp.a_write.insert(AttachmentKey::edge_beta(ek(edge)));
                }
                Mop::RecreateEdge { edge, old_from, new_from, to: _, tys: _, restore_att, delete_old_from } => {
                    fp.e_write.insert(ek(edge));
                    fp.n_write.insert(nk(old_from));
                    fp.n_write.insert(nk(new_from));
                    fp.a_write.insert(AttachmentKey::edge_beta(ek(edge)));
                    if *restore_att {
                        fp.a_read.insert(AttachmentKey::edge_beta(ek(edge)));
                    }
                    if let Some(inc) = delete_old_from {
                        fp.a_write.insert(AttachmentKey::node_alpha(nk(old_from)));
                        for (e, from) in inc {
                            fp.e_write.insert(ek(e));
                            fp.n_write.insert(nk(from));
                            fp.a_write.insert(AttachmentKey::edge_beta(ek(e)));
                        }
                    }
                }
                Mop::ClaimPort { port, out } => {
                    if *out {
                        fp.b_out.insert(w, *port);
                    } else {
                        fp.b_in.insert(w, *port);
                    }
                }
                Mop::Panic | Mop::ForeignSetNodeAtt { .. } => {}
            }
        }
        fp.factor_mask = sound_mask(&fp);
        fp
    }
}

/// One bit per touched resource (hash folded into 64 bits): a conservative
/// superset, so disjoint masks imply disjoint resources.
pub fn sound_mask(fp: &Footprint) -> u64 {
    let mut m = 0u64;
    let mut bit = |tag: u8, a: &[u8; 32], b: &[u8; 32]| {
        let mut h = blake3::Hasher::new();
        h.update(&[tag]);
        h.update(a);
        h.update(b);
        m |= 1u64 << (h.finalize().as_bytes()[0] % 64);
    };
    for k in fp.n_read.iter().chain(fp.n_write.iter()) {
        bit(1, &k.warp_id.0, &k.local_id.0);
    }
    for k in fp.e_read.iter().chain(fp.e_write.iter()) {
        bit(2, &k.warp_id.0, &k.local_id.0);
    }
    for k in fp.a_read.iter().chain(fp.a_write.iter()) {
        match k.owner {
            warp_core::AttachmentOwner::Node(n) => bit(3, &n.warp_id.0, &n.local_id.0),
            warp_core::AttachmentOwner::Edge(e) => bit(4, &e.warp_id.0, &e.local_id.0),
        }
    }
    for (w, p) in fp.b_in.iter().chain(fp.b_out.iter()) {
        let mut pb = [0u8; 32];
        pb[..8].copy_from_slice(&p.to_le_bytes());
        bit(5, &w.0, &pb);
    }
    m
}

// ---------------------------------------------------------------------------
// Abstract application of effects (set semantics; no op order)
// ---------------------------------------------------------------------------

/// `pre ⊕ effects`: the statement's "pre-state plus the effects of every
/// accepted rewrite". Returns `Err` when the union is not a function (two
/// different values for one target), which honest independent programs cannot
/// produce.
pub fn apply_effects(pre: &AState, effects: &[Effect]) -> Result<AState, String> {
    let mut st = pre.clone();
    let mut node_del = BTreeSet::new();
    let mut edge_del = BTreeSet::new();
    let mut node_up: BTreeMap<(WarpId, NodeId), TypeId> = BTreeMap::new();
    let mut edge_up: BTreeMap<(WarpId, EdgeId), (NodeId, NodeId, TypeId)> = BTreeMap::new();
    let mut natt: BTreeMap<(WarpId, NodeId), Option<AVal>> = BTreeMap::new();
    let mut eatt: BTreeMap<(WarpId, EdgeId), Option<AVal>> = BTreeMap::new();
    let mut portals = Vec::new();
    for e in effects {
        match e {
            Effect::NodeDelete(w, n) => {
                node_del.insert((*w, *n));
            }
            Effect::EdgeDelete(w, id) => {
                edge_del.insert((*w, *id));
            }
            Effect::NodeUpsert(w, n, ty) => {
                if let Some(prev) = node_up.insert((*w, *n), *ty) {
                    if prev != *ty {
                        return Err(format!("two node upserts disagree on {n:?}"));
                    }
                }
            }
            Effect::EdgeUpsert(w, id, f, t, ty) => {
                if let Some(prev) = edge_up.insert((*w, *id), (*f, *t, *ty)) {
                    if prev != (*f, *t, *ty) {
                        return Err(format!("two edge upserts disagree on {id:?}"));
                    }
                }
            }
            Effect::SetNAtt(w, n, v) => {
                if let Some(prev) = natt.insert((*w, *n), v.clone()) {
                    if prev != *v {
                        return Err(format!("two attachment writes disagree on node {n:?}"));
                    }
                }
            }
            Effect::SetEAtt(w, id, v) => {
                if let Some(prev) = eatt.insert((*w, *id), v.clone()) {
                    if prev != *v {
                        return Err(format!("two attachment writes disagree on edge {id:?}"));
                    }
                }
            }
            Effect::OpenPortal { key, child, child_root, root_ty } => {
                portals.push((*key, *child, *child_root, *root_ty));
            }
        }
    }
    for k in &edge_del {
        st.edges.remove(k);
        st.eatt.remove(k);
    }
    for k in &node_del {
        st.nodes.remove(k);
        st.natt.remove(k);
    }
    for (k, ty) in node_up {
        st.nodes.insert(k, ty);
    }
    for (k, rec) in edge_up {
        st.edges.insert(k, rec);
    }
    for (k, v) in natt {
        match v {
            Some(v) => {
                st.natt.insert(k, v);
            }
            None => {
                st.natt.remove(&k);
            }
        }
    }
    for (k, v) in eatt {
        match v {
            Some(v) => {
                st.eatt.insert(k, v);
            }
            None => {
                st.eatt.remove(&k);
            }
        }
    }
    for (key, child, child_root, root_ty) in portals {
        st.insts.insert(child, AInst { root: child_root, parent: Some(key) });
        st.nodes.insert((child, child_root), root_ty);
        match key.owner {
            warp_core::AttachmentOwner::Node(n) => {
                st.natt.insert((n.warp_id, n.local_id), AVal::Descend(child));
            }
            warp_core::AttachmentOwner::Edge(e) => {
                st.eatt.insert((e.warp_id, e.local_id), AVal::Descend(child));
            }
        }
    }
    Ok(st)
}

// ---------------------------------------------------------------------------
// Process-global program table + rule slots
// ---------------------------------------------------------------------------

type Key = (usize, WarpId, NodeId);

static TABLE: RwLock<Option<HashMap<Key, Program>>> = RwLock::new(None);

/// Installs the program table for the next tick(s). Process-global: one tick
/// at a time per process (shard by process, not by thread, for engine ticks —
/// or use distinct scopes per thread).
pub fn install(programs: &[Program]) {
    let mut g = TABLE.write().unwrap_or_else(std::sync::PoisonError::into_inner);
    let m = g.get_or_insert_with(HashMap::new);
    for p in programs {
        m.insert((p.slot, p.warp, p.scope), p.clone());
    }
}

pub fn uninstall(programs: &[Program]) {
    let mut g = TABLE.write().unwrap_or_else(std::sync::PoisonError::into_inner);
    if let Some(m) = g.as_mut() {
        for p in programs {
            m.remove(&(p.slot, p.warp, p.scope));
        }
    }
}

fn lookup(slot: usize, w: WarpId, scope: &NodeId) -> Option<Program> {
    let g = TABLE.read().unwrap_or_else(std::sync::PoisonError::into_inner);
    g.as_ref().and_then(|m| m.get(&(slot, w, *scope)).cloned())
}

fn matcher<const K: usize>(view: GraphView<'_>, scope: &NodeId) -> bool {
    lookup(K, view.warp_id(), scope).is_some_and(|p| p.matches)
}

fn footprint<const K: usize>(view: GraphView<'_>, scope: &NodeId) -> Footprint {
    lookup(K, view.warp_id(), scope).map_or_else(Footprint::default, |p| p.footprint)
}

fn executor<const K: usize>(view: GraphView<'_>, scope: &NodeId, delta: &mut TickDelta) {
    let Some(p) = lookup(K, view.warp_id(), scope) else {
        return;
    };
    let (effects, panic) = eval(&p, &ViewReader(view));
    for op in effects_to_ops(&effects, &p.delete_sources()) {
        delta.emit(op);
    }
    if panic {
        std::panic::panic_any(VerifRulePanic { slot: K, scope: *scope });
    }
}

/// Payload of a deliberate executor panic (so monitors can tell it apart).
#[derive(Debug, Clone)]
pub struct VerifRulePanic {
    pub slot: usize,
    pub scope: NodeId,
}

pub fn slot_name(k: usize) -> &'static str {
    match k {
        0 => "verif/p0",
        1 => "verif/p1",
        2 => "verif/p2",
        3 => "verif/p3",
        4 => "verif/p4",
        5 => "verif/p5",
        6 => "verif/p6",
        7 => "verif/p7",
        // must equal warp_core::inbox::DISPATCH_INBOX_RULE_NAME so that the engine
        // marks the item as a system item (allowed to emit instance-level ops)
        _ => warp_core::inbox::DISPATCH_INBOX_RULE_NAME,
    }
}

pub fn slot_rule_id(k: usize) -> Hash {
    *blake3::hash(format!("verif/rule-id/{k}").as_bytes()).as_bytes()
}

fn rule<const K: usize>() -> RewriteRule {
    RewriteRule {
        id: slot_rule_id(K),
        name: slot_name(K),
        left: PatternGraph { nodes: Vec::new() },
        matcher: matcher::<K>,
        executor: executor::<K>,
        compute_footprint: footprint::<K>,
        factor_mask: u64::MAX,
        conflict_policy: ConflictPolicy::Abort,
        join_fn: None,
    }
}

/// Executor fn pointer of a slot (for driving the shard executors directly).
pub fn slot_executor(k: usize) -> warp_core::ExecuteFn {
    match k {
        0 => executor::<0>,
        1 => executor::<1>,
        2 => executor::<2>,
        3 => executor::<3>,
        4 => executor::<4>,
        5 => executor::<5>,
        6 => executor::<6>,
        7 => executor::<7>,
        _ => executor::<8>,
    }
}

/// Register all rule slots; `order` permutes registration order (compact rule
/// ids are assigned in registration order, which must not matter).
pub fn register_slots(engine: &mut Engine, order: &[usize]) -> Result<(), String> {
    for &k in order {
        let r = match k {
            0 => rule::<0>(),
            1 => rule::<1>(),
            2 => rule::<2>(),
            3 => rule::<3>(),
            4 => rule::<4>(),
            5 => rule::<5>(),
            6 => rule::<6>(),
            7 => rule::<7>(),
            _ => rule::<8>(),
        };
        engine
            .register_rule(r)
            .map_err(|e| format!("register_rule failed: {e:?}"))?;
    }
    Ok(())
}

pub fn atom(ty: TypeId, bytes: &[u8]) -> AttachmentValue {
    AttachmentValue::Atom(AtomPayload::new(ty, bytes.to_vec().into()))
}
