//! Generators: multi-instance graphs and candidate sets of data-driven programs
//! with honest footprints.

use std::collections::BTreeSet;

use verif_core::Rng;
use warp_core::{
    make_type_id, AttachmentKey, AttachmentOwner, EdgeId, EdgeKey, NodeId, NodeKey, TypeId, WarpId,
};

use crate::model::{AInst, AState, AVal};
use crate::prog::{Mop, Program, N_SLOTS, SYS_SLOT};

pub fn node_types() -> [TypeId; 3] {
    [make_type_id("verif/nt0"), make_type_id("verif/nt1"), make_type_id("verif/nt2")]
}
pub fn edge_types() -> [TypeId; 3] {
    [make_type_id("verif/et0"), make_type_id("verif/et1"), make_type_id("verif/et2")]
}
pub fn atom_types() -> [TypeId; 2] {
    [make_type_id("verif/at0"), make_type_id("verif/at1")]
}

fn id32(rng: &mut Rng, tag: u8) -> [u8; 32] {
    let mut h = rng.hash32();
    // keep generated id families apart (purely cosmetic for debugging)
    h[31] = tag;
    h
}

/// Fresh node id; with `shard = Some(s)` the id lands in that execution shard
/// (shard = first byte of the id).
pub fn fresh_node(rng: &mut Rng, shard: Option<u8>) -> NodeId {
    let mut h = id32(rng, 0xA1);
    if let Some(s) = shard {
        h[0] = s;
    }
    NodeId(h)
}
pub fn fresh_edge(rng: &mut Rng) -> EdgeId {
    EdgeId(id32(rng, 0xE1))
}
pub fn fresh_warp(rng: &mut Rng) -> WarpId {
    WarpId(id32(rng, 0x57))
}

fn rand_atom(rng: &mut Rng) -> AVal {
    let len = *rng.pick(&[0usize, 1, 7, 32, 33, 100]);
    AVal::Atom(*rng.pick(&atom_types()), rng.bytes(len))
}

#[derive(Clone, Debug)]
pub struct GenGraph {
    pub state: AState,
    pub root: NodeKey,
    /// Descent chain (root → … → instance) for every non-root instance.
    pub descent: std::collections::BTreeMap<WarpId, Vec<AttachmentKey>>,
}

pub struct GraphParams {
    pub max_instances: usize,
    pub min_nodes: usize,
    pub max_nodes: usize,
    /// Force many scopes into few shards (work units with several items).
    pub few_shards: bool,
}

/// Generated multi-instance graph: 1..=max_instances instances linked by node-
/// and edge-owned portals, typed atoms of unequal lengths, unreachable islands.
pub fn gen_graph(rng: &mut Rng, p: &GraphParams) -> GenGraph {
    let mut st = AState::default();
    let n_inst = rng.range_usize(1, p.max_instances.max(1));
    let mut warps: Vec<WarpId> = Vec::new();
    let mut descent = std::collections::BTreeMap::new();
    let mut root = None;
    for i in 0..n_inst {
        let w = fresh_warp(rng);
        let n_nodes = rng.range_usize(p.min_nodes, p.max_nodes);
        let shard_pool: Vec<u8> = if p.few_shards {
            (0..rng.range(1, 3)).map(|_| rng.below(256) as u8).collect()
        } else {
            Vec::new()
        };
        let mut nodes: Vec<NodeId> = Vec::new();
        for _ in 0..n_nodes {
            let shard = if shard_pool.is_empty() {
                None
            } else {
                Some(*rng.pick(&shard_pool))
            };
            // local ids are only unique per instance: let later instances reuse ids that
            // also exist in an earlier one (same NodeId under a different WarpId)
            let reuse: Option<NodeId> = if i > 0 && rng.chance(1, 3) {
                let prev_w = warps[rng.below_usize(warps.len())];
                let cands: Vec<NodeId> = st.nodes.keys().filter(|k| k.0 == prev_w && !nodes.contains(&k.1)).map(|k| k.1).collect();
                if cands.is_empty() { None } else { Some(*rng.pick(&cands)) }
            } else {
                None
            };
            let n = reuse.unwrap_or_else(|| fresh_node(rng, shard));
            st.nodes.insert((w, n), *rng.pick(&node_types()));
            nodes.push(n);
        }
        let inst_root = nodes[0];
        // edges: a partial spanning fan from the root (so most content is
        // reachable) + random extra edges (cycles, parallel edges, self loops)
        let mut edges: Vec<EdgeId> = Vec::new();
        for j in 1..n_nodes {
            if rng.chance(7, 10) {
                let from = nodes[rng.below_usize(j)];
                let e = fresh_edge(rng);
                st.edges.insert((w, e), (from, nodes[j], *rng.pick(&edge_types())));
                edges.push(e);
            }
        }
        for _ in 0..rng.range_usize(0, n_nodes) {
            let e = fresh_edge(rng);
            let from = *rng.pick(&nodes);
            let to = *rng.pick(&nodes);
            st.edges.insert((w, e), (from, to, *rng.pick(&edge_types())));
            edges.push(e);
        }
        for n in &nodes {
            if rng.chance(4, 10) {
                st.natt.insert((w, *n), rand_atom(rng));
            }
        }
        for e in &edges {
            if rng.chance(3, 10) {
                st.eatt.insert((w, *e), rand_atom(rng));
            }
        }
        // link to a parent instance through a node- or edge-owned portal
        if i == 0 {
            st.insts.insert(w, AInst { root: inst_root, parent: None });
            root = Some(NodeKey { warp_id: w, local_id: inst_root });
        } else {
            let pw = warps[rng.below_usize(warps.len())];
            let use_edge = rng.chance(1, 2);
            let pedges: Vec<EdgeId> = st
                .edges
                .keys()
                .filter(|k| k.0 == pw)
                .map(|k| k.1)
                .filter(|e| !matches!(st.eatt.get(&(pw, *e)), Some(AVal::Descend(_))))
                .collect();
            let pnodes: Vec<NodeId> = st
                .nodes
                .keys()
                .filter(|k| k.0 == pw)
                .map(|k| k.1)
                .filter(|n| !matches!(st.natt.get(&(pw, *n)), Some(AVal::Descend(_))))
                .collect();
            let key = if use_edge && !pedges.is_empty() {
                let e = *rng.pick(&pedges);
                st.eatt.insert((pw, e), AVal::Descend(w));
                AttachmentKey::edge_beta(EdgeKey { warp_id: pw, local_id: e })
            } else {
                let n = *rng.pick(&pnodes);
                st.natt.insert((pw, n), AVal::Descend(w));
                AttachmentKey::node_alpha(NodeKey { warp_id: pw, local_id: n })
            };
            st.insts.insert(w, AInst { root: inst_root, parent: Some(key) });
            let mut chain: Vec<AttachmentKey> = descent.get(&pw).cloned().unwrap_or_default();
            chain.push(key);
            descent.insert(w, chain);
        }
        warps.push(w);
    }
    GenGraph {
        state: st,
        root: root.unwrap_or(NodeKey { warp_id: WarpId([0; 32]), local_id: NodeId([0; 32]) }),
        descent,
    }
}

fn is_portal_owner_node(st: &AState, w: WarpId, n: NodeId) -> bool {
    matches!(st.natt.get(&(w, n)), Some(AVal::Descend(_)))
}
fn is_portal_owner_edge(st: &AState, w: WarpId, e: EdgeId) -> bool {
    matches!(st.eatt.get(&(w, e)), Some(AVal::Descend(_)))
}

pub struct ProgParams {
    /// Size of the neighbourhood pool targets are drawn from (small ⇒ many conflicts).
    pub pool: usize,
    pub allow_delete_node: bool,
    pub allow_portal: bool,
    pub allow_reparent: bool,
    pub max_writes: usize,
    /// Let programs declare boundary ports from a pool of three per instance.
    pub ports: bool,
    /// Let programs delete and recreate an edge under the same id in one rewrite
    /// (`Mop::RecreateEdge`). Such rewrites emit more ops than the minimal state diff, which
    /// the repository's `delta_validate` development assertion rejects by design - the
    /// `dv` lane skips cases that contain one.
    pub allow_recreate: bool,
}

impl Default for ProgParams {
    fn default() -> Self {
        Self { pool: 6, allow_delete_node: true, allow_portal: true, allow_reparent: true, max_writes: 2, ports: true, allow_recreate: true }
    }
}

/// Generate one program for `(slot, warp, scope)` against the pre-state.
pub fn gen_program(
    rng: &mut Rng,
    st: &AState,
    slot: usize,
    w: WarpId,
    scope: NodeId,
    pp: &ProgParams,
) -> Program {
    let all_nodes: Vec<NodeId> = st.nodes.keys().filter(|k| k.0 == w).map(|k| k.1).collect();
    let all_edges: Vec<EdgeId> = st.edges.keys().filter(|k| k.0 == w).map(|k| k.1).collect();
    // neighbourhood pool: scope + a window of nodes/edges chosen by position
    let mut nodes: Vec<NodeId> = vec![scope];
    if !all_nodes.is_empty() {
        let start = rng.below_usize(all_nodes.len());
        for i in 0..pp.pool.min(all_nodes.len()) {
            nodes.push(all_nodes[(start + i) % all_nodes.len()]);
        }
    }
    let mut edges: Vec<EdgeId> = Vec::new();
    if !all_edges.is_empty() {
        let start = rng.below_usize(all_edges.len());
        for i in 0..pp.pool.min(all_edges.len()) {
            edges.push(all_edges[(start + i) % all_edges.len()]);
        }
    }
    let inst_root = st.insts.get(&w).map(|i| i.root);

    let mut ops: Vec<Mop> = Vec::new();
    // reads
    for _ in 0..rng.range(0, 3) {
        match rng.below(5) {
            0 => ops.push(Mop::ReadNode(*rng.pick(&nodes))),
            1 => ops.push(Mop::ReadAdj(*rng.pick(&nodes))),
            2 => ops.push(Mop::ReadNodeAtt(*rng.pick(&nodes))),
            3 if !edges.is_empty() => ops.push(Mop::ReadEdgeAtt(*rng.pick(&edges))),
            _ if !edges.is_empty() => ops.push(Mop::HasEdge(*rng.pick(&edges))),
            _ => ops.push(Mop::ReadNode(scope)),
        }
    }
    // writes, each on a distinct target
    let mut w_nodes: BTreeSet<NodeId> = BTreeSet::new(); // node records written/deleted
    let mut w_edges: BTreeSet<EdgeId> = BTreeSet::new();
    let mut w_natt: BTreeSet<NodeId> = BTreeSet::new();
    let mut w_eatt: BTreeSet<EdgeId> = BTreeSet::new();
    let mut deleted_nodes: BTreeSet<NodeId> = BTreeSet::new();
    let mut bucket_nodes: BTreeSet<NodeId> = BTreeSet::new(); // sources whose adjacency is written
    // nodes that an edge written by THIS program starts or ends at: deleting one of them later in
    // the same program would leave a dangling edge (referential integrity is kept by construction)
    let mut new_endpoints: BTreeSet<NodeId> = BTreeSet::new();
    let n_writes = rng.range_usize(1, pp.max_writes.max(1));
    let mut attempts = 0;
    let mut written = 0;
    while written < n_writes && attempts < 40 {
        attempts += 1;
        let kind = if slot == SYS_SLOT && pp.allow_portal && rng.chance(2, 3) { 100 } else { rng.below(13) };
        match kind {
            0 | 1 => {
                let n = *rng.pick(&nodes);
                if is_portal_owner_node(st, w, n) || w_natt.contains(&n) || deleted_nodes.contains(&n) {
                    continue;
                }
                w_natt.insert(n);
                ops.push(Mop::SetNodeAtt { node: n, ty: *rng.pick(&crate::gen::atom_types()), len: *rng.pick(&[0u8, 1, 8, 32, 33, 77]) });
            }
            2 => {
                let n = *rng.pick(&nodes);
                if is_portal_owner_node(st, w, n) || w_natt.contains(&n) || deleted_nodes.contains(&n) {
                    continue;
                }
                w_natt.insert(n);
                ops.push(Mop::ClearNodeAtt(n));
            }
            3 if !edges.is_empty() => {
                let e = *rng.pick(&edges);
                if is_portal_owner_edge(st, w, e) || w_eatt.contains(&e) || w_edges.contains(&e) {
                    continue;
                }
                let (f, t, _) = st.edges[&(w, e)];
                if deleted_nodes.contains(&f) || deleted_nodes.contains(&t) {
                    continue;
                }
                w_eatt.insert(e);
                if rng.chance(3, 4) {
                    ops.push(Mop::SetEdgeAtt { edge: e, ty: *rng.pick(&atom_types()), len: *rng.pick(&[0u8, 3, 32, 64]) });
                } else {
                    ops.push(Mop::ClearEdgeAtt(e));
                }
            }
            4 => {
                // retype an existing node or create a fresh one
                let n = if rng.chance(1, 2) { *rng.pick(&nodes) } else { fresh_node(rng, None) };
                if w_nodes.contains(&n) || deleted_nodes.contains(&n) {
                    continue;
                }
                w_nodes.insert(n);
                let nt = node_types();
                ops.push(Mop::UpsertNode { node: n, tys: [*rng.pick(&nt), *rng.pick(&nt)] });
            }
            5 if pp.allow_delete_node => {
                let n = *rng.pick(&nodes);
                if Some(n) == inst_root || is_portal_owner_node(st, w, n) || w_nodes.contains(&n) || w_natt.contains(&n) || new_endpoints.contains(&n) || bucket_nodes.contains(&n) {
                    continue;
                }
                let inc = st.incident_edges(w, n);
                if inc.iter().any(|(e, f, t)| {
                    is_portal_owner_edge(st, w, *e) || w_edges.contains(e) || w_eatt.contains(e) || bucket_nodes.contains(f) || deleted_nodes.contains(f) || deleted_nodes.contains(t)
                }) {
                    continue;
                }
                // a node that is the root of a child instance's parent chain cannot occur
                // (portal owners excluded above)
                w_nodes.insert(n);
                w_natt.insert(n);
                deleted_nodes.insert(n);
                for (e, f, _) in &inc {
                    w_edges.insert(*e);
                    w_eatt.insert(*e);
                    bucket_nodes.insert(*f);
                }
                ops.push(Mop::DeleteNode { node: n, incident: inc.iter().map(|(e, f, _)| (*e, *f)).collect() });
            }
            6 | 7 => {
                // fresh edge
                let from = *rng.pick(&nodes);
                let to = *rng.pick(&nodes);
                if deleted_nodes.contains(&from) || deleted_nodes.contains(&to) || !st.nodes.contains_key(&(w, from)) || !st.nodes.contains_key(&(w, to)) {
                    continue;
                }
                let e = fresh_edge(rng);
                w_edges.insert(e);
                bucket_nodes.insert(from);
                new_endpoints.insert(from);
                new_endpoints.insert(to);
                let et = edge_types();
                ops.push(Mop::ReadNode(to));
                ops.push(Mop::UpsertEdge { edge: e, from, to, tys: [*rng.pick(&et), *rng.pick(&et)], old_from: None });
            }
            8 | 9 if !edges.is_empty() => {
                // overwrite an existing edge: retype / retarget / reparent
                let e = *rng.pick(&edges);
                if w_edges.contains(&e) || w_eatt.contains(&e) {
                    continue;
                }
                let (f, t, _) = st.edges[&(w, e)];
                if deleted_nodes.contains(&f) || deleted_nodes.contains(&t) {
                    continue;
                }
                let et = edge_types();
                let mode = rng.below(3);
                let (nf, nt_) = match mode {
                    0 => (f, t),
                    1 => (f, *rng.pick(&nodes)),
                    _ => (*rng.pick(&nodes), t),
                };
                if !st.nodes.contains_key(&(w, nf)) || !st.nodes.contains_key(&(w, nt_)) || deleted_nodes.contains(&nf) || deleted_nodes.contains(&nt_) {
                    continue;
                }
                let reparent = nf != f;
                if reparent && (!pp.allow_reparent || is_portal_owner_edge(st, w, e)) {
                    continue;
                }
                w_edges.insert(e);
                bucket_nodes.insert(nf);
                new_endpoints.insert(nf);
                new_endpoints.insert(nt_);
                if reparent {
                    bucket_nodes.insert(f);
                }
                ops.push(Mop::ReadNode(nt_));
                ops.push(Mop::UpsertEdge { edge: e, from: nf, to: nt_, tys: [*rng.pick(&et), *rng.pick(&et)], old_from: reparent.then_some(f) });
            }
            10 if !edges.is_empty() => {
                let e = *rng.pick(&edges);
                if is_portal_owner_edge(st, w, e) || w_edges.contains(&e) || w_eatt.contains(&e) {
                    continue;
                }
                let (f, _, _) = st.edges[&(w, e)];
                if deleted_nodes.contains(&f) {
                    continue;
                }
                w_edges.insert(e);
                w_eatt.insert(e);
                bucket_nodes.insert(f);
                ops.push(Mop::DeleteEdge { edge: e, from: f });
            }
            11 | 12 if !edges.is_empty() && pp.allow_reparent && pp.allow_recreate => {
                // delete-then-recreate under the same id: move an edge to another source
                // (and/or target); sometimes delete the old source node in the same rewrite
                let e = *rng.pick(&edges);
                if is_portal_owner_edge(st, w, e) || w_edges.contains(&e) || w_eatt.contains(&e) {
                    continue;
                }
                let (f, t, _) = st.edges[&(w, e)];
                let nf = *rng.pick(&nodes);
                let nt_ = if rng.chance(1, 3) { *rng.pick(&nodes) } else { t };
                if deleted_nodes.contains(&f) || deleted_nodes.contains(&t) || deleted_nodes.contains(&nf) || deleted_nodes.contains(&nt_)
                    || !st.nodes.contains_key(&(w, nf)) || !st.nodes.contains_key(&(w, nt_)) || bucket_nodes.contains(&f) || bucket_nodes.contains(&nf)
                {
                    continue;
                }
                let mut delete_old_from = None;
                if pp.allow_delete_node && nf != f && nt_ != f && rng.chance(1, 2) && Some(f) != inst_root && !is_portal_owner_node(st, w, f) && !w_nodes.contains(&f) && !w_natt.contains(&f) && !new_endpoints.contains(&f) {
                    let inc: Vec<(EdgeId, NodeId, NodeId)> = st.incident_edges(w, f).into_iter().filter(|(e2, _, _)| *e2 != e).collect();
                    let blocked = inc.iter().any(|(e2, f2, t2)| {
                        is_portal_owner_edge(st, w, *e2) || w_edges.contains(e2) || w_eatt.contains(e2) || bucket_nodes.contains(f2) || deleted_nodes.contains(f2) || deleted_nodes.contains(t2) || *f2 == nf || *t2 == nf
                    });
                    if !blocked {
                        for (e2, f2, _) in &inc {
                            w_edges.insert(*e2);
                            w_eatt.insert(*e2);
                            bucket_nodes.insert(*f2);
                        }
                        w_nodes.insert(f);
                        w_natt.insert(f);
                        deleted_nodes.insert(f);
                        delete_old_from = Some(inc.iter().map(|(e2, f2, _)| (*e2, *f2)).collect::<Vec<_>>());
                    }
                }
                w_edges.insert(e);
                w_eatt.insert(e);
                bucket_nodes.insert(f);
                bucket_nodes.insert(nf);
                new_endpoints.insert(nf);
                new_endpoints.insert(nt_);
                let et = edge_types();
                ops.push(Mop::ReadNode(nt_));
                ops.push(Mop::RecreateEdge { edge: e, old_from: f, new_from: nf, to: nt_, tys: [*rng.pick(&et), *rng.pick(&et)], restore_att: rng.chance(2, 3), delete_old_from });
            }
            100 => {
                // open a portal on a node or edge that has no Descend attachment yet
                let child = fresh_warp(rng);
                let child_root = fresh_node(rng, None);
                let root_ty = *rng.pick(&node_types());
                if rng.chance(1, 2) || edges.is_empty() {
                    let n = *rng.pick(&nodes);
                    if is_portal_owner_node(st, w, n) || w_natt.contains(&n) || deleted_nodes.contains(&n) {
                        continue;
                    }
                    w_natt.insert(n);
                    ops.push(Mop::OpenPortalNode { node: n, child, child_root, root_ty });
                } else {
                    let e = *rng.pick(&edges);
                    if is_portal_owner_edge(st, w, e) || w_eatt.contains(&e) || w_edges.contains(&e) {
                        continue;
                    }
                    w_eatt.insert(e);
                    ops.push(Mop::OpenPortalEdge { edge: e, child, child_root, root_ty });
                }
            }
            _ => continue,
        }
        written += 1;
    }
    // boundary ports: footprint-only declarations from a pool of three per instance
    if pp.ports && rng.chance(1, 3) {
        ops.push(Mop::ClaimPort { port: rng.below(3), out: rng.chance(1, 2) });
        if rng.chance(1, 4) {
            ops.push(Mop::ClaimPort { port: rng.below(3), out: rng.chance(1, 2) });
        }
    }
    let mut p = Program {
        slot,
        warp: w,
        scope,
        salt: rng.next_u64(),
        ops,
        footprint: warp_core::Footprint::default(),
        matches: true,
    };
    p.footprint = p.honest_footprint();
    p
}

pub struct TickParams {
    pub n_candidates: usize,
    pub prog: ProgParams,
    pub use_sys_slot: bool,
}

/// A candidate set: distinct `(slot, warp, scope)` triples with their programs.
pub fn gen_candidates(rng: &mut Rng, g: &GenGraph, tp: &TickParams) -> Vec<Program> {
    let mut out: Vec<Program> = Vec::new();
    let mut seen: BTreeSet<(usize, WarpId, NodeId)> = BTreeSet::new();
    let scopes: Vec<(WarpId, NodeId)> = g.state.nodes.keys().copied().collect();
    let mut guard = 0;
    while out.len() < tp.n_candidates && guard < tp.n_candidates * 20 + 100 {
        guard += 1;
        let (w, s) = *rng.pick(&scopes);
        let slot = if tp.use_sys_slot && rng.chance(1, 12) { SYS_SLOT } else { rng.below_usize(N_SLOTS) };
        if !seen.insert((slot, w, s)) {
            continue;
        }
        out.push(gen_program(rng, &g.state, slot, w, s, &tp.prog));
    }
    out
}

/// Owner instance of an attachment key.
pub fn key_warp(k: &AttachmentKey) -> WarpId {
    match k.owner {
        AttachmentOwner::Node(n) => n.warp_id,
        AttachmentOwner::Edge(e) => e.warp_id,
    }
}
