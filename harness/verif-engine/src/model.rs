//! Abstract graph state: canonical, layout-independent content of a `WarpState`,
//! extracted only through public accessors (+ the `warp_ids`/`instances` doors),
//! and the way back (building a real `WarpState` from an abstract one through
//! successive tick patches — the only construction path an outsider has).

use std::collections::{BTreeMap, BTreeSet};

use warp_core::{
    AtomPayload, AttachmentKey, AttachmentOwner, AttachmentValue, EdgeId, EdgeKey, EdgeRecord,
    NodeId, NodeKey, NodeRecord, PortalInit, TickCommitStatus, TypeId, WarpId, WarpInstance,
    WarpOp, WarpState, WarpTickPatchV1,
};

#[derive(Clone, Debug, PartialEq, Eq, PartialOrd, Ord, Hash)]
pub enum AVal {
    Atom(TypeId, Vec<u8>),
    Descend(WarpId),
}

impl AVal {
    pub fn from_real(v: &AttachmentValue) -> Self {
        match v {
            AttachmentValue::Atom(a) => Self::Atom(a.type_id, a.bytes.to_vec()),
            AttachmentValue::Descend(w) => Self::Descend(*w),
        }
    }
    pub fn to_real(&self) -> AttachmentValue {
        match self {
            Self::Atom(t, b) => AttachmentValue::Atom(AtomPayload::new(*t, b.clone().into())),
            Self::Descend(w) => AttachmentValue::Descend(*w),
        }
    }
}

#[derive(Clone, Debug, PartialEq, Eq)]
pub struct AInst {
    pub root: NodeId,
    pub parent: Option<AttachmentKey>,
}

#[derive(Clone, Debug, Default, PartialEq, Eq)]
pub struct AState {
    pub insts: BTreeMap<WarpId, AInst>,
    pub nodes: BTreeMap<(WarpId, NodeId), TypeId>,
    /// edge -> (from, to, type)
    pub edges: BTreeMap<(WarpId, EdgeId), (NodeId, NodeId, TypeId)>,
    pub natt: BTreeMap<(WarpId, NodeId), AVal>,
    pub eatt: BTreeMap<(WarpId, EdgeId), AVal>,
}

/// Structural problems found while extracting (storage invariants that the
/// public accessors expose): an attachment whose owner does not exist, an edge
/// listed in a bucket that disagrees with its `from`, duplicate edge ids.
#[derive(Clone, Debug, Default)]
pub struct ExtractIssues(pub Vec<String>);

impl AState {
    /// Extract the canonical content of a real state.
    pub fn extract(state: &WarpState) -> (Self, ExtractIssues) {
        let mut out = Self::default();
        let mut issues = ExtractIssues::default();
        let ids = warp_core::verif::warp_ids(state);
        let store_ids = warp_core::verif::store_ids(state);
        if ids != store_ids {
            issues
                .0
                .push(format!("instance ids {ids:?} != store ids {store_ids:?}"));
        }
        for inst in warp_core::verif::instances(state) {
            out.insts.insert(
                inst.warp_id,
                AInst {
                    root: inst.root_node,
                    parent: inst.parent,
                },
            );
        }
        for w in store_ids {
            let Some(store) = state.store(&w) else { continue };
            if store.warp_id() != w {
                issues.0.push(format!("store under {w:?} says warp {:?}", store.warp_id()));
            }
            for (id, rec) in store.iter_nodes() {
                out.nodes.insert((w, *id), rec.ty);
            }
            for (from, bucket) in store.iter_edges() {
                for e in bucket {
                    if e.from != *from {
                        issues.0.push(format!("edge {:?} in bucket {:?} has from {:?}", e.id, from, e.from));
                    }
                    if out.edges.insert((w, e.id), (e.from, e.to, e.ty)).is_some() {
                        issues.0.push(format!("edge id {:?} appears twice", e.id));
                    }
                    if !store.has_edge(&e.id) {
                        issues.0.push(format!("edge {:?} in bucket but has_edge is false", e.id));
                    }
                }
            }
            for (id, v) in store.iter_node_attachments() {
                out.natt.insert((w, *id), AVal::from_real(v));
            }
            for (id, v) in store.iter_edge_attachments() {
                out.eatt.insert((w, *id), AVal::from_real(v));
            }
        }
        for k in out.natt.keys() {
            if !out.nodes.contains_key(k) {
                issues.0.push(format!("node attachment on missing node {k:?}"));
            }
        }
        for k in out.eatt.keys() {
            if !out.edges.contains_key(k) {
                issues.0.push(format!("edge attachment on missing edge {k:?}"));
            }
        }
        (out, issues)
    }

    pub fn att_at(&self, key: &AttachmentKey) -> Option<&AVal> {
        match key.owner {
            AttachmentOwner::Node(n) => self.natt.get(&(n.warp_id, n.local_id)),
            AttachmentOwner::Edge(e) => self.eatt.get(&(e.warp_id, e.local_id)),
        }
    }

    /// Out-edges of a node sorted by edge id.
    pub fn out_edges(&self, w: WarpId, n: NodeId) -> Vec<(EdgeId, NodeId, TypeId)> {
        self.edges
            .range((w, EdgeId([0; 32]))..=(w, EdgeId([0xff; 32])))
            .filter(|(_, v)| v.0 == n)
            .map(|(k, v)| (k.1, v.1, v.2))
            .collect()
    }

    /// All edges incident to a node (as `from` or `to`).
    pub fn incident_edges(&self, w: WarpId, n: NodeId) -> Vec<(EdgeId, NodeId, NodeId)> {
        self.edges
            .range((w, EdgeId([0; 32]))..=(w, EdgeId([0xff; 32])))
            .filter(|(_, v)| v.0 == n || v.1 == n)
            .map(|(k, v)| (k.1, v.0, v.1))
            .collect()
    }

    /// Depth of every instance below the parent-less ones (for staged construction).
    fn depth(&self, w: &WarpId) -> usize {
        let mut d = 0;
        let mut cur = *w;
        let mut guard = 0;
        while let Some(AInst { parent: Some(p), .. }) = self.insts.get(&cur) {
            cur = match p.owner {
                AttachmentOwner::Node(n) => n.warp_id,
                AttachmentOwner::Edge(e) => e.warp_id,
            };
            d += 1;
            guard += 1;
            if guard > 64 {
                break;
            }
        }
        d
    }

    /// Build a real `WarpState` holding exactly this content. Content ops are
    /// applied in the order given by `order_seed` (different seeds produce
    /// different insertion orders / bucket layouts for the same content).
    pub fn build(&self, order_seed: u64) -> Result<WarpState, String> {
        let mut state = WarpState::new();
        let max_depth = self.insts.keys().map(|w| self.depth(w)).max().unwrap_or(0);
        let mut rng = verif_core::Rng::new(order_seed);
        for d in 0..=max_depth {
            // 1. instances at this depth
            let mut inst_ops = Vec::new();
            for (w, inst) in &self.insts {
                if self.depth(w) != d {
                    continue;
                }
                match inst.parent {
                    None => inst_ops.push(WarpOp::UpsertWarpInstance {
                        instance: WarpInstance {
                            warp_id: *w,
                            root_node: inst.root,
                            parent: None,
                        },
                    }),
                    Some(key) => {
                        let ty = self
                            .nodes
                            .get(&(*w, inst.root))
                            .copied()
                            .ok_or_else(|| format!("child root missing in abstract state: {w:?}"))?;
                        // A portal whose owner slot really holds Descend(w) is opened
                        // with OpenPortal; a parent link that is not backed by the slot
                        // (ill-formed on purpose) can only be written as a raw instance.
                        if self.att_at(&key) == Some(&AVal::Descend(*w)) {
                            inst_ops.push(WarpOp::OpenPortal {
                                key,
                                child_warp: *w,
                                child_root: inst.root,
                                init: PortalInit::Empty {
                                    root_record: NodeRecord { ty },
                                },
                            });
                        } else {
                            inst_ops.push(WarpOp::UpsertWarpInstance {
                                instance: WarpInstance {
                                    warp_id: *w,
                                    root_node: inst.root,
                                    parent: Some(key),
                                },
                            });
                        }
                    }
                }
            }
            apply_ops(&mut state, inst_ops)?;
            // 2. content of the instances at this depth, in a seeded order
            let mut node_ops = Vec::new();
            let mut edge_ops = Vec::new();
            let mut att_ops = Vec::new();
            for ((w, n), ty) in &self.nodes {
                if self.depth(w) == d {
                    node_ops.push(WarpOp::UpsertNode {
                        node: NodeKey { warp_id: *w, local_id: *n },
                        record: NodeRecord { ty: *ty },
                    });
                }
            }
            for ((w, e), (from, to, ty)) in &self.edges {
                if self.depth(w) == d {
                    edge_ops.push(WarpOp::UpsertEdge {
                        warp_id: *w,
                        record: EdgeRecord { id: *e, from: *from, to: *to, ty: *ty },
                    });
                }
            }
            for ((w, n), v) in &self.natt {
                if self.depth(w) == d && !matches!(v, AVal::Descend(_)) {
                    att_ops.push(WarpOp::SetAttachment {
                        key: AttachmentKey::node_alpha(NodeKey { warp_id: *w, local_id: *n }),
                        value: Some(v.to_real()),
                    });
                }
            }
            for ((w, e), v) in &self.eatt {
                if self.depth(w) == d && !matches!(v, AVal::Descend(_)) {
                    att_ops.push(WarpOp::SetAttachment {
                        key: AttachmentKey::edge_beta(EdgeKey { warp_id: *w, local_id: *e }),
                        value: Some(v.to_real()),
                    });
                }
            }
            // One op per patch in shuffled order within each class so that bucket
            // insertion order really varies with the seed (a single patch would
            // sort them).
            rng.shuffle(&mut node_ops);
            rng.shuffle(&mut edge_ops);
            rng.shuffle(&mut att_ops);
            if order_seed == 0 {
                apply_ops(&mut state, node_ops)?;
                apply_ops(&mut state, edge_ops)?;
                apply_ops(&mut state, att_ops)?;
            } else {
                for op in node_ops.into_iter().chain(edge_ops).chain(att_ops) {
                    apply_ops(&mut state, vec![op])?;
                }
            }
        }
        Ok(state)
    }

    /// Content reachable from `root` per the statement: nodes reachable over
    /// edges inside an instance, plus, through every reachable `Descend`
    /// attachment, the child instance's root. Written from the statement, not
    /// from `snapshot.rs`.
    pub fn reachable(&self, root: NodeKey) -> (BTreeSet<WarpId>, BTreeSet<(WarpId, NodeId)>) {
        let mut warps = BTreeSet::new();
        let mut nodes = BTreeSet::new();
        let mut work = vec![(root.warp_id, root.local_id)];
        warps.insert(root.warp_id);
        while let Some((w, n)) = work.pop() {
            if !nodes.insert((w, n)) {
                continue;
            }
            if let Some(AVal::Descend(child)) = self.natt.get(&(w, n)) {
                if let Some(ci) = self.insts.get(child) {
                    warps.insert(*child);
                    work.push((*child, ci.root));
                }
            }
            for (e, to, _) in self.out_edges(w, n) {
                work.push((w, to));
                if let Some(AVal::Descend(child)) = self.eatt.get(&(w, e)) {
                    if let Some(ci) = self.insts.get(child) {
                        warps.insert(*child);
                        work.push((*child, ci.root));
                    }
                }
            }
        }
        (warps, nodes)
    }

    /// Canonical bytes of the whole content (for distinct-case counting and diffs).
    pub fn canonical_bytes(&self) -> Vec<u8> {
        format!("{self:?}").into_bytes()
    }

    /// Human-readable first difference between two abstract states.
    pub fn first_diff(&self, other: &Self) -> String {
        macro_rules! cmp_map {
            ($name:literal, $a:expr, $b:expr) => {
                for (k, v) in $a.iter() {
                    match $b.get(k) {
                        None => return format!("{}: {:?} only on the left (= {:?})", $name, short(k), v),
                        Some(w) if w != v => {
                            return format!("{}: {:?} left {:?} right {:?}", $name, short(k), v, w)
                        }
                        _ => {}
                    }
                }
                for (k, v) in $b.iter() {
                    if !$a.contains_key(k) {
                        return format!("{}: {:?} only on the right (= {:?})", $name, short(k), v);
                    }
                }
            };
        }
        cmp_map!("instance", self.insts, other.insts);
        cmp_map!("node", self.nodes, other.nodes);
        cmp_map!("edge", self.edges, other.edges);
        cmp_map!("node-attachment", self.natt, other.natt);
        cmp_map!("edge-attachment", self.eatt, other.eatt);
        "equal".to_owned()
    }
}

fn short<T: std::fmt::Debug>(k: &T) -> String {
    let s = format!("{k:?}");
    if s.len() > 160 {
        format!("{}…", &s[..160])
    } else {
        s
    }
}

pub fn apply_ops(state: &mut WarpState, ops: Vec<WarpOp>) -> Result<(), String> {
    if ops.is_empty() {
        return Ok(());
    }
    let patch = WarpTickPatchV1::new(
        0,
        [0u8; 32],
        TickCommitStatus::Committed,
        Vec::new(),
        Vec::new(),
        ops,
    );
    patch
        .apply_to_state(state)
        .map_err(|e| format!("apply_to_state failed while building a state: {e:?}"))
}
