fn main() {
    let args = verif_core::Args::parse();
    println!("{args:?} {:?}", warp_core::make_node_id("x"));
}
