//! verif-engine: checks that drive the real `warp_core::Engine`, scheduler,
//! tick patches, state roots and footprint enforcement (C01 C02 C03 C04 C06 C14).

mod c01;
mod c02;
mod c03;
mod c04;
mod c06;
mod c14;
mod gen;
mod model;
mod prog;
mod tick;

fn main() {
    let args = verif_core::Args::parse();
    let code = match args.prop.as_str() {
        "C01" => c01::run(&args),
        "C02" => c02::run(&args),
        "C03" => c03::run(&args),
        "C04" => c04::run(&args),
        "C06" => c06::run(&args),
        "C14" => c14::run(&args),
        other => {
            println!("HARNESS-ERROR unknown property {other}");
            2
        }
    };
    std::process::exit(code);
}
