//! verif-engine: checks that drive the real `warp_core::Engine`, scheduler,
//! tick patches, state roots and footprint enforcement (C01 C02 C03 C04 C06 C14).

mod c03;

fn main() {
    let args = verif_core::Args::parse();
    let code = match args.prop.as_str() {
        "C03" => c03::run(&args),
        other => {
            println!("HARNESS-ERROR unknown property {other}");
            2
        }
    };
    std::process::exit(code);
}
