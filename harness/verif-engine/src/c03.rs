//! C03 — admission is the canonical greedy independent set with exact blockers.
//!
//! Reference model (written from the statement, shares nothing with
//! `scheduler.rs`): candidates sorted by `(scope hash bytes, rule id)`, last
//! enqueue wins for equal keys, greedy accept when the footprint conflicts with
//! no previously *accepted* candidate; conflict = a write overlapping a
//! read-or-write of the same node / edge / attachment, or any shared port, in
//! the same instance. Rejected candidates reserve nothing.
//!
//! The real code is driven through the `echo_verif` raw-key door
//! (`warp_core::verif::sched`): enqueue → drain → reserve on both scheduler
//! kinds, plus the engine's blocker predicate `footprints_conflict` and the
//! legacy `Footprint::independent` with sound partition masks.

use std::collections::BTreeMap;

use verif_core::{json, run_shards, Args, Budget, Report, Rng, Value};
use warp_core::verif::sched::Sched;
use warp_core::{
    make_node_id, make_warp_id, AttachmentKey, EdgeId, EdgeKey, Footprint, Hash, NodeId, NodeKey,
    SchedulerKind, WarpId,
};

// ---------------------------------------------------------------------------
// Abstract footprints over a resource universe
// ---------------------------------------------------------------------------

/// Per-resource access: bit0 = read (or port-in), bit1 = write (or port-out).
#[derive(Clone, Debug, PartialEq, Eq, PartialOrd, Ord, Hash)]
pub struct AFoot {
    /// `(warp, kind, index) -> access bits`; kind 0 node, 1 edge, 2 attachment, 3 port.
    pub acc: BTreeMap<(u8, u8, u8), u8>,
}

impl AFoot {
    fn is_empty(&self) -> bool {
        self.acc.is_empty()
    }
}

/// The statement's conflict predicate.
pub fn ref_conflict(a: &AFoot, b: &AFoot) -> bool {
    for (res, &xa) in &a.acc {
        let Some(&xb) = b.acc.get(res) else { continue };
        if xa == 0 || xb == 0 {
            continue;
        }
        if res.1 == 3 {
            // any shared boundary port
            return true;
        }
        let (ar, aw) = (xa & 1 != 0, xa & 2 != 0);
        let (br, bw) = (xb & 1 != 0, xb & 2 != 0);
        if (aw && (br || bw)) || (bw && (ar || aw)) {
            return true;
        }
    }
    false
}

/// Reference greedy admission over candidates already in canonical order.
/// Returns per candidate `(accepted, blockers = indices of earlier accepted
/// candidates it conflicts with)`.
pub fn ref_admit(foots: &[&AFoot]) -> Vec<(bool, Vec<u32>)> {
    let mut accepted: Vec<usize> = Vec::new();
    let mut out = Vec::with_capacity(foots.len());
    for (i, f) in foots.iter().enumerate() {
        let blockers: Vec<u32> = accepted
            .iter()
            .filter(|&&j| ref_conflict(f, foots[j]))
            .map(|&j| j as u32)
            .collect();
        if blockers.is_empty() {
            accepted.push(i);
            out.push((true, blockers));
        } else {
            out.push((false, blockers));
        }
    }
    out
}

pub struct Universe {
    pub warps: Vec<WarpId>,
}

impl Universe {
    pub fn new(n_warps: usize) -> Self {
        Self {
            warps: (0..n_warps)
                .map(|i| make_warp_id(&format!("verif/c03/w{i}")))
                .collect(),
        }
    }
    fn node(i: u8) -> NodeId {
        make_node_id(&format!("verif/c03/n{i}"))
    }
    fn edge(i: u8) -> EdgeId {
        warp_core::make_edge_id(&format!("verif/c03/e{i}"))
    }
    fn att_owner(i: u8) -> NodeId {
        make_node_id(&format!("verif/c03/a{i}"))
    }
    fn port(i: u8) -> u64 {
        0x5000_0000_0000_0000 | (u64::from(i) << 2)
    }

    /// Real footprint with a *sound* partition mask (one bit per touched
    /// resource, folded into 64 bits).
    pub fn real(&self, f: &AFoot) -> Footprint {
        let mut fp = Footprint::default();
        for (&(w, kind, idx), &x) in &f.acc {
            if x == 0 {
                continue;
            }
            let warp = self.warps[w as usize];
            let bit = (u32::from(w) * 29 + u32::from(kind) * 7 + u32::from(idx)) % 64;
            fp.factor_mask |= 1u64 << bit;
            match kind {
                0 => {
                    let k = NodeKey {
                        warp_id: warp,
                        local_id: Self::node(idx),
                    };
                    if x & 1 != 0 {
                        fp.n_read.insert(k);
                    }
                    if x & 2 != 0 {
                        fp.n_write.insert(k);
                    }
                }
                1 => {
                    let k = EdgeKey {
                        warp_id: warp,
                        local_id: Self::edge(idx),
                    };
                    if x & 1 != 0 {
                        fp.e_read.insert(k);
                    }
                    if x & 2 != 0 {
                        fp.e_write.insert(k);
                    }
                }
                2 => {
                    let k = AttachmentKey::node_alpha(NodeKey {
                        warp_id: warp,
                        local_id: Self::att_owner(idx),
                    });
                    if x & 1 != 0 {
                        fp.a_read.insert(k);
                    }
                    if x & 2 != 0 {
                        fp.a_write.insert(k);
                    }
                }
                _ => {
                    if x & 1 != 0 {
                        fp.b_in.insert(warp, Self::port(idx));
                    }
                    if x & 2 != 0 {
                        fp.b_out.insert(warp, Self::port(idx));
                    }
                }
            }
        }
        fp
    }
}

/// Decode footprint number `code` over `n_warps` instances × 4 resources with
/// `states` access states per resource (3 = none/read/write, 4 adds read+write).
fn decode_foot(mut code: u32, n_warps: u8, states: u32, warp_map: &[u8]) -> AFoot {
    let mut acc = BTreeMap::new();
    for w in 0..n_warps {
        for kind in 0..4u8 {
            let d = code % states;
            code /= states;
            let x = match d {
                0 => 0u8,
                1 => 1,
                2 => 2,
                _ => 3,
            };
            if x != 0 {
                acc.insert((warp_map[w as usize], kind, 0u8), x);
            }
        }
    }
    AFoot { acc }
}

// ---------------------------------------------------------------------------
// Driving the real schedulers
// ---------------------------------------------------------------------------

fn key_hash(i: u64) -> Hash {
    let mut h = [0u8; 32];
    h[24..].copy_from_slice(&i.to_be_bytes());
    h
}

/// Rule hash embedding the compact id big-endian so that the legacy queue
/// (ordered by rule hash) and the radix queue (ordered by compact id) define
/// the same order (DESIGN C03 "G").
fn rule_hash(compact: u32) -> Hash {
    let mut h = [0u8; 32];
    h[..4].copy_from_slice(&compact.to_be_bytes());
    h[4] = 0xEE;
    h
}

fn dummy_scope() -> NodeKey {
    NodeKey {
        warp_id: make_warp_id("verif/c03/scope"),
        local_id: make_node_id("verif/c03/scope"),
    }
}

#[derive(Clone, Debug)]
pub struct RawCand {
    pub scope_hash: Hash,
    pub compact: u32,
    pub foot: AFoot,
    pub tag: u64,
}

#[derive(Debug)]
pub struct Outcome {
    /// `(scope_hash, compact, tag, accepted, blockers)` in drain order.
    pub rows: Vec<(Hash, u32, u64, bool, Vec<u32>)>,
}

/// Run one batch through a real scheduler: enqueue in the given order, drain,
/// reserve each in drain order, attribute blockers with the engine predicate.
pub fn run_real(kind: SchedulerKind, uni: &Universe, enq: &[RawCand]) -> Outcome {
    let mut s = Sched::new(kind);
    for c in enq {
        s.enqueue(
            c.scope_hash,
            c.compact,
            rule_hash(c.compact),
            dummy_scope(),
            uni.real(&c.foot),
            c.tag,
        );
    }
    let mut drained = s.drain();
    let mut rows = Vec::with_capacity(drained.len());
    let mut accepted_ix: Vec<usize> = Vec::new();
    for i in 0..drained.len() {
        let ok = {
            let c = &mut drained[i];
            s.reserve(c)
        };
        let mut blockers = Vec::new();
        if !ok {
            for &j in &accepted_ix {
                if warp_core::verif::footprints_conflict(
                    drained[i].footprint(),
                    drained[j].footprint(),
                ) {
                    blockers.push(j as u32);
                }
            }
        } else {
            accepted_ix.push(i);
        }
        rows.push((
            drained[i].scope_hash(),
            drained[i].compact_rule(),
            drained[i].tag(),
            ok,
            blockers,
        ));
    }
    s.finalize();
    Outcome { rows }
}

/// Reference outcome for an enqueue sequence (last-wins dedupe, canonical sort,
/// greedy admission).
pub fn run_ref(enq: &[RawCand]) -> Outcome {
    let mut last: BTreeMap<(Hash, u32), &RawCand> = BTreeMap::new();
    for c in enq {
        last.insert((c.scope_hash, c.compact), c);
    }
    let ordered: Vec<&RawCand> = last.values().copied().collect();
    let foots: Vec<&AFoot> = ordered.iter().map(|c| &c.foot).collect();
    let adm = ref_admit(&foots);
    Outcome {
        rows: ordered
            .iter()
            .zip(adm)
            .map(|(c, (ok, bl))| (c.scope_hash, c.compact, c.tag, ok, bl))
            .collect(),
    }
}

fn kind_name(k: SchedulerKind) -> &'static str {
    match k {
        SchedulerKind::Radix => "radix",
        SchedulerKind::Legacy => "legacy",
    }
}

fn cand_json(c: &RawCand) -> Value {
    json!({
        "scope_hash": verif_core::hex(&c.scope_hash),
        "compact": c.compact,
        "tag": c.tag,
        "foot": c.foot.acc.iter().map(|(k, v)| json!([k.0, k.1, k.2, v])).collect::<Vec<_>>(),
    })
}

fn cand_from_json(v: &Value) -> Option<RawCand> {
    let mut scope_hash = [0u8; 32];
    let bytes = verif_core::unhex(v.get("scope_hash")?.as_str()?)?;
    if bytes.len() != 32 {
        return None;
    }
    scope_hash.copy_from_slice(&bytes);
    let mut acc = BTreeMap::new();
    for e in v.get("foot")?.as_array()? {
        let e = e.as_array()?;
        acc.insert(
            (
                e[0].as_u64()? as u8,
                e[1].as_u64()? as u8,
                e[2].as_u64()? as u8,
            ),
            e[3].as_u64()? as u8,
        );
    }
    Some(RawCand {
        scope_hash,
        compact: v.get("compact")?.as_u64()? as u32,
        tag: v.get("tag")?.as_u64()?,
        foot: AFoot { acc },
    })
}

/// Compare real vs reference for one batch on both scheduler kinds. Returns the
/// number of rejected candidates (for non-triviality accounting).
fn check_batch(rep: &mut Report, uni: &Universe, enq: &[RawCand], what: &str) -> usize {
    let want = run_ref(enq);
    let mut rejected = 0;
    for kind in [SchedulerKind::Radix, SchedulerKind::Legacy] {
        let got = run_real(kind, uni, enq);
        if got.rows != want.rows {
            // classify the first divergence
            let cls = if got.rows.len() != want.rows.len() {
                "dedupe-count"
            } else if got
                .rows
                .iter()
                .zip(&want.rows)
                .any(|(g, w)| (g.0, g.1) != (w.0, w.1))
            {
                "drain-order"
            } else if got.rows.iter().zip(&want.rows).any(|(g, w)| g.2 != w.2) {
                "last-wins"
            } else if got.rows.iter().zip(&want.rows).any(|(g, w)| g.3 != w.3) {
                "accept-reject"
            } else {
                "blockers"
            };
            let first = got
                .rows
                .iter()
                .zip(&want.rows)
                .position(|(g, w)| g != w)
                .unwrap_or(0);
            rep.violation(
                &format!("C03:{}:{}:{}", what, kind_name(kind), cls),
                &format!(
                    "{} scheduler diverges from reference admission at drained index {first}: got {:?} want {:?} (batch of {} enqueues)",
                    kind_name(kind),
                    got.rows.get(first).map(|r| (verif_core::hex4(&r.0), r.1, r.2, r.3, r.4.clone())),
                    want.rows.get(first).map(|r| (verif_core::hex4(&r.0), r.1, r.2, r.3, r.4.clone())),
                    enq.len()
                ),
                json!({"mode": "batch", "n_warps": uni.warps.len(),
                       "enq": enq.iter().take(64).map(cand_json).collect::<Vec<_>>(),
                       "truncated": enq.len() > 64}),
            );
        }
        if matches!(kind, SchedulerKind::Radix) {
            rejected = got.rows.iter().filter(|r| !r.3).count();
        }
    }
    rejected
}

// ---------------------------------------------------------------------------
// Workloads
// ---------------------------------------------------------------------------

/// Pairs over the full two-instance universe (`states` per resource).
fn pairs_shard(
    rep: &mut Report,
    uni: &Universe,
    states: u32,
    shard: usize,
    n_shards: usize,
    sample: Option<(u64, u64)>, // (seed, count) => sampled instead of exhaustive
    budget: &Budget,
) -> bool {
    let n = states.pow(8);
    // The three-state universe (6561 footprints) is precomputed; the four-state
    // one (65536) is built on the fly per sampled pair (precomputing it costs
    // ~300 MB of tree nodes per shard).
    let precomputed = states == 3;
    let foots: Vec<AFoot> = if precomputed {
        (0..n).map(|c| decode_foot(c, 2, states, &[0, 1])).collect()
    } else {
        Vec::new()
    };
    let reals: Vec<Footprint> = foots.iter().map(|f| uni.real(f)).collect();
    let mut radix = Sched::new(SchedulerKind::Radix);
    let mut legacy = Sched::new(SchedulerKind::Legacy);
    let k1 = key_hash(1);
    let k2 = key_hash(2);
    let mut complete = true;
    let mut conflicts = 0u64;
    let mut done = 0u64;

    let mut one = |rep: &mut Report, a: usize, b: usize, flip: bool| {
        let (tmp_fa, tmp_fb, tmp_ra, tmp_rb);
        let (fa, fb, ra, rb): (&AFoot, &AFoot, &Footprint, &Footprint) = if precomputed {
            (&foots[a], &foots[b], &reals[a], &reals[b])
        } else {
            tmp_fa = decode_foot(a as u32, 2, states, &[0, 1]);
            tmp_fb = decode_foot(b as u32, 2, states, &[0, 1]);
            tmp_ra = uni.real(&tmp_fa);
            tmp_rb = uni.real(&tmp_fb);
            (&tmp_fa, &tmp_fb, &tmp_ra, &tmp_rb)
        };
        let want = ref_conflict(fa, fb);
        // engine blocker predicate and legacy independence (sound masks)
        let eng = warp_core::verif::footprints_conflict(rb, ra);
        let indep = rb.independent(ra);
        let mut bad: Option<String> = None;
        if eng != want {
            bad = Some(format!("footprints_conflict={eng} reference={want}"));
        }
        if indep == want {
            bad = Some(format!("Footprint::independent={indep} reference conflict={want}"));
        }
        for (name, s) in [("radix", &mut radix), ("legacy", &mut legacy)] {
            // enqueue in either arrival order; canonical order is k1 then k2
            if flip {
                s.enqueue(k2, 7, rule_hash(7), dummy_scope(), rb.clone(), 2);
                s.enqueue(k1, 7, rule_hash(7), dummy_scope(), ra.clone(), 1);
            } else {
                s.enqueue(k1, 7, rule_hash(7), dummy_scope(), ra.clone(), 1);
                s.enqueue(k2, 7, rule_hash(7), dummy_scope(), rb.clone(), 2);
            }
            let mut d = s.drain();
            if d.len() != 2 || d[0].tag() != 1 || d[1].tag() != 2 {
                bad = Some(format!("{name}: drain order/tags wrong: {:?}", d.iter().map(warp_core::verif::sched::Cand::tag).collect::<Vec<_>>()));
            } else {
                let r1 = s.reserve(&mut d[0]);
                let r2 = s.reserve(&mut d[1]);
                if !r1 {
                    bad = Some(format!("{name}: first candidate rejected against an empty frontier"));
                }
                if r2 == want {
                    bad = Some(format!("{name}: second candidate accepted={r2}, reference conflict={want}"));
                }
            }
            s.finalize();
        }
        if want {
            conflicts += 1;
        }
        if let Some(msg) = bad {
            rep.violation(
                &format!("C03:pair:{}", msg.split(':').next().unwrap_or("pred").split('=').next().unwrap_or("pred")),
                &format!("pair a={:?} b={:?}: {msg}", fa.acc, fb.acc),
                json!({"mode": "pair", "states": states, "a": a, "b": b, "flip": flip}),
            );
        }
    };

    match sample {
        None => {
            let mut a = shard;
            while a < n as usize {
                if budget.expired() {
                    complete = false;
                    break;
                }
                for b in 0..n as usize {
                    one(rep, a, b, (a ^ b) & 1 == 1);
                    done += 1;
                }
                a += n_shards;
            }
        }
        Some((seed, count)) => {
            let mut rng = Rng::for_case(seed, "C03/pairs", shard as u64 + u64::from(states) * 1000);
            for _ in 0..count {
                if budget.expired() {
                    break;
                }
                // sparse digit-wise sampling: uniform codes conflict ~97% of the
                // time; this keeps conflicting and independent pairs balanced
                let sparse = |rng: &mut Rng| -> usize {
                    let mut code = 0u32;
                    for _ in 0..8 {
                        let d = if rng.chance(5, 8) { 0 } else { 1 + rng.below(u64::from(states) - 1) as u32 };
                        code = code * states + d;
                    }
                    code as usize
                };
                let a = sparse(&mut rng);
                let b = sparse(&mut rng);
                let flip = rng.chance(1, 2);
                one(rep, a, b, flip);
                done += 1;
                if count <= 300_000 || done % 16 == 0 {
                    rep.nontrivial_hash(((u64::from(states)) << 56) ^ ((a as u64) << 24) ^ b as u64);
                }
            }
        }
    }
    rep.evals(done);
    rep.count_max(&format!("phase_pairs{states}_elapsed_ms"), (budget.elapsed_s() * 1000.0) as u64);
    rep.count(&format!("pairs_states{states}"), done);
    rep.count(&format!("pairs_states{states}_conflicting"), conflicts);
    complete
}

/// Triples within the 81-footprint single-instance sub-universe under all 8
/// instance placements.
fn triples_shard(
    rep: &mut Report,
    uni: &Universe,
    shard: usize,
    n_shards: usize,
    stride: usize,
    budget: &Budget,
) -> bool {
    let mut complete = true;
    let (k1, k2, k3) = (key_hash(1), key_hash(2), key_hash(3));
    let mut radix = Sched::new(SchedulerKind::Radix);
    let mut legacy = Sched::new(SchedulerKind::Legacy);
    let mut done = 0u64;
    let mut unblock = 0u64;
    for placement in 0..8usize {
        let wm = |bit: usize| -> [u8; 1] { [((placement >> bit) & 1) as u8] };
        let fa: Vec<AFoot> = (0..81).map(|c| decode_foot(c, 1, 3, &wm(0))).collect();
        let fb: Vec<AFoot> = (0..81).map(|c| decode_foot(c, 1, 3, &wm(1))).collect();
        let fc: Vec<AFoot> = (0..81).map(|c| decode_foot(c, 1, 3, &wm(2))).collect();
        let ra: Vec<Footprint> = fa.iter().map(|f| uni.real(f)).collect();
        let rb: Vec<Footprint> = fb.iter().map(|f| uni.real(f)).collect();
        let rc: Vec<Footprint> = fc.iter().map(|f| uni.real(f)).collect();
        let mut idx = shard;
        while idx < 81 * 81 * 81 {
            if budget.expired() {
                complete = false;
                break;
            }
            let (a, b, c) = (idx / 6561, (idx / 81) % 81, idx % 81);
            let want = ref_admit(&[&fa[a], &fb[b], &fc[c]]);
            if !want[1].0 && want[2].0 && ref_conflict(&fc[c], &fb[b]) {
                unblock += 1; // rejected b would have blocked c had it reserved anything
            }
            for (name, s) in [("radix", &mut radix), ("legacy", &mut legacy)] {
                // arrival order rotates with the index
                let order: [usize; 3] = match idx % 6 {
                    0 => [0, 1, 2],
                    1 => [0, 2, 1],
                    2 => [1, 0, 2],
                    3 => [1, 2, 0],
                    4 => [2, 0, 1],
                    _ => [2, 1, 0],
                };
                for o in order {
                    match o {
                        0 => s.enqueue(k1, 3, rule_hash(3), dummy_scope(), ra[a].clone(), 1),
                        1 => s.enqueue(k2, 3, rule_hash(3), dummy_scope(), rb[b].clone(), 2),
                        _ => s.enqueue(k3, 3, rule_hash(3), dummy_scope(), rc[c].clone(), 3),
                    }
                }
                let mut d = s.drain();
                let tags: Vec<u64> = d.iter().map(warp_core::verif::sched::Cand::tag).collect();
                let mut got = Vec::new();
                if tags == [1, 2, 3] {
                    for x in &mut d {
                        got.push(s.reserve(x));
                    }
                }
                s.finalize();
                let want_b: Vec<bool> = want.iter().map(|w| w.0).collect();
                if got != want_b {
                    rep.violation(
                        &format!("C03:triple:{name}:accept-reject"),
                        &format!(
                            "triple placement={placement} a={:?} b={:?} c={:?}: drained tags {tags:?}, accepted {got:?}, reference {want_b:?}",
                            fa[a].acc, fb[b].acc, fc[c].acc
                        ),
                        json!({"mode": "triple", "placement": placement, "a": a, "b": b, "c": c}),
                    );
                }
            }
            done += 1;
            idx += n_shards * stride;
        }
    }
    rep.evals(done);
    rep.count("triples", done);
    rep.count("triples_rejected_middle_does_not_block", unblock);
    complete
}

fn adversarial_keys(rng: &mut Rng, n: usize, style: u64) -> Vec<(Hash, u32)> {
    let base = rng.hash32();
    let mut out = Vec::with_capacity(n);
    for i in 0..n {
        let mut h = base;
        let compact;
        match style {
            // differ only in one late 16-bit digit
            0 => {
                let digit = 15 - (i % 3);
                let v = rng.next_u32() as u16;
                h[2 * digit] = (v >> 8) as u8;
                h[2 * digit + 1] = v as u8;
                compact = (rng.below(3)) as u32;
            }
            // differ only in the last byte / rule id
            1 => {
                h[31] = rng.below(4) as u8;
                compact = rng.below(70_000) as u32; // crosses the 16-bit digit boundary of the rule id
            }
            // one random digit position per key, everything else shared
            2 => {
                let digit = rng.below_usize(16);
                let v = rng.next_u32() as u16;
                h[2 * digit] = (v >> 8) as u8;
                h[2 * digit + 1] = v as u8;
                compact = rng.below(2) as u32;
            }
            // runs of equal scope with many rules
            3 => {
                h[0] = rng.below(3) as u8;
                compact = if rng.chance(1, 8) { u32::MAX - rng.below(3) as u32 } else { rng.below(300) as u32 };
            }
            // byte-order traps: 0x00ff vs 0x0100 style neighbours in every digit
            4 => {
                let digit = rng.below_usize(16);
                let (hi, lo) = *rng.pick(&[(0x00u8, 0xffu8), (0x01, 0x00), (0xff, 0x00), (0x00, 0x01), (0x7f, 0xff), (0x80, 0x00)]);
                h[2 * digit] = hi;
                h[2 * digit + 1] = lo;
                compact = *rng.pick(&[0u32, 1, 255, 256, 65_535, 65_536, 0x0100_0000, u32::MAX]);
            }
            // fully random
            _ => {
                h = rng.hash32();
                compact = rng.next_u32();
            }
        }
        out.push((h, compact));
    }
    out
}

fn random_foot(rng: &mut Rng, n_warps: u8, width: u8) -> AFoot {
    let mut acc = BTreeMap::new();
    let touches = rng.range(0, 4);
    for _ in 0..touches {
        let w = rng.below(u64::from(n_warps)) as u8;
        let kind = rng.below(4) as u8;
        let idx = rng.below(u64::from(width)) as u8;
        let x = rng.range(1, 3) as u8;
        acc.insert((w, kind, idx), x);
    }
    AFoot { acc }
}

fn set_case(rep: &mut Report, uni: &Universe, seed: u64, case: u64, size_hint: Option<usize>) {
    let mut rng = Rng::for_case(seed, "C03/set", case);
    let n = size_hint.unwrap_or_else(|| match rng.below(6) {
        0 => rng.range_usize(0, 3),
        1 => rng.range_usize(4, 40),
        2 => rng.range_usize(1000, 1050),
        3 => rng.range_usize(10, 300),
        4 => rng.range_usize(1025, 2500),
        _ => rng.range_usize(3000, 5000),
    });
    let style = rng.below(6);
    let width = *rng.pick(&[1u8, 2, 4, 12]);
    let keys = adversarial_keys(&mut rng, n, style);
    let mut enq: Vec<RawCand> = keys
        .iter()
        .enumerate()
        .map(|(i, (h, c))| RawCand {
            scope_hash: *h,
            compact: *c,
            foot: random_foot(&mut rng, 2, width),
            tag: i as u64,
        })
        .collect();
    // duplicates: re-enqueue some keys with a *different* footprint and tag (last wins)
    let dups = if n == 0 { 0 } else { rng.below_usize(n / 4 + 2) };
    for d in 0..dups {
        let src = rng.below_usize(enq.len());
        let mut c = enq[src].clone();
        c.tag = 1_000_000 + d as u64;
        if rng.chance(1, 2) {
            c.foot = random_foot(&mut rng, 2, width);
        }
        let pos = rng.below_usize(enq.len() + 1);
        enq.insert(pos, c);
    }
    rng.shuffle(&mut enq);
    let rejected = check_batch(rep, uni, &enq, "set");
    rep.eval();
    rep.count("set_candidates", enq.len() as u64);
    rep.count("set_rejected", rejected as u64);
    rep.observe("set_size_class", match n {
        0..=2 => "0-2",
        3..=1023 => "3-1023",
        1024 => "1024",
        1025..=2999 => "1025-2999",
        _ => "3000-5000",
    });
    rep.observe("key_style", &format!("{style}"));
    if n >= 2 {
        let mut canon = Vec::new();
        for c in &enq {
            canon.extend_from_slice(&c.scope_hash);
            canon.extend_from_slice(&c.compact.to_le_bytes());
            canon.extend_from_slice(format!("{:?}", c.foot.acc).as_bytes());
        }
        if rejected > 0 || n > 1 {
            rep.nontrivial(&canon);
        }
    }
    if rep.wants_sample() && n > 2 && n < 12 {
        rep.sample(json!({"kind": "set", "case": case, "n_enqueued": enq.len(), "rejected": rejected,
                          "enq": enq.iter().map(cand_json).collect::<Vec<_>>()}));
    }
}

fn replay(args: &Args, path: &std::path::Path, mut rep: Report) -> i32 {
    let Ok(text) = std::fs::read_to_string(path) else {
        println!("HARNESS-ERROR cannot read replay file");
        return 2;
    };
    let Ok(v) = serde_json::from_str::<Value>(&text) else {
        println!("HARNESS-ERROR replay file is not JSON");
        return 2;
    };
    let r = &v["replay"];
    let uni = Universe::new(2);
    match r["mode"].as_str() {
        Some("batch") => {
            let enq: Vec<RawCand> = r["enq"]
                .as_array()
                .map(|a| a.iter().filter_map(cand_from_json).collect())
                .unwrap_or_default();
            println!("replaying batch of {} enqueues", enq.len());
            println!("reference: {:?}", run_ref(&enq).rows.iter().map(|r| (verif_core::hex4(&r.0), r.1, r.2, r.3, r.4.clone())).collect::<Vec<_>>());
            for k in [SchedulerKind::Radix, SchedulerKind::Legacy] {
                println!("{}: {:?}", kind_name(k), run_real(k, &uni, &enq).rows.iter().map(|r| (verif_core::hex4(&r.0), r.1, r.2, r.3, r.4.clone())).collect::<Vec<_>>());
            }
            check_batch(&mut rep, &uni, &enq, "set");
        }
        Some("pair") => {
            let states = r["states"].as_u64().unwrap_or(3) as u32;
            let a = r["a"].as_u64().unwrap_or(0) as u32;
            let b = r["b"].as_u64().unwrap_or(0) as u32;
            let fa = decode_foot(a, 2, states, &[0, 1]);
            let fb = decode_foot(b, 2, states, &[0, 1]);
            let enq = vec![
                RawCand { scope_hash: key_hash(1), compact: 7, foot: fa, tag: 1 },
                RawCand { scope_hash: key_hash(2), compact: 7, foot: fb, tag: 2 },
            ];
            println!("pair: {:?}", enq);
            check_batch(&mut rep, &uni, &enq, "pair");
        }
        Some("triple") => {
            let p = r["placement"].as_u64().unwrap_or(0) as usize;
            let f = |code: u64, bit: usize| decode_foot(code as u32, 1, 3, &[((p >> bit) & 1) as u8]);
            let enq = vec![
                RawCand { scope_hash: key_hash(1), compact: 3, foot: f(r["a"].as_u64().unwrap_or(0), 0), tag: 1 },
                RawCand { scope_hash: key_hash(2), compact: 3, foot: f(r["b"].as_u64().unwrap_or(0), 1), tag: 2 },
                RawCand { scope_hash: key_hash(3), compact: 3, foot: f(r["c"].as_u64().unwrap_or(0), 2), tag: 3 },
            ];
            println!("triple: {:?}", enq);
            check_batch(&mut rep, &uni, &enq, "triple");
        }
        _ => {
            println!("HARNESS-ERROR unknown replay mode");
            return 2;
        }
    }
    let _ = args;
    if rep.violations() > 0 {
        1
    } else {
        println!("replay: no divergence");
        0
    }
}

pub fn run(args: &Args) -> i32 {
    let mut rep = Report::new(
        args,
        "exploration",
        "raw (scope hash, rule id, footprint) batches fed to both real schedulers through the echo_verif door and compared with a reference greedy admission written from the statement; exhaustive ordered pairs over {none,read,write}^(node,edge,attachment) x {none,in,out}^port x 2 instances (thorough) / sampled (quick); triples over the 81-footprint single-instance universe under all 8 instance placements; sampled pairs with the combined read+write state; random sets of 0..5000 candidates with adversarial sort keys and last-wins duplicates. A case is non-trivial when it has >=2 candidates; distinct by canonical bytes of the batch (enumerated pairs/triples are distinct by construction).",
    );
    if let Some(p) = &args.replay {
        return replay(args, p, rep);
    }
    let uni = Universe::new(2);
    let budget = Budget::for_tier(args.tier, 150.0, 1500.0);
    let jobs = args.jobs.max(1);

    // 1. pairs, three-state universe
    let b1 = budget.slice(0.45);
    let complete_pairs = std::sync::atomic::AtomicBool::new(true);
    if args.is_quick() {
        run_shards(&mut rep, jobs, jobs, |shard, rep| {
            pairs_shard(rep, &uni, 3, shard, jobs, Some((args.seed, 2_000_000 / jobs as u64)), &b1);
        });
        rep.set("pairs_exhaustive", json!(false));
    } else {
        run_shards(&mut rep, jobs, jobs * 4, |shard, rep| {
            if !pairs_shard(rep, &uni, 3, shard, jobs * 4, None, &b1) {
                complete_pairs.store(false, std::sync::atomic::Ordering::Relaxed);
            }
        });
        let c = complete_pairs.load(std::sync::atomic::Ordering::Relaxed);
        rep.set("pairs_exhaustive", json!(c));
        if c {
            rep.nontrivial_enumerated(6561 * 6561);
        }
    }
    // 2. sampled pairs with the combined read+write state (4 states per resource)
    let b2 = budget.slice(0.15);
    let per = args.by_tier(2_000_000u64, 20_000_000) / jobs as u64;
    run_shards(&mut rep, jobs, jobs, |shard, rep| {
        pairs_shard(rep, &uni, 4, shard, jobs, Some((args.seed ^ 0x44, per)), &b2);
    });
    // 3. triples
    let b3 = budget.slice(0.2);
    let stride = args.by_tier(8usize, 1);
    let complete_triples = std::sync::atomic::AtomicBool::new(true);
    run_shards(&mut rep, jobs, jobs * 2, |shard, rep| {
        if !triples_shard(rep, &uni, shard, jobs * 2, stride, &b3) {
            complete_triples.store(false, std::sync::atomic::Ordering::Relaxed);
        }
    });
    let ct = complete_triples.load(std::sync::atomic::Ordering::Relaxed) && stride == 1;
    rep.set("triples_exhaustive", json!(ct));
    if ct {
        rep.nontrivial_enumerated(81 * 81 * 81 * 8);
    }
    rep.exhaustive(false); // the run as a whole also contains sampled parts
    // 4. random sets with adversarial keys; fixed boundary sizes first
    let b4 = budget.slice(0.2);
    let sizes = [0usize, 1, 2, 1023, 1024, 1025, 4096, 5000];
    let n_cases = args.by_tier(600u64, 30_000);
    run_shards(&mut rep, jobs, jobs, |shard, rep| {
        let mut case = shard as u64;
        while case < n_cases && !b4.expired() {
            let hint = if (case as usize) < sizes.len() * 2 {
                Some(sizes[case as usize % sizes.len()])
            } else {
                None
            };
            set_case(rep, &uni, args.seed, case, hint);
            case += jobs as u64;
        }
    });
    // pair/triple samples for the evidence file
    rep.sample(json!({"kind": "pair", "a": format!("{:?}", decode_foot(2 + 3 * 27, 2, 3, &[0, 1]).acc),
                      "b": format!("{:?}", decode_foot(1 + 2 * 81, 2, 3, &[0, 1]).acc),
                      "note": "ordered pair; second accepted iff no conflict with the first"}));
    rep.assumption("partition masks fed to the legacy/radix comparison are sound supersets (one bit per touched resource); mask 0 on a non-empty footprint is excluded by the statement's own proviso");
    rep.assumption("rule hashes embed the compact rule id big-endian so both queues define the same order (through the engine equal scope hashes with different rules cannot occur)");
    let floor = args.by_tier(100, 1000);
    rep.finish(floor)
}

#[allow(dead_code)]
fn _unused(_: &AFoot) -> bool {
    AFoot { acc: BTreeMap::new() }.is_empty()
}
