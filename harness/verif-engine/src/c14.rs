//! C14 — undeclared access never commits.
//!
//! (a) violation injection: an accepted program's footprint loses exactly one
//!     entry that one of its executed accesses needs (or it writes into another
//!     instance / emits an instance-level op from a user slot) ⇒ the tick must
//!     fail with a footprint violation, (b) leaving the engine state untouched;
//! (c) honest programs are never flagged;
//! (d) op-level differential: the observable change of applying one op (through
//!     exactly the `GraphView` surface) ⊆ the op's attributed write targets.

use std::collections::BTreeSet;

use verif_core::{json, run_shards, Args, Budget, Report, Rng, Value};
use warp_core::{
    AttachmentKey, AttachmentOwner, EdgeId, EdgeKey, Footprint, NodeId, NodeKey, TickCommitStatus,
    WarpId, WarpOp, WarpState, WarpTickPatchV1,
};

use crate::c01::{self, SizeClass};
use crate::gen;
use crate::prog::{self, Mop, Program};
use crate::tick::{self, Failure, TickConfig, TickResult};

/// One way of making a program dishonest.
#[derive(Clone, Debug)]
enum Lie {
    DropNodeRead(NodeId),
    DropEdgeRead(EdgeId),
    DropAttRead(AttachmentKey),
    DropNodeWrite(NodeId, &'static str),
    DropEdgeWrite(EdgeId, &'static str),
    DropAttWrite(AttachmentKey, &'static str),
    ForeignWrite(WarpId, NodeId),
    UserSlotPortal,
}

impl Lie {
    fn class(&self) -> String {
        match self {
            Self::DropNodeRead(_) => "node-or-adjacency-read".into(),
            Self::DropEdgeRead(_) => "edge-existence-read".into(),
            Self::DropAttRead(k) => match k.owner {
                AttachmentOwner::Node(_) => "node-attachment-read".into(),
                AttachmentOwner::Edge(_) => "edge-attachment-read".into(),
            },
            Self::DropNodeWrite(_, w) => format!("node-write:{w}"),
            Self::DropEdgeWrite(_, w) => format!("edge-write:{w}"),
            Self::DropAttWrite(_, w) => format!("attachment-write:{w}"),
            Self::ForeignWrite(..) => "cross-instance-write".into(),
            Self::UserSlotPortal => "instance-op-from-user-slot".into(),
        }
    }
}

fn rebuild_without(fp: &Footprint, lie: &Lie, w: WarpId) -> Footprint {
    let mut out = Footprint::default();
    let nk = |n: &NodeId| NodeKey { warp_id: w, local_id: *n };
    let ek = |e: &EdgeId| EdgeKey { warp_id: w, local_id: *e };
    for k in fp.n_read.iter() {
        if !matches!(lie, Lie::DropNodeRead(n) if nk(n) == *k) {
            out.n_read.insert(*k);
        }
    }
    for k in fp.n_write.iter() {
        if !matches!(lie, Lie::DropNodeWrite(n, _) if nk(n) == *k) {
            out.n_write.insert(*k);
        }
    }
    for k in fp.e_read.iter() {
        if !matches!(lie, Lie::DropEdgeRead(e) if ek(e) == *k) {
            out.e_read.insert(*k);
        }
    }
    for k in fp.e_write.iter() {
        if !matches!(lie, Lie::DropEdgeWrite(e, _) if ek(e) == *k) {
            out.e_write.insert(*k);
        }
    }
    for k in fp.a_read.iter() {
        if !matches!(lie, Lie::DropAttRead(a) if a == k) {
            out.a_read.insert(*k);
        }
    }
    for k in fp.a_write.iter() {
        if !matches!(lie, Lie::DropAttWrite(a, _) if a == k) {
            out.a_write.insert(*k);
        }
    }
    for (pw, p) in fp.b_in.iter() {
        out.b_in.insert(*pw, *p);
    }
    for (pw, p) in fp.b_out.iter() {
        out.b_out.insert(*pw, *p);
    }
    out.factor_mask = u64::MAX; // dishonest footprints still get a sound (conservative) mask
    out
}

/// Every lie available for a program, derived from the statement: each access
/// the program performs needs its declaration.
fn lies_for(p: &Program, other_warp: Option<(WarpId, NodeId)>) -> Vec<Lie> {
    let w = p.warp;
    let na = |n: &NodeId| AttachmentKey::node_alpha(NodeKey { warp_id: w, local_id: *n });
    let ea = |e: &EdgeId| AttachmentKey::edge_beta(EdgeKey { warp_id: w, local_id: *e });
    let mut out = Vec::new();
    for op in &p.ops {
        match op {
            Mop::ReadNode(n) | Mop::ReadAdj(n) => out.push(Lie::DropNodeRead(*n)),
            Mop::ReadNodeAtt(n) => out.push(Lie::DropAttRead(na(n))),
            Mop::ReadEdgeAtt(e) => out.push(Lie::DropAttRead(ea(e))),
            Mop::HasEdge(e) => out.push(Lie::DropEdgeRead(*e)),
            Mop::SetNodeAtt { node, .. } | Mop::ClearNodeAtt(node) => out.push(Lie::DropAttWrite(na(node), "set-node-attachment")),
            Mop::SetEdgeAtt { edge, .. } | Mop::ClearEdgeAtt(edge) => out.push(Lie::DropAttWrite(ea(edge), "set-edge-attachment")),
            Mop::UpsertNode { node, .. } => out.push(Lie::DropNodeWrite(*node, "upsert-node")),
            Mop::DeleteNode { node, incident } => {
                out.push(Lie::DropNodeWrite(*node, "delete-node"));
                out.push(Lie::DropAttWrite(na(node), "delete-node-attachment"));
                for (e, f) in incident {
                    out.push(Lie::DropEdgeWrite(*e, "delete-incident-edge"));
                    if f != node {
                        out.push(Lie::DropNodeWrite(*f, "delete-incident-edge-source"));
                    }
                    out.push(Lie::DropAttWrite(ea(e), "delete-incident-edge-attachment"));
                }
            }
            Mop::UpsertEdge { edge, from, old_from, .. } => {
                out.push(Lie::DropEdgeWrite(*edge, "upsert-edge"));
                out.push(Lie::DropNodeWrite(*from, "upsert-edge-source"));
                if let Some(of) = old_from {
                    out.push(Lie::DropNodeWrite(*of, "reparent-old-source"));
                }
            }
            Mop::DeleteEdge { edge, from } => {
                out.push(Lie::DropEdgeWrite(*edge, "delete-edge"));
                out.push(Lie::DropNodeWrite(*from, "delete-edge-source"));
                out.push(Lie::DropAttWrite(ea(edge), "delete-edge-attachment"));
            }
            Mop::OpenPortalNode { node, .. } => out.push(Lie::DropAttWrite(na(node), "open-portal")),
            Mop::OpenPortalEdge { edge, .. } => out.push(Lie::DropAttWrite(ea(edge), "open-portal")),
            Mop::Panic | Mop::ForeignSetNodeAtt { .. } | Mop::ClaimPort { .. } => {}
            Mop::RecreateEdge { edge, old_from, new_from, .. } => {
                out.push(Lie::DropEdgeWrite(*edge, "recreate-edge"));
                out.push(Lie::DropNodeWrite(*old_from, "recreate-edge/old-source"));
                out.push(Lie::DropNodeWrite(*new_from, "recreate-edge/new-source"));
            }
        }
    }
    if let Some((ow, on)) = other_warp {
        out.push(Lie::ForeignWrite(ow, on));
    }
    if p.slot != prog::SYS_SLOT {
        out.push(Lie::UserSlotPortal);
    }
    out
}

/// Does the dropped declaration remain needed by a *different* class of
/// declaration that the program still carries? (e.g. dropping `n_write(x)` while
/// another op of the same program also needs `n_write(x)` is still a lie —
/// returns false only when the lie is not a lie.)
fn still_a_lie(p: &Program, lie: &Lie) -> bool {
    // A read of x is still undeclared when n_read(x) is dropped, whatever else is declared.
    // A write stays undeclared when its set entry is dropped. So every lie from
    // lies_for is a lie; the only exception is a duplicate entry, impossible in a set.
    let _ = (p, lie);
    true
}

fn apply_lie(p: &Program, lie: &Lie, rng: &mut Rng) -> Program {
    let mut q = p.clone();
    match lie {
        Lie::ForeignWrite(ow, on) => {
            q.ops.push(Mop::ForeignSetNodeAtt { warp: *ow, node: *on });
        }
        Lie::UserSlotPortal => {
            // a fresh node gets a portal: declare the attachment write honestly, the
            // only problem is that a user slot may not emit instance-level ops
            let n = p.scope;
            q.ops = vec![Mop::OpenPortalNode { node: n, child: gen::fresh_warp(rng), child_root: gen::fresh_node(rng, None), root_ty: gen::node_types()[0] }];
            q.footprint = q.honest_footprint();
        }
        _ => {
            q.footprint = rebuild_without(&p.footprint, lie, p.warp);
        }
    }
    q
}

fn violator_case(rep: &mut Report, args: &Args, case: u64, scripted_worker: Option<usize>) {
    let c = match c01::gen_case(args.seed, "C14/viol", case, SizeClass::Small, false, true) {
        Ok(c) => c,
        Err(e) => {
            rep.inconclusive(&format!("generator: {e}"));
            return;
        }
    };
    let mut rng = Rng::for_case(args.seed, "C14/lie", case);
    let present = vec![true; c.programs.len()];
    let plan = tick::ref_plan(&c.programs, &present, &c.graph.descent);
    let accepted: Vec<usize> = plan.order.iter().enumerate().filter(|(pos, _)| plan.accepted[*pos]).map(|(_, i)| *i).collect();
    if accepted.is_empty() {
        return;
    }
    let victim = *rng.pick(&accepted);
    let other_warp = c.graph.state.nodes.keys().find(|k| k.0 != c.programs[victim].warp).map(|k| (k.0, k.1));
    let lies = lies_for(&c.programs[victim], other_warp);
    if lies.is_empty() {
        return;
    }
    let lie = rng.pick(&lies).clone();
    if !still_a_lie(&c.programs[victim], &lie) {
        return;
    }
    let mut programs = c.programs.clone();
    programs[victim] = apply_lie(&c.programs[victim], &lie, &mut rng);
    // The violator must still be *accepted* (else it never runs); with a reduced
    // footprint it can only lose conflicts, but a UserSlotPortal rewrite changes it.
    let plan2 = tick::ref_plan(&programs, &present, &c.graph.descent);
    let pos2 = plan2.order.iter().position(|&i| i == victim);
    let Some(pos2) = pos2 else { return };
    if !plan2.accepted[pos2] {
        rep.count("violator_rejected_by_scheduler", 1);
        return;
    }
    let n_acc = plan2.accepted.iter().filter(|a| **a).count();
    let rank = plan2.accepted[..pos2].iter().filter(|a| **a).count();
    let replay = json!({"mode": "violator", "seed": args.seed, "case": case, "scripted_worker": scripted_worker});
    let canonical: Vec<usize> = (0..programs.len()).collect();
    let mut cfg = TickConfig::default();
    cfg.workers = if scripted_worker.is_some() { 4 } else { *rng.pick(&[1usize, 1, 3, 4]) };
    if let Some(k) = scripted_worker {
        // every unit of this tick goes to worker k
        warp_core::verif::claim::install(warp_core::verif::claim::Mode::Explicit(vec![k]));
    }
    prog::install(&programs);
    let res = tick::run_tick(&c.pre, c.graph.root, &programs, &canonical, &c.graph.descent, &cfg);
    prog::uninstall(&programs);
    if scripted_worker.is_some() {
        let runs = warp_core::verif::claim::take_runs();
        warp_core::verif::claim::clear();
        for r in &runs {
            for (wk, _) in &r.claims {
                rep.observe("scripted_worker_seen", &format!("{wk}/{}", r.n_workers));
            }
        }
    }
    rep.eval();
    rep.count("violators_run", 1);
    rep.observe("lie_class", &lie.class());
    rep.observe("violator_rank_among_accepted", &format!("{rank}/{n_acc}"));
    rep.observe("workers", &format!("{}", cfg.workers));
    rep.nontrivial(format!("{case}-{lie:?}").as_bytes());
    let lie_sig = lie.class().replace(':', "/");
    match res {
        TickResult::Committed(_) => {
            rep.violation(
                &format!("C14:violator-committed:{lie_sig}"),
                &format!("a rewrite whose footprint omits `{lie:?}` (accepted at rank {rank} of {n_acc}, {} workers) committed", cfg.workers),
                replay.clone(),
            );
        }
        TickResult::Failed { why, state_after } => {
            match &why {
                Failure::Violation(v) | Failure::ViolationWithPanic(v) => {
                    rep.count("violations_detected", 1);
                    rep.observe("violation_kinds", &format!("{:?}", v.kind).split('(').next().unwrap_or("?").split(' ').next().unwrap_or("?").to_owned());
                }
                other => {
                    // the tick failed, but not by detection: merge error etc. Count; the
                    // statement only needs "detected, the tick fails".
                    rep.observe("non_violation_failures", &other.describe().chars().take(60).collect::<String>());
                }
            }
            if state_after != c.graph.state {
                rep.violation(
                    &format!("C14:partial-state-after-failed-tick:{lie_sig}"),
                    &format!("after the failed commit the engine state differs from the pre-tick state: {}", state_after.first_diff(&c.graph.state)),
                    replay.clone(),
                );
            }
            if rep.wants_sample() {
                rep.sample(json!({"kind": "violator", "case": case, "lie": format!("{lie:?}").chars().take(120).collect::<String>(), "outcome": why.describe().chars().take(160).collect::<String>(), "rank": rank, "accepted": n_acc, "workers": cfg.workers}));
            }
        }
        TickResult::Harness(e) => rep.inconclusive(&format!("harness: {e}")),
    }
}

/// (c) honest programs are never flagged (all generated honest ticks must commit).
fn honest_case(rep: &mut Report, args: &Args, case: u64) {
    let c = match c01::gen_case(args.seed, "C14/honest", case, if case % 4 == 0 { SizeClass::Medium } else { SizeClass::Small }, false, true) {
        Ok(c) => c,
        Err(e) => {
            rep.inconclusive(&format!("generator: {e}"));
            return;
        }
    };
    let replay = json!({"mode": "honest", "seed": args.seed, "case": case});
    let canonical: Vec<usize> = (0..c.programs.len()).collect();
    let mut cfg = TickConfig::default();
    cfg.workers = if case % 2 == 0 { 1 } else { 4 };
    prog::install(&c.programs);
    let res = tick::run_tick(&c.pre, c.graph.root, &c.programs, &canonical, &c.graph.descent, &cfg);
    prog::uninstall(&c.programs);
    rep.eval();
    match res {
        TickResult::Committed(cm) => {
            rep.count("honest_ticks_committed", 1);
            rep.count("honest_rewrites_executed", cm.receipt.entries().iter().filter(|e| matches!(e.disposition, warp_core::TickReceiptDisposition::Applied)).count() as u64);
        }
        TickResult::Failed { why, .. } => {
            let d = why.describe();
            let cls = if d.contains("cross-warp entries in a_read") { "descent-chain-read-trips-guard-constructor".to_owned() } else { format!("{:?}", d.chars().take(40).collect::<String>()).replace(|ch: char| !ch.is_ascii_alphanumeric(), "-") };
            rep.violation(&format!("C14:honest-rewrite-flagged:{cls}"), &format!("a tick of honest programs failed: {d}"), replay);
        }
        TickResult::Harness(e) => rep.inconclusive(&format!("harness: {e}")),
    }
}

// ---------------------------------------------------------------------------
// (d) op-level differential
// ---------------------------------------------------------------------------

#[derive(Debug, Clone, PartialEq, Eq, PartialOrd, Ord)]
enum Loc {
    Node(NodeId),
    Adj(NodeId),
    NodeAtt(NodeId),
    Edge(EdgeId),
    EdgeAtt(EdgeId),
}

/// Observable content of one instance through exactly the GraphView surface.
fn observe(st: &WarpState, w: WarpId, nodes: &BTreeSet<NodeId>, edges: &BTreeSet<EdgeId>) -> std::collections::BTreeMap<Loc, String> {
    let mut m = std::collections::BTreeMap::new();
    let Some(store) = st.store(&w) else { return m };
    let view = warp_core::GraphView::new(store);
    for n in nodes {
        m.insert(Loc::Node(*n), format!("{:?}", view.node(n)));
        let mut adj: Vec<String> = view.edges_from(n).map(|e| format!("{e:?}")).collect();
        adj.sort();
        m.insert(Loc::Adj(*n), format!("{adj:?}"));
        m.insert(Loc::NodeAtt(*n), format!("{:?}", view.node_attachment(n)));
    }
    for e in edges {
        m.insert(Loc::Edge(*e), format!("{}", view.has_edge(e)));
        m.insert(Loc::EdgeAtt(*e), format!("{:?}", view.edge_attachment(e)));
    }
    m
}

#[cfg(not(any(debug_assertions, feature = "enf")))]
fn op_case(_rep: &mut Report, _args: &Args, _case: u64) {
    // attribution only exists where enforcement is compiled in; run() refuses such builds
}

#[cfg(any(debug_assertions, feature = "enf"))]
fn op_case(rep: &mut Report, args: &Args, case: u64) {
    let mut rng = Rng::for_case(args.seed, "C14/op", case);
    let g = gen::gen_graph(&mut rng, &gen::GraphParams { max_instances: 2, min_nodes: 3, max_nodes: 9, few_shards: false });
    let Ok(pre) = g.state.build(0) else {
        rep.inconclusive("generator: build");
        return;
    };
    // a program with exactly one write op gives one realistic WarpOp (or a small group)
    let scopes: Vec<(WarpId, NodeId)> = g.state.nodes.keys().copied().collect();
    let (w, s) = *rng.pick(&scopes);
    let slot = rng.below_usize(prog::N_SLOTS);
    let p = gen::gen_program(&mut rng, &g.state, slot, w, s, &gen::ProgParams { pool: 4, max_writes: 1, allow_portal: false, ..gen::ProgParams::default() });
    let (effects, _) = prog::eval(&p, &prog::AbstractReader { st: &g.state, w });
    let ops = prog::effects_to_ops(&effects, &p.delete_sources());
    // the universe of locations we watch: everything in the instance + ids named by the op
    let mut nodes: BTreeSet<NodeId> = g.state.nodes.keys().filter(|k| k.0 == w).map(|k| k.1).collect();
    let mut edges: BTreeSet<EdgeId> = g.state.edges.keys().filter(|k| k.0 == w).map(|k| k.1).collect();
    let mut cur = pre;
    for op in ops {
        match &op {
            WarpOp::UpsertNode { node, .. } | WarpOp::DeleteNode { node } => { nodes.insert(node.local_id); }
            WarpOp::UpsertEdge { record, .. } => { edges.insert(record.id); nodes.insert(record.from); nodes.insert(record.to); }
            WarpOp::DeleteEdge { edge_id, from, .. } => { edges.insert(*edge_id); nodes.insert(*from); }
            _ => {}
        }
        let before = observe(&cur, w, &nodes, &edges);
        let mut next = cur.clone();
        let patch = WarpTickPatchV1::new(0, [0; 32], TickCommitStatus::Committed, vec![], vec![], vec![op.clone()]);
        if patch.apply_to_state(&mut next).is_err() {
            rep.count("op_apply_errors", 1);
            continue;
        }
        let after = observe(&next, w, &nodes, &edges);
        // attribution is store-aware: what enforcement checks against the state
        // the rewrite executed on
        let Some(store_before) = cur.store(&w) else { continue };
        let t = warp_core::verif::op_write_targets_in(store_before, &op);
        rep.eval();
        rep.count("ops_checked", 1);
        rep.observe("op_kinds", t.kind_str);
        if t.is_instance_op {
            cur = next;
            continue;
        }
        let mut unattributed: Vec<Loc> = Vec::new();
        for (loc, v) in &before {
            if after.get(loc) == Some(v) {
                continue;
            }
            let covered = match loc {
                Loc::Node(n) | Loc::Adj(n) => t.nodes.contains(n),
                Loc::Edge(e) => t.edges.contains(e),
                Loc::NodeAtt(n) => t.attachments.contains(&AttachmentKey::node_alpha(NodeKey { warp_id: w, local_id: *n })),
                Loc::EdgeAtt(e) => t.attachments.contains(&AttachmentKey::edge_beta(EdgeKey { warp_id: w, local_id: *e })),
            };
            if !covered {
                unattributed.push(loc.clone());
            }
        }
        if !unattributed.is_empty() {
            rep.nontrivial(format!("{op:?}").as_bytes());
            let reparent = matches!(&op, WarpOp::UpsertEdge { record, .. } if g.state.edges.get(&(w, record.id)).is_some_and(|e| e.0 != record.from));
            let sig = if reparent && unattributed.iter().all(|l| matches!(l, Loc::Adj(_))) {
                "C14:op-targets:UpsertEdge-reparent:old-source-adjacency-unattributed".to_owned()
            } else {
                format!("C14:op-targets:{}:unattributed-change", t.kind_str)
            };
            rep.violation(&sig, &format!("applying {} changes observable locations {unattributed:?} that are not among its attributed write targets {:?}", format!("{op:?}").chars().take(200).collect::<String>(), (&t.nodes, &t.edges, &t.attachments)), json!({"mode": "op", "seed": args.seed, "case": case}));
        } else if before != after {
            rep.nontrivial(format!("{op:?}").as_bytes());
        }
        cur = next;
    }
}

pub fn replay(args: &Args, path: &std::path::Path, mut rep: Report) -> i32 {
    let Ok(text) = std::fs::read_to_string(path) else { println!("HARNESS-ERROR cannot read replay"); return 2 };
    let Ok(v) = serde_json::from_str::<Value>(&text) else { println!("HARNESS-ERROR bad replay json"); return 2 };
    let r = &v["replay"];
    let mut a2 = args.clone();
    a2.seed = r["seed"].as_u64().unwrap_or(args.seed);
    let case = r["case"].as_u64().unwrap_or(0);
    match r["mode"].as_str() {
        Some("op") => op_case(&mut rep, &a2, case),
        Some("honest") => honest_case(&mut rep, &a2, case),
        _ => violator_case(&mut rep, &a2, case, r["scripted_worker"].as_u64().map(|x| x as usize)),
    }
    if rep.violations() > 0 { 1 } else { println!("replay: no divergence"); 0 }
}

pub fn run(args: &Args) -> i32 {
    tick::install_quiet_panic_hook();
    let mut rep = Report::new(args, "exploration",
        "generated honest candidate sets in which one ACCEPTED program is made dishonest by dropping exactly one declaration one of its executed accesses needs (node/adjacency read, attachment read, edge-existence read, each write target of each op kind incl. the old source of a re-parented edge), by writing into another instance, or by emitting an instance-level op from a user slot; run under enforcement with 1..4 workers and with the violator's unit scripted onto every worker; the tick must fail and leave the state untouched. Honest ticks must commit. Op-level: single ops applied to generated states, observable GraphView content diffed against attributed write targets. Non-trivial = every violator run / every op that changes state; distinct by (case, lie) / op bytes.");
    if let Some(p) = &args.replay { return replay(args, p, rep); }
    if !warp_core::verif::enforcement_compiled() {
        println!("HARNESS-ERROR C14 must be built with footprint enforcement compiled in (dev/fastdbg profile)");
        return 2;
    }
    let budget = Budget::for_tier(args.tier, 150.0, 1200.0);
    let jobs = args.jobs.max(1);
    let n_viol = args.by_tier(5000u64, 180_000);
    let n_honest = args.by_tier(1500u64, 30_000);
    let n_ops = args.by_tier(16_000u64, 450_000);
    let n_scripted = args.by_tier(300u64, 2_000);
    let b = budget.slice(0.4);
    run_shards(&mut rep, jobs, jobs, |shard, rep| {
        let mut case = shard as u64;
        while case < n_viol && !b.expired() {
            violator_case(rep, args, case, None);
            case += jobs as u64;
        }
    });
    let b = budget.slice(0.15);
    run_shards(&mut rep, jobs, jobs, |shard, rep| {
        let mut case = shard as u64;
        while case < n_honest && !b.expired() {
            honest_case(rep, args, case);
            case += jobs as u64;
        }
    });
    let b = budget.slice(0.3);
    run_shards(&mut rep, jobs, jobs, |shard, rep| {
        let mut case = shard as u64;
        while case < n_ops && !b.expired() {
            op_case(rep, args, case);
            case += jobs as u64;
        }
    });
    // scripted placement is process-global ⇒ sequential phase
    let b = budget.slice(0.15);
    let mut case = 1_000_000u64;
    while case < 1_000_000 + n_scripted && !b.expired() {
        violator_case(&mut rep, args, case, Some((case % 4) as usize));
        case += 1;
    }
    rep.assumption("a violator that the scheduler rejects never runs and is not counted; only accepted violators are required to be detected");
    rep.assumption("instance-level ops (OpenPortal/UpsertWarpInstance/DeleteWarpInstance) are governed by system-slot authorization, not by target attribution, and are excluded from the op-level differential");
    rep.finish(args.by_tier(100, 2000))
}
