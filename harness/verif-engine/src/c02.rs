//! C02 — parallel execution is invisible: every worker schedule commits the
//! same tick.
//!
//! Oracle: the serial (`workers(1)`) run of the identical tick. Schedules are
//! produced three ways through the `echo_verif` claim hook in
//! `execute_work_queue`: (1) exhaustively — every unit→worker assignment for
//! ticks with ≤6 work units and w ≤ 4 (each worker's claim order is ascending by
//! construction of the atomic counter, so assignments are the whole reachable
//! space: the interleaving of claims is unobservable because every worker owns
//! its delta and only reads the immutable pre-state); (2) random assignments for
//! large ticks and 1..=32 workers; (3) real racing threads with injected
//! yields/sleeps between claims, recording the assignment that actually
//! happened. (4) the five `ParallelExecutionPolicy` constants on the
//! shard-level executors vs. `execute_serial`.
//!
//! The claim hook is process-global, so everything here runs one tick at a time.

use std::collections::BTreeSet;
use std::num::NonZeroUsize;

use verif_core::{json, Args, Budget, Report, Rng, Value};
use warp_core::verif::claim::{self, Mode};
use warp_core::{
    execute_parallel_with_policy, execute_serial, ExecItem, GraphView, OpOrigin,
    ParallelExecutionPolicy, WarpOp,
};

use crate::c01::{self, Case, SizeClass};
use crate::prog;
use crate::tick::{self, TickConfig, TickResult};

fn serial_tuple(c: &Case) -> Option<std::collections::BTreeMap<&'static str, String>> {
    let canonical: Vec<usize> = (0..c.programs.len()).collect();
    claim::clear();
    match tick::run_tick(&c.pre, c.graph.root, &c.programs, &canonical, &c.graph.descent, &TickConfig::default()) {
        TickResult::Committed(cm) => Some(tick::outcome_tuple(&cm)),
        _ => None,
    }
}

/// Run the tick with `workers` under the installed claim mode; compare with the
/// serial outcome. Returns the hook's record of the run.
fn run_and_compare(
    rep: &mut Report,
    c: &Case,
    want: &std::collections::BTreeMap<&'static str, String>,
    workers: usize,
    mode: Mode,
    what: &str,
    replay: &Value,
) -> Option<claim::Run> {
    let canonical: Vec<usize> = (0..c.programs.len()).collect();
    let cfg = TickConfig { workers, ..TickConfig::default() };
    let mode_desc = format!("{mode:?}").chars().take(80).collect::<String>();
    claim::install(mode);
    let res = tick::run_tick(&c.pre, c.graph.root, &c.programs, &canonical, &c.graph.descent, &cfg);
    let runs = claim::take_runs();
    claim::clear();
    rep.eval();
    match res {
        TickResult::Committed(cm) => {
            let got = tick::outcome_tuple(&cm);
            if let Some(k) = tick::first_tuple_diff(want, &got) {
                let mut r = replay.clone();
                r["workers"] = json!(workers);
                r["mode"] = json!(mode_desc);
                r["observed"] = json!(runs.last().map(|r| r.claims.clone()));
                rep.violation(
                    &format!("C02:{what}:{k}"),
                    &format!("outcome component `{k}` differs between the serial run and {workers} workers under {mode_desc} (observed claims {:?})", runs.last().map(|r| &r.claims)),
                    r,
                );
            }
        }
        TickResult::Failed { why, .. } => {
            rep.violation(&format!("C02:{what}:parallel-run-failed"), &format!("serial run committed but the {workers}-worker run failed: {}", why.describe()), replay.clone());
        }
        TickResult::Harness(e) => rep.inconclusive(&format!("harness: {e}")),
    }
    runs.into_iter().last()
}

fn assignment_key(run: &claim::Run) -> String {
    let mut per_unit = vec![usize::MAX; run.n_units];
    for (w, u) in &run.claims {
        if *u < per_unit.len() {
            per_unit[*u] = *w;
        }
    }
    format!("{}u/{}w:{:?}", run.n_units, run.n_workers, per_unit)
}

/// (1) exhaustive assignments for small unit counts.
fn exhaustive_case(rep: &mut Report, args: &Args, case: u64, max_units: usize) {
    let Ok(c) = c01::gen_case(args.seed, "C02/exh", case, SizeClass::Small, false, true) else {
        rep.inconclusive("generator");
        return;
    };
    let replay = json!({"mode": "exhaustive", "seed": args.seed, "case": case});
    prog::install(&c.programs);
    let Some(want) = serial_tuple(&c) else {
        prog::uninstall(&c.programs);
        return;
    };
    // learn the unit count with an observing run
    let Some(probe) = run_and_compare(rep, &c, &want, 4, Mode::Observe, "observe", &replay) else {
        prog::uninstall(&c.programs);
        rep.inconclusive("claim hook not reached (no work units)");
        return;
    };
    let n = probe.n_units;
    if n < 2 || n > max_units {
        prog::uninstall(&c.programs);
        rep.count("exhaustive_skipped_unit_count", 1);
        return;
    }
    let mut complete = true;
    for w in 2..=4usize {
        let w_eff = w.min(n);
        let total = (w_eff as u128).pow(n as u32);
        for a in 0..total {
            let run = run_and_compare(rep, &c, &want, w, Mode::AssignmentIndex(a), "scripted-assignment", &replay);
            match run {
                Some(r) => {
                    // the hook must have produced exactly the requested assignment
                    let mut expect = Vec::new();
                    let mut x = a;
                    for _ in 0..n {
                        expect.push((x % w_eff as u128) as usize);
                        x /= w_eff as u128;
                    }
                    let mut per_unit = vec![usize::MAX; n];
                    for (wk, u) in &r.claims {
                        per_unit[*u] = *wk;
                    }
                    if per_unit != expect || r.n_workers != w_eff {
                        rep.inconclusive("claim script did not take effect as requested");
                        complete = false;
                    }
                    rep.observe("assignments_seen", &assignment_key(&r));
                    rep.count("scripted_assignments_run", 1);
                }
                None => complete = false,
            }
        }
    }
    if complete {
        rep.count("exhaustive_ticks", 1);
        rep.observe("exhaustive_unit_counts", &format!("{n}"));
        rep.nontrivial(format!("exh-{case}-{n}").as_bytes());
        if rep.wants_sample() {
            rep.sample(json!({"kind": "exhaustive", "case": case, "units": n, "assignments_per_worker_count": {"2": 2u64.pow(n as u32), "3": 3u64.pow(n as u32), "4": 4u64.pow(n as u32)}, "candidates": c.programs.len()}));
        }
    }
    prog::uninstall(&c.programs);
}

/// (2) random scripted assignments and (3) racing threads with jitter.
fn large_case(rep: &mut Report, args: &Args, case: u64, size: SizeClass, n_random: usize, n_racing: usize) {
    let Ok(c) = c01::gen_case(args.seed, "C02/large", case, size, false, true) else {
        rep.inconclusive("generator");
        return;
    };
    let replay = json!({"mode": "large", "seed": args.seed, "case": case, "size": format!("{size:?}")});
    prog::install(&c.programs);
    let Some(want) = serial_tuple(&c) else {
        prog::uninstall(&c.programs);
        return;
    };
    let mut rng = Rng::for_case(args.seed, "C02/sched", case);
    for _ in 0..n_random {
        let workers = rng.range_usize(1, 32);
        let map: Vec<usize> = (0..rng.range_usize(1, 64)).map(|_| rng.below_usize(32)).collect();
        if let Some(r) = run_and_compare(rep, &c, &want, workers, Mode::Explicit(map), "scripted-random", &replay) {
            rep.count("scripted_random_run", 1);
            rep.count_max("max_units_in_tick", r.n_units as u64);
            rep.observe("worker_counts_scripted", &format!("{}", r.n_workers));
            rep.nontrivial(assignment_key(&r).as_bytes());
        }
    }
    for i in 0..n_racing {
        let workers = 1 + (case as usize * 7 + i * 5) % 32;
        if let Some(r) = run_and_compare(rep, &c, &want, workers, Mode::Jitter(rng.next_u64()), "racing-threads", &replay) {
            rep.count("racing_runs", 1);
            rep.observe("worker_counts_racing", &format!("{}", r.n_workers));
            let key = assignment_key(&r);
            rep.nontrivial(key.as_bytes());
            // how many workers actually got work
            let used: BTreeSet<usize> = r.claims.iter().map(|c| c.0).collect();
            rep.count_max("max_workers_with_work_in_a_racing_run", used.len() as u64);
            if rep.wants_sample() && r.n_units >= 3 && r.n_units <= 12 && used.len() >= 2 {
                rep.sample(json!({"kind": "racing", "case": case, "workers": r.n_workers, "units": r.n_units, "observed_claims(worker,unit)": r.claims}));
            }
        }
    }
    prog::uninstall(&c.programs);
}

/// (4) shard-level executors under the five policies vs. `execute_serial`.
fn policy_case(rep: &mut Report, args: &Args, case: u64) {
    let Ok(c) = c01::gen_case(args.seed, "C02/policy", case, if case % 3 == 0 { SizeClass::Medium } else { SizeClass::Small }, true, true) else {
        rep.inconclusive("generator");
        return;
    };
    let replay = json!({"mode": "policy", "seed": args.seed, "case": case});
    // accepted programs of the (single) instance become ExecItems
    let present = vec![true; c.programs.len()];
    let plan = tick::ref_plan(&c.programs, &present, &c.graph.descent);
    let w = c.graph.root.warp_id;
    let Some(store) = c.pre.store(&w) else { return };
    let view = GraphView::new(store);
    prog::install(&c.programs);
    let items: Vec<ExecItem> = plan
        .order
        .iter()
        .enumerate()
        .filter(|(pos, _)| plan.accepted[*pos])
        .map(|(pos, &i)| {
            let p = &c.programs[i];
            ExecItem::new(prog::slot_executor(p.slot), p.scope, OpOrigin { intent_id: 0, rule_id: p.slot as u32, match_ix: pos as u32, op_ix: 0 })
        })
        .collect();
    if items.len() < 2 {
        prog::uninstall(&c.programs);
        return;
    }
    let canon = |ops: Vec<WarpOp>| -> Vec<String> {
        let mut v: Vec<(warp_core::WarpOpKey, String)> = ops.iter().map(|o| (o.sort_key(), format!("{o:?}"))).collect();
        v.sort();
        v.into_iter().map(|x| x.1).collect()
    };
    let want = canon(execute_serial(view, &items).into_ops_unsorted());
    let policies = [
        ("DEFAULT", ParallelExecutionPolicy::DEFAULT),
        ("DYNAMIC_PER_WORKER", ParallelExecutionPolicy::DYNAMIC_PER_WORKER),
        ("DYNAMIC_PER_SHARD", ParallelExecutionPolicy::DYNAMIC_PER_SHARD),
        ("STATIC_PER_WORKER", ParallelExecutionPolicy::STATIC_PER_WORKER),
        ("STATIC_PER_SHARD", ParallelExecutionPolicy::STATIC_PER_SHARD),
        ("DEDICATED_PER_SHARD", ParallelExecutionPolicy::DEDICATED_PER_SHARD),
    ];
    let mut rng = Rng::for_case(args.seed, "C02/policy-sched", case);
    for (name, pol) in policies {
        for _ in 0..3 {
            let workers = rng.range_usize(1, 32);
            let mode = match rng.below(3) {
                0 => Mode::Jitter(rng.next_u64()),
                1 => Mode::Explicit((0..rng.range_usize(1, 40)).map(|_| rng.below_usize(32)).collect()),
                _ => Mode::Observe,
            };
            claim::install(mode);
            let deltas = execute_parallel_with_policy(view, &items, NonZeroUsize::new(workers).unwrap_or(NonZeroUsize::MIN), pol);
            let _ = claim::take_runs();
            claim::clear();
            rep.eval();
            rep.count("policy_runs", 1);
            rep.observe("policies", name);
            rep.observe("policy_delta_counts", &format!("{name}:{}", deltas.len().min(9)));
            let mut all = Vec::new();
            for d in deltas {
                all.extend(d.into_ops_unsorted());
            }
            let got = canon(all);
            if got != want {
                rep.violation(&format!("C02:policy:{name}:ops-differ"), &format!("ops emitted under policy {name} with {workers} workers differ from execute_serial ({} vs {} ops)", got.len(), want.len()), replay.clone());
            }
        }
    }
    rep.nontrivial(format!("policy-{case}-{}", items.len()).as_bytes());
    prog::uninstall(&c.programs);
}

/// (5) verdict consistency: ticks in which one accepted rewrite emits two ops
/// for the same key (divergent: the canonical merge must refuse the tick;
/// identical: the merge must dedupe them). Whether such a tick commits must not
/// depend on how the work units are spread over workers: the serial verdict
/// (committed tuple / refused) is compared with all-units-on-one-worker,
/// round-robin, random and racing schedules.
fn verdict_case(rep: &mut Report, args: &Args, case: u64) {
    use crate::prog::Mop;
    let Ok(mut c) = c01::gen_case(args.seed, "C02/verdict", case, SizeClass::Small, false, true) else {
        rep.inconclusive("generator");
        return;
    };
    let mut rng = Rng::for_case(args.seed, "C02/verdict-sched", case);
    let present = vec![true; c.programs.len()];
    let plan = tick::ref_plan(&c.programs, &present, &c.graph.descent);
    // accepted programs that set an attachment
    let mut cands: Vec<(usize, usize)> = Vec::new();
    for (pos, &i) in plan.order.iter().enumerate() {
        if !plan.accepted[pos] {
            continue;
        }
        for (k, op) in c.programs[i].ops.iter().enumerate() {
            if matches!(op, Mop::SetNodeAtt { .. } | Mop::SetEdgeAtt { .. } | Mop::ClearNodeAtt(_) | Mop::ClearEdgeAtt(_)) {
                cands.push((i, k));
            }
        }
    }
    if cands.is_empty() {
        return;
    }
    let (pi, ki) = *rng.pick(&cands);
    let divergent = rng.chance(2, 3);
    let op = c.programs[pi].ops[ki].clone();
    let extra = match (&op, divergent) {
        // same key, different value (the written value is H(reads, op index))
        (Mop::SetNodeAtt { .. } | Mop::SetEdgeAtt { .. }, true) => op.clone(),
        (Mop::ClearNodeAtt(n), true) => Mop::SetNodeAtt { node: *n, ty: crate::gen::atom_types()[0], len: 5 },
        (Mop::ClearEdgeAtt(e), true) => Mop::SetEdgeAtt { edge: *e, ty: crate::gen::atom_types()[0], len: 5 },
        // identical second op
        (Mop::ClearNodeAtt(_) | Mop::ClearEdgeAtt(_), false) => op.clone(),
        _ => return,
    };
    c.programs[pi].ops.push(extra);
    // footprint is unchanged: the second op hits an already declared target
    let kind = if divergent { "divergent-ops-one-key" } else { "identical-duplicate-op" };
    let replay = json!({"mode": "verdict", "seed": args.seed, "case": case});
    prog::install(&c.programs);
    let canonical: Vec<usize> = (0..c.programs.len()).collect();
    claim::clear();
    let serial = tick::run_tick(&c.pre, c.graph.root, &c.programs, &canonical, &c.graph.descent, &TickConfig::default());
    let want = match &serial {
        TickResult::Committed(cm) => Some(tick::outcome_tuple(cm)),
        TickResult::Failed { .. } => None,
        TickResult::Harness(e) => {
            rep.inconclusive(&format!("harness: {e}"));
            prog::uninstall(&c.programs);
            return;
        }
    };
    rep.eval();
    rep.observe("verdict_case_kinds", &format!("{kind}:serial-{}", if want.is_some() { "committed" } else { "refused" }));
    let mut schedules: Vec<(usize, Mode, &'static str)> = vec![
        (4, Mode::Explicit(vec![0]), "all-units-on-one-worker"),
        (2, Mode::Explicit(vec![1]), "all-units-on-one-worker"),
        (4, Mode::Explicit(vec![0, 1, 2, 3]), "round-robin"),
        (2, Mode::Explicit(vec![0, 1]), "round-robin"),
        (3, Mode::Jitter(rng.next_u64()), "racing"),
        (8, Mode::Observe, "racing"),
    ];
    for _ in 0..4 {
        let w = rng.range_usize(2, 6);
        schedules.push((w, Mode::Explicit((0..rng.range_usize(2, 12)).map(|_| rng.below_usize(w)).collect()), "random"));
    }
    let mut units_seen = 0usize;
    for (workers, mode, what) in schedules {
        let cfg = TickConfig { workers, ..TickConfig::default() };
        let desc = format!("{mode:?}").chars().take(60).collect::<String>();
        claim::install(mode);
        let res = tick::run_tick(&c.pre, c.graph.root, &c.programs, &canonical, &c.graph.descent, &cfg);
        let runs = claim::take_runs();
        claim::clear();
        rep.eval();
        rep.count("verdict_schedules_run", 1);
        if let Some(r) = runs.last() {
            units_seen = units_seen.max(r.n_units);
        }
        let mut rp = replay.clone();
        rp["workers"] = json!(workers);
        rp["schedule"] = json!(desc);
        match (&want, res) {
            (Some(w), TickResult::Committed(cm)) => {
                let got = tick::outcome_tuple(&cm);
                if let Some(k) = tick::first_tuple_diff(w, &got) {
                    rep.violation(&format!("C02:verdict:{kind}:{what}:{k}"), &format!("`{k}` differs between the serial run and {workers} workers ({desc}) for a tick with {kind}"), rp);
                }
            }
            (None, TickResult::Failed { .. }) => {}
            (Some(_), TickResult::Failed { why, .. }) => {
                rep.violation(&format!("C02:verdict:{kind}:{what}:serial-committed-parallel-refused"),
                    &format!("a tick in which one rewrite emits {kind} commits on one worker but is refused with {workers} workers under {desc}: {}", why.describe()), rp);
            }
            (None, TickResult::Committed(_)) => {
                rep.violation(&format!("C02:verdict:{kind}:{what}:serial-refused-parallel-committed"),
                    &format!("a tick in which one rewrite emits {kind} is refused on one worker but commits with {workers} workers under {desc}"), rp);
            }
            (_, TickResult::Harness(e)) => rep.inconclusive(&format!("harness: {e}")),
        }
    }
    if units_seen >= 2 {
        rep.nontrivial(format!("verdict-{case}-{kind}-{units_seen}").as_bytes());
    }
    prog::uninstall(&c.programs);
}

/// Interpreter lane: one hand-sized tick (4 nodes in 3 shards, 3 programs, no
/// random graph construction) — serial, every 2-worker assignment (2^3), and a
/// few racing runs. Miri checks the scoped-thread work queue, the claim counter
/// and the per-worker deltas for data races and undefined behaviour.
fn miri_lane(args: &Args, mut rep: Report) -> i32 {
    use crate::model::{AInst, AState, AVal};
    use crate::prog::{Mop, Program};
    use warp_core::{NodeId, NodeKey, WarpId};
    let w = WarpId([7; 32]);
    let node = |shard: u8| {
        let mut h = [shard; 32];
        h[31] = 0xA1;
        NodeId(h)
    };
    let nt = crate::gen::node_types();
    let at = crate::gen::atom_types();
    let mut st = AState::default();
    st.insts.insert(w, AInst { root: node(1), parent: None });
    for s in 1..=4u8 {
        st.nodes.insert((w, node(s)), nt[0]);
    }
    st.natt.insert((w, node(2)), AVal::Atom(at[0], vec![1, 2, 3]));
    let Ok(pre) = st.build(0) else {
        println!("HARNESS-ERROR miri lane: build failed");
        return 2;
    };
    let mut programs = Vec::new();
    for (i, s) in [1u8, 2, 3].iter().enumerate() {
        let mut p = Program {
            slot: i,
            warp: w,
            scope: node(*s),
            salt: 99 + i as u64,
            ops: vec![Mop::ReadNodeAtt(node(2)), Mop::SetNodeAtt { node: node(*s + 1), ty: at[1], len: 8 }],
            footprint: warp_core::Footprint::default(),
            matches: true,
        };
        if i == 0 {
            // program 0 writes node(2)'s attachment which 1 and 2 read => they are rejected
            // unless they do not read it; keep program 0 independent instead
            p.ops = vec![Mop::ReadNode(node(1)), Mop::SetNodeAtt { node: node(1), ty: at[1], len: 8 }];
        } else {
            p.ops = vec![Mop::ReadNode(node(*s)), Mop::SetNodeAtt { node: node(*s + 1), ty: at[1], len: 8 }];
        }
        p.footprint = p.honest_footprint();
        programs.push(p);
    }
    let c = Case { graph: crate::gen::GenGraph { state: st, root: NodeKey { warp_id: w, local_id: node(1) }, descent: std::collections::BTreeMap::new() }, programs, pre, class: "miri" };
    let replay = json!({"mode": "miri"});
    prog::install(&c.programs);
    let Some(want) = serial_tuple(&c) else {
        println!("HARNESS-ERROR miri lane: serial tick failed");
        return 2;
    };
    for a in 0..8u128 {
        if let Some(r) = run_and_compare(&mut rep, &c, &want, 2, Mode::AssignmentIndex(a), "scripted-assignment", &replay) {
            rep.observe("assignments_seen", &assignment_key(&r));
            rep.count("scripted_assignments_run", 1);
            rep.nontrivial(assignment_key(&r).as_bytes());
        }
    }
    for i in 0..3u64 {
        if let Some(r) = run_and_compare(&mut rep, &c, &want, 3, Mode::Jitter(args.seed + i), "racing-threads", &replay) {
            rep.count("racing_runs", 1);
            rep.nontrivial(assignment_key(&r).as_bytes());
        }
    }
    prog::uninstall(&c.programs);
    rep.finish(2)
}

pub fn replay(args: &Args, path: &std::path::Path, mut rep: Report) -> i32 {
    let Ok(text) = std::fs::read_to_string(path) else { println!("HARNESS-ERROR cannot read replay"); return 2 };
    let Ok(v) = serde_json::from_str::<Value>(&text) else { println!("HARNESS-ERROR bad replay json"); return 2 };
    let r = &v["replay"];
    let mut a2 = args.clone();
    a2.seed = r["seed"].as_u64().unwrap_or(args.seed);
    let case = r["case"].as_u64().unwrap_or(0);
    match r["mode"].as_str() {
        Some("exhaustive") => exhaustive_case(&mut rep, &a2, case, 6),
        Some("policy") => policy_case(&mut rep, &a2, case),
        Some("verdict") => verdict_case(&mut rep, &a2, case),
        _ => {
            let size = match r["size"].as_str() { Some("Medium") => SizeClass::Medium, Some("AroundThreshold") => SizeClass::AroundThreshold, Some("Large") => SizeClass::Large, _ => SizeClass::Small };
            large_case(&mut rep, &a2, case, size, 30, 60);
        }
    }
    if rep.violations() > 0 { 1 } else { println!("replay: no divergence"); 0 }
}

pub fn run(args: &Args) -> i32 {
    tick::install_quiet_panic_hook();
    let mut rep = Report::new(args, "exploration",
        "serial (1 worker) run of a generated tick vs the same tick under (1) every unit->worker assignment for ticks with 2..=6 (instance,shard) work units and 2..=4 workers, scripted through the echo_verif claim hook and verified against the hook's record; (2) random scripted assignments on ticks of up to thousands of units with 1..=32 workers; (3) real racing threads for worker counts 1..=32 with yields/sleeps/spins injected between claims, the assignment that actually happened recorded; (4) the shard executors under all ParallelExecutionPolicy constants vs execute_serial. Non-trivial = distinct observed unit->worker assignment; enumerated assignments are distinct by construction.");
    if let Some(p) = &args.replay { return replay(args, p, rep); }
    let budget = Budget::for_tier(args.tier, 150.0, 1800.0);
    let lane = args.extra.get("lane").cloned().unwrap_or_default();
    rep.set("lane", json!(if lane.is_empty() { "fastdbg" } else { lane.as_str() }));
    // sanitizer lanes run a reduced workload (5-20x slower)
    let slow = !lane.is_empty();
    if lane == "miri" {
        return miri_lane(args, rep);
    }
    let n_exh = if slow { 2 } else { args.by_tier(6u64, 60) };
    let max_units = if slow { 4 } else { args.by_tier(5usize, 6) };
    let b = budget.slice(0.35);
    let mut case = 0u64;
    let mut done = 0u64;
    while done < n_exh && case < n_exh * 30 && !b.expired() {
        let before = rep.evaluations();
        exhaustive_case(&mut rep, args, case, max_units);
        if rep.evaluations() - before > 10 {
            done += 1;
        }
        case += 1;
    }
    let b = budget.slice(0.45);
    let n_small = if slow { 6 } else { args.by_tier(40u64, 600) };
    let n_med = if slow { 2 } else { args.by_tier(12u64, 200) };
    let n_big = if slow { 1 } else { args.by_tier(3u64, 40) };
    for case in 0..n_small {
        if b.expired() { break; }
        large_case(&mut rep, args, case, SizeClass::Small, 6, 16);
    }
    for case in 0..n_med {
        if b.expired() { break; }
        large_case(&mut rep, args, 10_000 + case, SizeClass::Medium, 8, 32);
    }
    for case in 0..n_big {
        if b.expired() { break; }
        large_case(&mut rep, args, 20_000 + case, if case % 2 == 0 { SizeClass::AroundThreshold } else { SizeClass::Large }, 6, 12);
    }
    let b = budget.slice(0.2);
    let n_pol = if slow { 4 } else { args.by_tier(40u64, 1500) };
    for case in 0..n_pol {
        if b.expired() { break; }
        policy_case(&mut rep, args, case);
    }
    let b = budget.slice(0.15);
    let n_verdict = if slow { 6 } else { args.by_tier(60u64, 2000) };
    for case in 0..n_verdict {
        if b.expired() { break; }
        verdict_case(&mut rep, args, case);
    }
    rep.assumption("within one worker the claim order is ascending (atomic counter), so unit->worker assignments are the whole reachable schedule space of execute_work_queue; interleavings of claims are unobservable because each worker owns its delta and the pre-state is immutable during execution");
    rep.assumption("a tick that is refused is outside 'committed tick', but WHETHER a tick commits is part of the outcome: the verdict phase requires refused/committed to agree across schedules; two refusals may carry different payloads");
    rep.finish(args.by_tier(30, 500))
}
