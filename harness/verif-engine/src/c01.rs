//! C01 — a tick's outcome depends on the candidate set, never on arrival order.
//!
//! (a) metamorphic: canonical run vs. shuffled/duplicated enqueue orders, both
//!     scheduler kinds, 1 and 4 workers, permuted rule registration;
//! (b) reference model: receipt == reference greedy admission, post-state ==
//!     pre ⊕ effects of accepted programs evaluated on the abstract pre-state.

use std::collections::BTreeMap;

use verif_core::{json, run_shards, Args, Budget, Report, Rng, Value};
use warp_core::SchedulerKind;

use crate::gen::{self, GenGraph, GraphParams, ProgParams, TickParams};
use crate::model::AState;
use crate::prog::{self, Program};
use crate::tick::{self, Committed, TickConfig, TickResult};

pub struct Case {
    pub graph: GenGraph,
    pub programs: Vec<Program>,
    pub pre: warp_core::WarpState,
    pub class: &'static str,
}

#[derive(Clone, Copy, Debug)]
pub enum SizeClass {
    Small,
    Medium,
    AroundThreshold,
    Large,
}

/// Deterministic case generation from `(seed, stream, case)`.
pub fn gen_case(seed: u64, stream: &str, case: u64, size: SizeClass, single_instance: bool, allow_reparent: bool) -> Result<Case, String> {
    let mut rng = Rng::for_case(seed, stream, case);
    let (gp, n_cand, class) = match size {
        SizeClass::Small => (
            GraphParams { max_instances: if single_instance { 1 } else { 3 }, min_nodes: 4, max_nodes: 14, few_shards: rng.chance(1, 3) },
            rng.range_usize(2, 16),
            "small",
        ),
        SizeClass::Medium => (
            GraphParams { max_instances: if single_instance { 1 } else { 3 }, min_nodes: 10, max_nodes: 40, few_shards: rng.chance(1, 3) },
            rng.range_usize(10, 40),
            "medium",
        ),
        SizeClass::AroundThreshold => (
            GraphParams { max_instances: if single_instance { 1 } else { 2 }, min_nodes: 130, max_nodes: 170, few_shards: false },
            rng.range_usize(900, 1100),
            "900-1100",
        ),
        SizeClass::Large => (
            GraphParams { max_instances: if single_instance { 1 } else { 2 }, min_nodes: 400, max_nodes: 700, few_shards: false },
            rng.range_usize(2000, 5000),
            "2000-5000",
        ),
    };
    let graph = gen::gen_graph(&mut rng, &gp);
    let pool = match size {
        SizeClass::Small => rng.range_usize(2, 6),
        SizeClass::Medium => rng.range_usize(3, 10),
        _ => rng.range_usize(4, 30),
    };
    let tp = TickParams {
        n_candidates: n_cand,
        prog: ProgParams { pool, allow_delete_node: true, allow_portal: true, allow_reparent, max_writes: 2, ports: true, allow_recreate: rng.chance(1, 2) },
        use_sys_slot: true,
    };
    let programs = gen::gen_candidates(&mut rng, &graph, &tp);
    let pre = graph.state.build(rng.below(4))?;
    let (back, issues) = AState::extract(&pre);
    if back != graph.state || !issues.0.is_empty() {
        return Err(format!("generated state does not round-trip through the real store: {} / {:?}", back.first_diff(&graph.state), issues.0));
    }
    Ok(Case { graph, programs, pre, class })
}

/// `delta_validate` builds assert "emitted ops == minimal state diff"; a rewrite that deletes and
/// recreates an edge emits more than that by construction, so those cases are not run there.
pub fn skip_in_dv_lane(args: &Args, programs: &[Program]) -> bool {
    args.extra.get("lane").is_some_and(|l| l == "dv")
        && programs.iter().any(|p| p.ops.iter().any(|o| matches!(o, prog::Mop::RecreateEdge { .. })))
}

pub fn case_json(seed: u64, stream: &str, case: u64, c: &Case) -> Value {
    json!({"seed": seed, "stream": stream, "case": case, "class": c.class,
           "instances": c.graph.state.insts.len(), "nodes": c.graph.state.nodes.len(), "edges": c.graph.state.edges.len(),
           "candidates": c.programs.len(),
           "programs": c.programs.iter().take(12).map(|p| json!({"slot": p.slot, "scope": verif_core::hex4(&p.scope.0), "warp": verif_core::hex4(&p.warp.0), "ops": format!("{:?}", p.ops)})).collect::<Vec<_>>()})
}

fn variant_cfg(rng: &mut Rng) -> (TickConfig, &'static str) {
    let mut cfg = TickConfig::default();
    let dim = rng.below(4);
    let name = match dim {
        0 => "order",
        1 => {
            cfg.kind = SchedulerKind::Legacy;
            "order+legacy"
        }
        2 => {
            cfg.workers = *rng.pick(&[2usize, 4, 7]);
            "order+workers"
        }
        _ => {
            rng.shuffle(&mut cfg.reg_order);
            "order+registration"
        }
    };
    (cfg, name)
}

/// Run the canonical tick + model checks. Returns the committed canonical
/// outcome (or None after reporting).
pub fn canonical_and_model(rep: &mut Report, prop: &str, c: &Case, replay: &Value) -> Option<(Box<Committed>, tick::RefPlan)> {
    let present = vec![true; c.programs.len()];
    let plan = tick::ref_plan(&c.programs, &present, &c.graph.descent);
    let canonical: Vec<usize> = (0..c.programs.len()).collect();
    prog::install(&c.programs);
    let res = tick::run_tick(&c.pre, c.graph.root, &c.programs, &canonical, &c.graph.descent, &TickConfig::default());
    let out = match res {
        TickResult::Committed(cm) => cm,
        TickResult::Failed { why, .. } => {
            let d = why.describe();
            let cls = if d.contains("cross-warp entries in a_read") {
                "descent-chain-read-trips-guard-constructor".to_owned()
            } else {
                d.split(|ch: char| !ch.is_ascii_alphanumeric() && ch != ' ').next().unwrap_or("failed").trim().replace(' ', "-")
            };
            rep.violation(&format!("{prop}:honest-tick-failed:{cls}"),
                &format!("a tick of honest, generated programs failed to commit: {d}"), replay.clone());
            return None;
        }
        TickResult::Harness(e) => {
            rep.inconclusive(&format!("harness: {e}"));
            return None;
        }
    };
    if !out.issues.0.is_empty() {
        rep.violation(&format!("{prop}:post-state-storage-invariant"), &format!("post-state exposes broken storage invariants: {:?}", out.issues.0), replay.clone());
    }
    if let Some((cls, msg)) = tick::receipt_vs_plan(&out.receipt, &plan, &c.programs) {
        rep.violation(&format!("{prop}:receipt-vs-reference:{cls}"), &msg, replay.clone());
    }
    match tick::model_post(&c.graph.state, &c.programs, &plan) {
        Ok(want) => {
            if want != out.post {
                rep.violation(&format!("{prop}:post-state-vs-model"),
                    &format!("post-state differs from pre ⊕ effects(accepted): {} (left=engine, right=model)", out.post.first_diff(&want)), replay.clone());
            }
        }
        Err(e) => rep.inconclusive(&format!("model: generated programs not independent: {e}")),
    }
    Some((out, plan))
}

fn one_case(rep: &mut Report, args: &Args, stream: &str, case: u64, size: SizeClass, n_variants: usize) {
    let c = match gen_case(args.seed, stream, case, size, false, true) {
        Ok(c) => c,
        Err(e) => {
            rep.inconclusive(&format!("generator: {e}"));
            return;
        }
    };
    let replay = json!({"seed": args.seed, "stream": stream, "case": case, "size": format!("{size:?}")});
    if skip_in_dv_lane(args, &c.programs) {
        rep.count("cases_skipped_in_dv_lane(recreate-edge)", 1);
        return;
    }
    rep.eval();
    let Some((canon, plan)) = canonical_and_model(rep, "C01", &c, &replay) else {
        prog::uninstall(&c.programs);
        return;
    };
    let want = tick::outcome_tuple(&canon);
    if let Some(path) = args.extra.get("digests") {
        // cross-lane differential: one line per case, compared by the lanes driver
        let mut h = blake3::Hasher::new();
        for (k, v) in &want {
            h.update(k.as_bytes());
            h.update(v.as_bytes());
        }
        use std::io::Write;
        if let Ok(mut f) = std::fs::OpenOptions::new().create(true).append(true).open(path) {
            // one write(2) per line: `writeln!` on an unbuffered File issues one write per
            // format fragment, and shards append to this file concurrently
            let line = format!("{stream} {case} {}\n", h.finalize().to_hex());
            let _ = f.write_all(line.as_bytes());
        }
    }
    if let Some(path) = args.extra.get("dump-tuple") {
        // debugging aid for cross-lane mismatches: the full canonical outcome tuple of this case
        let _ = std::fs::write(path, want.iter().map(|(k, v)| format!("{k}\t{v}\n")).collect::<String>());
    }
    let n_acc = plan.accepted.iter().filter(|a| **a).count();
    let n_rej = plan.accepted.len() - n_acc;
    rep.count("ticks_committed", 1);
    rep.count("candidates", plan.accepted.len() as u64);
    rep.count("accepted", n_acc as u64);
    rep.count("rejected", n_rej as u64);
    rep.count("patch_ops", canon.patch.ops().len() as u64);
    rep.observe("size_class", c.class);
    rep.observe("instances", &format!("{}", c.graph.state.insts.len()));
    if n_acc >= 2 && n_rej >= 1 {
        rep.nontrivial(&c.graph.state.canonical_bytes().iter().chain(format!("{:?}", c.programs.iter().map(|p| (&p.ops, p.slot, p.scope)).collect::<Vec<_>>()).as_bytes()).copied().collect::<Vec<u8>>());
    }
    if rep.wants_sample() && matches!(size, SizeClass::Small) && n_rej > 0 {
        let mut s = case_json(args.seed, stream, case, &c);
        s["accepted"] = json!(n_acc);
        s["rejected"] = json!(n_rej);
        rep.sample(s);
    }
    let mut rng = Rng::for_case(args.seed, "C01/variants", case);
    for v in 0..n_variants {
        // shuffled arrival with 1–3 copies of each candidate, adjacent and far apart
        let mut enq: Vec<usize> = Vec::new();
        for i in 0..c.programs.len() {
            let copies = if rng.chance(1, 3) { rng.range_usize(2, 3) } else { 1 };
            for _ in 0..copies {
                enq.push(i);
            }
        }
        rng.shuffle(&mut enq);
        if rng.chance(1, 2) && !c.programs.is_empty() {
            // adjacent duplicate burst
            let i = rng.below_usize(c.programs.len());
            let pos = rng.below_usize(enq.len() + 1);
            enq.insert(pos, i);
            enq.insert(pos, i);
        }
        let (cfg, dim) = variant_cfg(&mut rng);
        rep.eval();
        rep.observe("variant_dimension", dim);
        match tick::run_tick(&c.pre, c.graph.root, &c.programs, &enq, &c.graph.descent, &cfg) {
            TickResult::Committed(cm) => {
                let got = tick::outcome_tuple(&cm);
                if let Some(k) = tick::first_tuple_diff(&want, &got) {
                    let mut r = replay.clone();
                    r["variant"] = json!(v);
                    r["enqueue"] = json!(enq.iter().take(200).collect::<Vec<_>>());
                    r["config"] = json!(format!("{cfg:?}"));
                    rep.violation(&format!("C01:metamorphic:{dim}:{k}"),
                        &format!("outcome component `{k}` differs between the canonical run and a {dim} variant ({} enqueues of {} candidates): canonical={} variant={}",
                                 enq.len(), c.programs.len(), clip(&want[k]), clip(&got[k])), r);
                }
            }
            TickResult::Failed { why, .. } => {
                rep.violation(&format!("C01:metamorphic:{dim}:variant-failed"), &format!("canonical run committed but a {dim} variant failed: {}", why.describe()), replay.clone());
            }
            TickResult::Harness(e) => rep.inconclusive(&format!("harness: {e}")),
        }
    }
    prog::uninstall(&c.programs);
}

/// Histories of several transactions on ONE engine: every tick must still be a
/// function of its own pre-state and candidate set. Variants interleave aborted
/// transactions (whose candidates must leave no trace) and shuffle/duplicate
/// arrivals; scheduler state that survives a transaction boundary shows up as a
/// receipt/model mismatch at a later tick or as a variant/canonical difference.
fn seq_case(rep: &mut Report, args: &Args, case: u64) {
    let stream = "C01/seq";
    let c = match gen_case(args.seed, stream, case, SizeClass::Small, false, true) {
        Ok(c) => c,
        Err(e) => {
            rep.inconclusive(&format!("generator: {e}"));
            return;
        }
    };
    let replay = json!({"seed": args.seed, "stream": stream, "case": case, "size": "Small"});
    let mut rng = Rng::for_case(args.seed, "C01/seq/hist", case);
    let n_ticks = rng.range_usize(2, 4);
    // history generated against the MODEL's successive post-states
    let mut states: Vec<AState> = vec![c.graph.state.clone()];
    let mut ticks: Vec<Vec<Program>> = Vec::new();
    let mut plans: Vec<tick::RefPlan> = Vec::new();
    for t in 0..n_ticks {
        let st = states[t].clone();
        let descent = tick::descent_of(&st);
        let programs = if t == 0 {
            c.programs.clone()
        } else {
            let g = GenGraph { state: st.clone(), root: c.graph.root, descent: descent.clone() };
            let tp = TickParams {
                n_candidates: rng.range_usize(2, 12),
                prog: ProgParams { pool: rng.range_usize(2, 6), allow_recreate: case % 2 == 0, ..ProgParams::default() },
                use_sys_slot: true,
            };
            gen::gen_candidates(&mut rng, &g, &tp)
        };
        let present = vec![true; programs.len()];
        let plan = tick::ref_plan(&programs, &present, &descent);
        match tick::model_post(&st, &programs, &plan) {
            Ok(post) => {
                states.push(post);
                ticks.push(programs);
                plans.push(plan);
            }
            Err(_) => break,
        }
    }
    if ticks.len() < 2 {
        return;
    }
    if ticks.iter().any(|t| skip_in_dv_lane(args, t)) {
        rep.count("cases_skipped_in_dv_lane(recreate-edge)", 1);
        return;
    }
    rep.eval();
    let canonical_steps: Vec<tick::SeqStep> = ticks
        .iter()
        .map(|p| tick::SeqStep::Tick { programs: p.clone(), enqueue: (0..p.len()).collect() })
        .collect();
    let canon = tick::run_sequence(&c.pre, c.graph.root, &canonical_steps, &TickConfig::default());
    let mut want: Vec<BTreeMap<&'static str, String>> = Vec::new();
    for (t, r) in canon.iter().enumerate() {
        match r {
            TickResult::Committed(cm) => {
                let mut rp = replay.clone();
                rp["tick"] = json!(t);
                if !cm.issues.0.is_empty() {
                    rep.violation("C01:sequence:post-state-storage-invariant", &format!("tick {t}: {:?}", cm.issues.0), rp.clone());
                }
                if let Some((cls, msg)) = tick::receipt_vs_plan(&cm.receipt, &plans[t], &ticks[t]) {
                    rep.violation(&format!("C01:sequence:receipt-vs-reference:{cls}"),
                        &format!("tick {t} of a {}-tick history on one engine: {msg}", ticks.len()), rp.clone());
                }
                if cm.post != states[t + 1] {
                    rep.violation("C01:sequence:post-state-vs-model",
                        &format!("tick {t} of a {}-tick history on one engine: post-state differs from pre + effects(accepted): {} (left=engine, right=model)", ticks.len(), cm.post.first_diff(&states[t + 1])), rp);
                }
                want.push(tick::outcome_tuple(cm));
            }
            TickResult::Failed { why, .. } => {
                let mut rp = replay.clone();
                rp["tick"] = json!(t);
                rep.violation("C01:sequence:honest-tick-failed",
                    &format!("tick {t} of a {}-tick history of honest programs on one engine failed to commit: {}", ticks.len(), why.describe()), rp);
                return;
            }
            TickResult::Harness(e) => {
                rep.inconclusive(&format!("harness: {e}"));
                return;
            }
        }
    }
    if want.len() != ticks.len() {
        return;
    }
    rep.count("sequence_histories", 1);
    rep.count("sequence_ticks_committed", want.len() as u64);
    let mut noise_candidates = 0u64;
    let n_variants = 3;
    for v in 0..n_variants {
        let mut steps: Vec<tick::SeqStep> = Vec::new();
        for (t, programs) in ticks.iter().enumerate() {
            // aborted transactions before this tick: foreign candidates and/or some of the tick's own
            for _ in 0..rng.range_usize(0, 2) {
                let g = GenGraph { state: states[t].clone(), root: c.graph.root, descent: tick::descent_of(&states[t]) };
                let tp = TickParams { n_candidates: rng.range_usize(1, 6), prog: ProgParams { pool: rng.range_usize(2, 6), ..ProgParams::default() }, use_sys_slot: false };
                let mut noise = gen::gen_candidates(&mut rng, &g, &tp);
                if rng.chance(1, 2) {
                    noise.retain(|q| !programs.iter().any(|p| (p.slot, p.warp, p.scope) == (q.slot, q.warp, q.scope)));
                }
                for p in programs {
                    if rng.chance(1, 4) && !noise.iter().any(|q| (p.slot, p.warp, p.scope) == (q.slot, q.warp, q.scope)) {
                        noise.push(p.clone());
                    }
                }
                let mut enq: Vec<usize> = (0..noise.len()).collect();
                rng.shuffle(&mut enq);
                noise_candidates += enq.len() as u64;
                steps.push(tick::SeqStep::Abort { programs: noise, enqueue: enq });
            }
            let mut enq: Vec<usize> = Vec::new();
            for i in 0..programs.len() {
                let copies = if rng.chance(1, 3) { 2 } else { 1 };
                for _ in 0..copies {
                    enq.push(i);
                }
            }
            rng.shuffle(&mut enq);
            steps.push(tick::SeqStep::Tick { programs: programs.clone(), enqueue: enq });
        }
        let (cfg, dim) = variant_cfg(&mut rng);
        rep.eval();
        let got = tick::run_sequence(&c.pre, c.graph.root, &steps, &cfg);
        let shape: Vec<&str> = steps.iter().map(|s| match s { tick::SeqStep::Abort { .. } => "abort", tick::SeqStep::Tick { .. } => "tick" }).collect();
        for (t, r) in got.iter().enumerate() {
            let mut rp = replay.clone();
            rp["variant"] = json!(v);
            rp["tick"] = json!(t);
            rp["steps"] = json!(shape);
            rp["config"] = json!(format!("{cfg:?}"));
            match r {
                TickResult::Committed(cm) => {
                    let g = tick::outcome_tuple(cm);
                    if let Some(k) = tick::first_tuple_diff(&want[t], &g) {
                        rep.violation(&format!("C01:sequence:metamorphic:{dim}+aborted-transactions:{k}"),
                            &format!("tick {t} of a history on one engine: `{k}` differs between the canonical history and a variant with aborted transactions / shuffled arrivals (steps {shape:?}): canonical={} variant={}", clip(&want[t][k]), clip(&g[k])), rp);
                        break;
                    }
                }
                TickResult::Failed { why, .. } => {
                    rep.violation(&format!("C01:sequence:metamorphic:{dim}+aborted-transactions:variant-failed"),
                        &format!("tick {t}: canonical history committed but the variant (steps {shape:?}) failed: {}", why.describe()), rp);
                    break;
                }
                TickResult::Harness(e) => {
                    rep.inconclusive(&format!("harness: {e}"));
                    break;
                }
            }
        }
        if got.len() != ticks.len() && !got.iter().any(|r| !matches!(r, TickResult::Committed(_))) {
            rep.inconclusive("sequence variant returned fewer ticks than the canonical history");
        }
    }
    rep.count("aborted_candidates_enqueued", noise_candidates);
    let ports: usize = ticks.iter().flatten().map(|p| p.footprint.b_in.iter().count() + p.footprint.b_out.iter().count()).sum();
    rep.count("sequence_port_claims", ports as u64);
    if noise_candidates > 0 {
        let mut bytes = c.graph.state.canonical_bytes();
        bytes.extend_from_slice(format!("seq{:?}", ticks.iter().map(|t| t.iter().map(|p| (&p.ops, p.slot, p.scope)).collect::<Vec<_>>()).collect::<Vec<_>>()).as_bytes());
        rep.nontrivial(&bytes);
    }
}

fn clip(s: &str) -> String {
    if s.len() > 300 { format!("{}…", &s[..300]) } else { s.to_owned() }
}

/// All 6!/n! orders of a ≤6-candidate tick.
fn exhaustive_small(rep: &mut Report, args: &Args, case: u64) {
    let Ok(mut c) = gen_case(args.seed, "C01/exh", case, SizeClass::Small, false, true) else {
        rep.inconclusive("generator");
        return;
    };
    c.programs.truncate(6);
    if c.programs.len() < 3 {
        return;
    }
    if skip_in_dv_lane(args, &c.programs) {
        rep.count("cases_skipped_in_dv_lane(recreate-edge)", 1);
        return;
    }
    let replay = json!({"seed": args.seed, "stream": "C01/exh", "case": case, "size": "Small", "truncate": 6});
    let Some((canon, _plan)) = canonical_and_model(rep, "C01", &c, &replay) else {
        prog::uninstall(&c.programs);
        return;
    };
    let want = tick::outcome_tuple(&canon);
    let n = c.programs.len();
    let mut perm: Vec<usize> = (0..n).collect();
    let mut count = 0u64;
    // Heap's algorithm
    let mut cstack = vec![0usize; n];
    let mut check = |perm: &Vec<usize>, rep: &mut Report| {
        count += 1;
        rep.eval();
        match tick::run_tick(&c.pre, c.graph.root, &c.programs, perm, &c.graph.descent, &TickConfig::default()) {
            TickResult::Committed(cm) => {
                let got = tick::outcome_tuple(&cm);
                if let Some(k) = tick::first_tuple_diff(&want, &got) {
                    let mut r = replay.clone();
                    r["enqueue"] = json!(perm);
                    rep.violation(&format!("C01:metamorphic:order:{k}"), &format!("permutation {perm:?} changes `{k}`"), r);
                }
            }
            TickResult::Failed { why, .. } => rep.violation("C01:metamorphic:order:variant-failed", &why.describe(), replay.clone()),
            TickResult::Harness(e) => rep.inconclusive(&format!("harness: {e}")),
        }
    };
    check(&perm, rep);
    let mut i = 0;
    while i < n {
        if cstack[i] < i {
            if i % 2 == 0 { perm.swap(0, i) } else { perm.swap(cstack[i], i) }
            check(&perm, rep);
            cstack[i] += 1;
            i = 0;
        } else {
            cstack[i] = 0;
            i += 1;
        }
    }
    rep.count("exhaustive_order_ticks", 1);
    rep.count("exhaustive_orders_run", count);
    prog::uninstall(&c.programs);
}

pub fn replay(args: &Args, path: &std::path::Path, mut rep: Report) -> i32 {
    let Ok(text) = std::fs::read_to_string(path) else { println!("HARNESS-ERROR cannot read replay"); return 2 };
    let Ok(v) = serde_json::from_str::<Value>(&text) else { println!("HARNESS-ERROR bad replay json"); return 2 };
    let r = &v["replay"];
    let seed = r["seed"].as_u64().unwrap_or(args.seed);
    let stream = r["stream"].as_str().unwrap_or("C01/small").to_owned();
    let case = r["case"].as_u64().unwrap_or(0);
    let size = match r["size"].as_str() { Some("Medium") => SizeClass::Medium, Some("AroundThreshold") => SizeClass::AroundThreshold, Some("Large") => SizeClass::Large, _ => SizeClass::Small };
    let mut a2 = args.clone();
    a2.seed = seed;
    println!("replaying {stream} case {case} seed {seed} size {size:?}");
    if stream == "C01/seq" { seq_case(&mut rep, &a2, case) } else if stream == "C01/exh" { exhaustive_small(&mut rep, &a2, case) } else { one_case(&mut rep, &a2, &stream, case, size, 8) }
    if rep.violations() > 0 { 1 } else { println!("replay: no divergence"); 0 }
}

pub fn run(args: &Args) -> i32 {
    tick::install_quiet_panic_hook();
    let mut rep = Report::new(args, "exploration",
        "generated multi-instance graphs x generated data-driven programs with honest footprints, committed through Engine::apply_in_warp/commit_with_receipt; canonical run compared with (a) a reference greedy admission + set-semantics abstract interpreter and (b) N arrival-order/duplication variants crossed with scheduler kind, worker count and rule registration order; all n! orders for <=6-candidate ticks. Non-trivial = tick with >=2 accepted and >=1 rejected candidate; distinct by canonical bytes of (pre-state, programs).");
    if let Some(p) = &args.replay { return replay(args, p, rep); }
    let budget = Budget::for_tier(args.tier, 150.0, 1500.0);
    let jobs = args.jobs.max(1);
    // secondary build lanes (delta_validate merge path, release) run a third of
    // the workload; the lanes driver compares their per-case digests with the main lane
    let lane = args.extra.get("lane").cloned().unwrap_or_default();
    let div = if lane.is_empty() || lane == "fastdbg" { 1 } else { 3 };
    rep.set("lane", json!(if lane.is_empty() { "fastdbg" } else { lane.as_str() }));
    let n_small = args.by_tier(800u64, 16_000) / div;
    let n_medium = args.by_tier(200u64, 4_000) / div;
    let n_thresh = args.by_tier(4u64, 120) / div;
    let n_large = args.by_tier(2u64, 80) / div;
    let n_exh = args.by_tier(12u64, 200) / div;
    let variants = args.by_tier(6usize, 8);
    let b = budget.slice(0.35);
    run_shards(&mut rep, jobs, jobs, |shard, rep| {
        let mut case = shard as u64;
        while case < n_small && !b.expired() {
            one_case(rep, args, "C01/small", case, SizeClass::Small, variants);
            case += jobs as u64;
        }
    });
    let b = budget.slice(0.2);
    run_shards(&mut rep, jobs, jobs, |shard, rep| {
        let mut case = shard as u64;
        while case < n_medium && !b.expired() {
            one_case(rep, args, "C01/medium", case, SizeClass::Medium, variants);
            case += jobs as u64;
        }
    });
    let b = budget.slice(0.1);
    run_shards(&mut rep, jobs, jobs, |shard, rep| {
        let mut case = shard as u64;
        while case < n_exh && !b.expired() {
            exhaustive_small(rep, args, case);
            case += jobs as u64;
        }
    });
    let n_seq = args.by_tier(600u64, 12_000) / div;
    let b = budget.slice(0.2);
    run_shards(&mut rep, jobs, jobs, |shard, rep| {
        let mut case = shard as u64;
        while case < n_seq && !b.expired() {
            seq_case(rep, args, case);
            case += jobs as u64;
        }
    });
    let b = budget.slice(0.2);
    run_shards(&mut rep, jobs, jobs, |shard, rep| {
        let mut case = shard as u64;
        while case < n_thresh + n_large && !b.expired() {
            if case < n_thresh {
                one_case(rep, args, "C01/thresh", case, SizeClass::AroundThreshold, 3);
            } else {
                one_case(rep, args, "C01/large", case - n_thresh, SizeClass::Large, 2);
            }
            case += jobs as u64;
        }
    });
    rep.assumption("candidate-set equality is by (rule slot, instance, scope); duplicate enqueues carry the same footprint");
    rep.assumption("tx ids are not compared (begin() counter); everything else in Snapshot, patch and receipt is");
    let _ = BTreeMap::<u8, u8>::new();
    rep.finish(args.by_tier(20, 400))
}
