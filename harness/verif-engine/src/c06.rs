//! C06 — the state root commits to exactly the reachable state.
//!
//! (i)   same abstract content, different construction orders ⇒ same root;
//! (ii)  any single semantic mutation of a reachable element ⇒ different root;
//! (iii) any mutation of an unreachable element ⇒ same root;
//! (iv)  the columnar accumulator's root == the store's root, on every state
//!       and after every op sequence (ops of real committed ticks);
//! (v)   WSC write → read → validate denotes the same rows; writer output is
//!       identical across construction orders.

use verif_core::{json, run_shards, Args, Budget, Report, Rng, Value};
use warp_core::wsc::{build_one_warp_input, validate_wsc, write::write_wsc_one_warp, view::WscFile};
use warp_core::{EdgeId, EngineBuilder, NodeId, NodeKey, WarpId, WarpState};

use crate::c01::{self, SizeClass};
use crate::gen::{self, GraphParams};
use crate::model::{AInst, AState, AVal};
use crate::prog;
use crate::tick::{self, TickConfig, TickResult};

fn roots(st: &WarpState, root: &NodeKey) -> ([u8; 32], [u8; 32]) {
    (
        warp_core::verif::state_root(st, root),
        warp_core::verif::accum_state_root(st, root, Vec::new()),
    )
}

/// (iv) on one state.
fn check_accum(rep: &mut Report, st: &WarpState, root: &NodeKey, replay: &Value, what: &str) -> [u8; 32] {
    let (legacy, accum) = roots(st, root);
    rep.count("accumulator_comparisons", 1);
    if legacy != accum {
        rep.violation(
            "C06:accumulator-root-differs-from-store-root",
            &format!("{what}: store root {} != accumulator root {}", verif_core::hex4(&legacy), verif_core::hex4(&accum)),
            replay.clone(),
        );
    }
    legacy
}

#[derive(Debug, Clone, Copy, PartialEq, Eq)]
enum Where {
    Reachable,
    Unreachable,
}

/// Apply one semantic mutation; returns `(name, where, must_change)` or None
/// when the state offers no target for this mutation.
fn mutate(rng: &mut Rng, st: &mut AState, root: NodeKey, kind: u64) -> Option<(&'static str, Where)> {
    let (_rw, rn) = st.reachable(root);
    let nodes: Vec<(WarpId, NodeId)> = st.nodes.keys().copied().collect();
    let r_nodes: Vec<(WarpId, NodeId)> = nodes.iter().copied().filter(|k| rn.contains(k)).collect();
    let u_nodes: Vec<(WarpId, NodeId)> = nodes.iter().copied().filter(|k| !rn.contains(k)).collect();
    let edges: Vec<(WarpId, EdgeId)> = st.edges.keys().copied().collect();
    let r_edges: Vec<(WarpId, EdgeId)> = edges.iter().copied().filter(|k| rn.contains(&(k.0, st.edges[k].0))).collect();
    let u_edges: Vec<(WarpId, EdgeId)> = edges.iter().copied().filter(|k| !rn.contains(&(k.0, st.edges[k].0))).collect();
    let nt = gen::node_types();
    let et = gen::edge_types();
    let at = gen::atom_types();
    let other = |x: warp_core::TypeId, pool: &[warp_core::TypeId]| *pool.iter().find(|t| **t != x).unwrap_or(&pool[0]);
    let wh = |reach: bool| if reach { Where::Reachable } else { Where::Unreachable };
    match kind {
        // node type
        0 | 1 => {
            let reach = kind == 0;
            let pool = if reach { &r_nodes } else { &u_nodes };
            if pool.is_empty() { return None; }
            let k = *rng.pick(pool);
            let t = st.nodes[&k];
            st.nodes.insert(k, other(t, &nt));
            Some(("node-type", wh(reach)))
        }
        // node attachment: type tag / bytes same length / length / add / remove
        2..=7 => {
            let reach = kind % 2 == 0;
            let pool: Vec<_> = (if reach { &r_nodes } else { &u_nodes }).iter().copied().filter(|k| !matches!(st.natt.get(k), Some(AVal::Descend(_)))).collect();
            if pool.is_empty() { return None; }
            let k = *rng.pick(&pool);
            let name = match st.natt.get(&k).cloned() {
                None => {
                    st.natt.insert(k, AVal::Atom(at[0], vec![7, 7]));
                    "node-attachment-added"
                }
                Some(AVal::Atom(t, b)) => match rng.below(4) {
                    0 => { st.natt.insert(k, AVal::Atom(other(t, &at), b)); "node-attachment-type-tag" }
                    1 if !b.is_empty() => { let mut b2 = b; let i = rng.below_usize(b2.len()); b2[i] ^= 1 << rng.below(8); st.natt.insert(k, AVal::Atom(t, b2)); "node-attachment-bytes" }
                    2 => { let mut b2 = b; b2.push(0); st.natt.insert(k, AVal::Atom(t, b2)); "node-attachment-length" }
                    _ => { st.natt.remove(&k); "node-attachment-removed" }
                },
                Some(AVal::Descend(_)) => return None,
            };
            Some((name, wh(reach)))
        }
        // edge type / target / id / attachment
        8..=15 => {
            let reach = kind % 2 == 0;
            let pool: Vec<_> = (if reach { &r_edges } else { &u_edges }).iter().copied().filter(|k| !matches!(st.eatt.get(k), Some(AVal::Descend(_)))).collect();
            if pool.is_empty() { return None; }
            let k = *rng.pick(&pool);
            let (f, t, ty) = st.edges[&k];
            let name = match (kind - 8) / 2 {
                0 => { st.edges.insert(k, (f, t, other(ty, &et))); "edge-type" }
                1 => {
                    // retarget to another node that keeps the reachable set unchanged:
                    // pick a target with the same reachability class as the old one,
                    // and only when the old target stays reachable some other way —
                    // otherwise the mutation changes more than one thing. We accept
                    // only targets that are reachable (resp. unreachable) already.
                    let same: Vec<_> = (if reach { &r_nodes } else { &u_nodes }).iter().filter(|n| n.0 == k.0 && n.1 != t).copied().collect();
                    if same.is_empty() { return None; }
                    let nt_ = rng.pick(&same).1;
                    st.edges.insert(k, (f, nt_, ty));
                    "edge-target"
                }
                2 => {
                    let rec = st.edges.remove(&k)?;
                    let att = st.eatt.remove(&k);
                    let nk = (k.0, gen::fresh_edge(rng));
                    st.edges.insert(nk, rec);
                    if let Some(a) = att { st.eatt.insert(nk, a); }
                    "edge-id"
                }
                _ => {
                    match st.eatt.get(&k).cloned() {
                        None => { st.eatt.insert(k, AVal::Atom(at[1], vec![1])); }
                        Some(AVal::Atom(t2, mut b)) => { b.push(9); st.eatt.insert(k, AVal::Atom(t2, b)); }
                        Some(AVal::Descend(_)) => return None,
                    }
                    "edge-attachment"
                }
            };
            Some((name, wh(reach)))
        }
        // add an unreachable island node / add a reachable node with an edge from a reachable node
        16 => {
            let w = root.warp_id;
            st.nodes.insert((w, gen::fresh_node(rng, None)), nt[0]);
            Some(("add-island-node", Where::Unreachable))
        }
        17 => {
            if r_nodes.is_empty() { return None; }
            let from = *rng.pick(&r_nodes);
            let n = gen::fresh_node(rng, None);
            st.nodes.insert((from.0, n), nt[1]);
            st.edges.insert((from.0, gen::fresh_edge(rng)), (from.1, n, et[0]));
            Some(("add-reachable-node", Where::Reachable))
        }
        // remove a reachable leaf edge's target? simpler: remove an unreachable node with its edges
        18 => {
            let iso: Vec<_> = u_nodes.iter().copied().filter(|k| st.incident_edges(k.0, k.1).is_empty() && !st.insts.values().any(|i| i.root == k.1)).collect();
            if iso.is_empty() { return None; }
            let k = *rng.pick(&iso);
            st.nodes.remove(&k);
            st.natt.remove(&k);
            Some(("remove-island-node", Where::Unreachable))
        }
        // child instance root record: change the child's root node type (reachable through the portal)
        _ => {
            let kids: Vec<(WarpId, AInst)> = st.insts.iter().filter(|(_, i)| i.parent.is_some()).map(|(w, i)| (*w, i.clone())).collect();
            if kids.is_empty() { return None; }
            let (w, inst) = rng.pick(&kids).clone();
            let key = (w, inst.root);
            let reach = rn.contains(&key);
            let t = *st.nodes.get(&key)?;
            st.nodes.insert(key, other(t, &nt));
            Some(("child-root-type", wh(reach)))
        }
    }
}

fn state_case(rep: &mut Report, args: &Args, case: u64) {
    let mut rng = Rng::for_case(args.seed, "C06/state", case);
    let g = gen::gen_graph(&mut rng, &GraphParams { max_instances: 3, min_nodes: 3, max_nodes: 18, few_shards: false });
    let replay = json!({"mode": "state", "seed": args.seed, "case": case});
    rep.eval();
    // (i) construction orders
    let mut first: Option<[u8; 32]> = None;
    let mut wsc_bytes: Option<Vec<Vec<u8>>> = None;
    for order in 0..4u64 {
        let Ok(st) = g.state.build(order * 7 + (case % 5)) else {
            rep.inconclusive("generator: build");
            return;
        };
        let r = check_accum(rep, &st, &g.root, &replay, "generated state");
        rep.count("constructions", 1);
        match first {
            None => first = Some(r),
            Some(f) if f != r => rep.violation("C06:construction-order-changes-root", &format!("same abstract content built in insertion order {order} has a different state root"), replay.clone()),
            _ => {}
        }
        // engine's own snapshot agrees
        if order == 0 {
            if let Ok(engine) = EngineBuilder::from_state(st.clone(), g.root).build() {
                if engine.snapshot().state_root != r {
                    rep.violation("C06:engine-snapshot-root-differs", "Engine::snapshot().state_root differs from the state root of the same state", replay.clone());
                }
            }
        }
        // (v) WSC per instance
        let bytes = wsc_round_trip(rep, &st, &g.state, &replay);
        match &wsc_bytes {
            None => wsc_bytes = Some(bytes),
            Some(b0) if *b0 != bytes => rep.violation("C06:wsc-writer-depends-on-construction-order", "columnar snapshot bytes differ between two construction orders of the same content", replay.clone()),
            _ => {}
        }
    }
    let Some(base_root) = first else { return };
    rep.nontrivial(&g.state.canonical_bytes());
    // (ii)/(iii) single mutations
    for kind in 0..20u64 {
        let mut m = g.state.clone();
        let Some((name, wh)) = mutate(&mut rng, &mut m, g.root, kind) else { continue };
        if m == g.state {
            continue;
        }
        // reachability of everything else must be unchanged for the verdict to be about ONE thing
        let Ok(st) = m.build(0) else {
            rep.count("mutations_not_buildable", 1);
            continue;
        };
        rep.eval();
        let r = check_accum(rep, &st, &g.root, &replay, name);
        rep.count("mutations", 1);
        rep.observe("mutation_kinds", &format!("{name}/{wh:?}"));
        let before = g.state.reachable(g.root);
        let after = m.reachable(g.root);
        // Expected verdict from the statement: root changes iff reachable content changes.
        let content = |s: &AState, reach: &(std::collections::BTreeSet<WarpId>, std::collections::BTreeSet<(WarpId, NodeId)>)| {
            let mut v: Vec<String> = Vec::new();
            for w in &reach.0 { v.push(format!("I{:?}{:?}", w, s.insts.get(w))); }
            for k in &reach.1 { v.push(format!("N{:?}{:?}{:?}", k, s.nodes.get(k), s.natt.get(k))); }
            for (k, e) in &s.edges { if reach.1.contains(&(k.0, e.0)) { v.push(format!("E{:?}{:?}{:?}", k, e, s.eatt.get(k))); } }
            v
        };
        let same_reachable = content(&g.state, &before) == content(&m, &after);
        if same_reachable && r != base_root {
            rep.violation(&format!("C06:unreachable-mutation-changes-root:{name}"), &format!("mutation `{name}` ({wh:?}) leaves the reachable content unchanged but the state root changed"), json!({"mode": "state", "seed": args.seed, "case": case, "mutation": kind}));
        }
        if !same_reachable && r == base_root {
            rep.violation(&format!("C06:reachable-mutation-keeps-root:{name}"), &format!("mutation `{name}` ({wh:?}) changes reachable content but the state root is unchanged"), json!({"mode": "state", "seed": args.seed, "case": case, "mutation": kind}));
        }
        if rep.wants_sample() && kind % 7 == 3 {
            rep.sample(json!({"kind": "mutation", "case": case, "mutation": name, "where": format!("{wh:?}"), "root_changed": r != base_root, "nodes": g.state.nodes.len(), "edges": g.state.edges.len(), "instances": g.state.insts.len()}));
        }
    }
    // a different root key over the same content must give a different root
    let others: Vec<NodeId> = g.state.nodes.keys().filter(|k| k.0 == g.root.warp_id && k.1 != g.root.local_id).map(|k| k.1).collect();
    if let (Some(n), Ok(st)) = (others.first(), g.state.build(0)) {
        let r2 = warp_core::verif::state_root(&st, &NodeKey { warp_id: g.root.warp_id, local_id: *n });
        if r2 == base_root {
            rep.violation("C06:root-key-not-bound", "state root is the same for two different root nodes", replay.clone());
        }
    }
}

/// (v) write → read → validate → compare rows with the abstract instance.
fn wsc_round_trip(rep: &mut Report, st: &WarpState, abs: &AState, replay: &Value) -> Vec<Vec<u8>> {
    let mut all = Vec::new();
    for (w, inst) in &abs.insts {
        let Some(store) = st.store(w) else { continue };
        let input = build_one_warp_input(store, inst.root);
        let Ok(bytes) = write_wsc_one_warp(&input, [7u8; 32], 3) else {
            rep.violation("C06:wsc-write-failed", "write_wsc_one_warp failed on a generated instance", replay.clone());
            continue;
        };
        rep.count("wsc_round_trips", 1);
        let file = match WscFile::from_bytes(bytes.clone()) {
            Ok(f) => f,
            Err(e) => {
                // Vec<u8> alignment is allocator-dependent (typed error, no wrong state)
                rep.observe("wsc_read_errors", &format!("{e:?}").chars().take(40).collect::<String>());
                rep.inconclusive("WscFile::from_bytes returned a typed error on freshly written bytes (alignment?)");
                continue;
            }
        };
        if let Err(e) = validate_wsc(&file) {
            rep.violation("C06:wsc-validate-rejects-own-output", &format!("validate_wsc rejects the writer's own output: {e:?}"), replay.clone());
            continue;
        }
        let Ok(view) = file.warp_view(0) else {
            rep.violation("C06:wsc-view-failed", "warp_view(0) failed on validated file", replay.clone());
            continue;
        };
        // compare rows with the abstract instance
        let mut ok = view.warp_id() == &w.0 && view.root_node_id() == &inst.root.0;
        let want_nodes: Vec<(NodeId, warp_core::TypeId)> = abs.nodes.iter().filter(|(k, _)| k.0 == *w).map(|(k, t)| (k.1, *t)).collect();
        ok &= view.nodes().len() == want_nodes.len();
        for (ix, (n, t)) in want_nodes.iter().enumerate() {
            let Some(row) = view.nodes().get(ix) else { ok = false; break };
            ok &= row.node_id == n.0 && row.node_type == t.0;
            let atts = view.node_attachments(ix);
            match abs.natt.get(&(*w, *n)) {
                None => ok &= atts.is_empty(),
                Some(AVal::Atom(ty, b)) => ok &= atts.len() == 1 && atts[0].is_atom() && atts[0].type_or_warp == ty.0 && view.blob_for_attachment(&atts[0]) == Some(b.as_slice()),
                Some(AVal::Descend(c)) => ok &= atts.len() == 1 && atts[0].is_descend() && atts[0].type_or_warp == c.0,
            }
            // out edges of this node
            let want_out: Vec<EdgeId> = abs.out_edges(*w, *n).iter().map(|e| e.0).collect();
            let mut got_out: Vec<EdgeId> = view.out_edges_for_node(ix).iter().map(|r| EdgeId(r.edge_id)).collect();
            got_out.sort();
            ok &= got_out == want_out;
        }
        let want_edges: Vec<_> = abs.edges.iter().filter(|(k, _)| k.0 == *w).collect();
        ok &= view.edges().len() == want_edges.len();
        for (ix, (k, (f, t, ty))) in want_edges.iter().enumerate() {
            let Some(row) = view.edges().get(ix) else { ok = false; break };
            ok &= row.edge_id == k.1 .0 && row.from_node_id == f.0 && row.to_node_id == t.0 && row.edge_type == ty.0;
            let atts = view.edge_attachments(ix);
            match abs.eatt.get(k) {
                None => ok &= atts.is_empty(),
                Some(AVal::Atom(aty, b)) => ok &= atts.len() == 1 && atts[0].is_atom() && atts[0].type_or_warp == aty.0 && view.blob_for_attachment(&atts[0]) == Some(b.as_slice()),
                Some(AVal::Descend(c)) => ok &= atts.len() == 1 && atts[0].is_descend() && atts[0].type_or_warp == c.0,
            }
        }
        if !ok {
            rep.violation("C06:wsc-read-back-differs", "columnar snapshot read back denotes different rows than the state it was written from", replay.clone());
        }
        all.push(bytes);
    }
    all
}

/// (iv) on op sequences: ops of real committed ticks applied to the accumulator.
fn tick_case(rep: &mut Report, args: &Args, case: u64) {
    let c = match c01::gen_case(args.seed, "C06/tick", case, if case % 5 == 0 { SizeClass::Medium } else { SizeClass::Small }, false, true) {
        Ok(c) => c,
        Err(e) => {
            rep.inconclusive(&format!("generator: {e}"));
            return;
        }
    };
    let replay = json!({"mode": "tick", "seed": args.seed, "case": case});
    let canonical: Vec<usize> = (0..c.programs.len()).collect();
    prog::install(&c.programs);
    let res = tick::run_tick(&c.pre, c.graph.root, &c.programs, &canonical, &c.graph.descent, &TickConfig::default());
    prog::uninstall(&c.programs);
    rep.eval();
    if let TickResult::Committed(cm) = res {
        let legacy = warp_core::verif::state_root(&cm.post_state, &c.graph.root);
        if legacy != cm.snapshot.state_root {
            rep.violation("C06:snapshot-root-differs-from-recomputed", "Snapshot.state_root differs from the root recomputed from the post-state", replay.clone());
        }
        let accum = warp_core::verif::accum_state_root(&c.pre, &c.graph.root, cm.patch.ops().to_vec());
        rep.count("accumulator_op_sequences", 1);
        rep.count("accumulator_ops_applied", cm.patch.ops().len() as u64);
        if accum != legacy {
            // is the accumulator merely off by its constant (no-op sequence also differs)?
            let (l0, a0) = roots(&c.pre, &c.graph.root);
            let sig = if l0 != a0 { "C06:accumulator-root-differs-from-store-root" } else { "C06:accumulator-op-application-diverges" };
            rep.violation(sig, &format!("accumulator(pre)+ops root {} != store root {} after a committed tick of {} ops", verif_core::hex4(&accum), verif_core::hex4(&legacy), cm.patch.ops().len()), replay.clone());
        }
        // the root (and the columnar snapshot) is a function of the content, not of the
        // mutation history that produced it: rebuild the post-state's abstract content
        // from scratch and compare
        match cm.post.build(case % 4) {
            Ok(fresh) => {
                rep.count("post_states_rebuilt_from_content", 1);
                let fresh_root = warp_core::verif::state_root(&fresh, &c.graph.root);
                if fresh_root != legacy {
                    rep.violation("C06:mutation-history-changes-root",
                        &format!("the post-state of a committed tick ({} ops) and a fresh construction of exactly the same content have different state roots ({} vs {})", cm.patch.ops().len(), verif_core::hex4(&legacy), verif_core::hex4(&fresh_root)), replay.clone());
                }
                let (l1, a1) = roots(&cm.post_state, &c.graph.root);
                if l1 != a1 {
                    rep.violation("C06:accumulator-root-differs-on-mutated-store",
                        "accumulator root built from the mutated post-state differs from its store root", replay.clone());
                }
                let a = wsc_round_trip(rep, &cm.post_state, &cm.post, &replay);
                let b = wsc_round_trip(rep, &fresh, &cm.post, &replay);
                if a != b {
                    rep.violation("C06:wsc-writer-depends-on-mutation-history", "columnar snapshot bytes of a mutated store differ from those of a fresh construction of the same content", replay.clone());
                }
            }
            Err(_) => rep.count("post_states_not_rebuildable", 1),
        }
        if cm.patch.ops().len() >= 2 {
            rep.nontrivial(format!("{:?}", cm.patch.ops()).as_bytes());
        }
    }
}

pub fn replay(args: &Args, path: &std::path::Path, mut rep: Report) -> i32 {
    let Ok(text) = std::fs::read_to_string(path) else { println!("HARNESS-ERROR cannot read replay"); return 2 };
    let Ok(v) = serde_json::from_str::<Value>(&text) else { println!("HARNESS-ERROR bad replay json"); return 2 };
    let r = &v["replay"];
    let mut a2 = args.clone();
    a2.seed = r["seed"].as_u64().unwrap_or(args.seed);
    let case = r["case"].as_u64().unwrap_or(0);
    match r["mode"].as_str() {
        Some("tick") => tick_case(&mut rep, &a2, case),
        _ => state_case(&mut rep, &a2, case),
    }
    if rep.violations() > 0 { 1 } else { println!("replay: no divergence"); 0 }
}

pub fn run(args: &Args) -> i32 {
    tick::install_quiet_panic_hook();
    let mut rep = Report::new(args, "exploration",
        "generated multi-instance states (node/edge-owned portals, typed atoms, unreachable islands): each built in 4 insertion orders (store root, accumulator root, Engine snapshot root, WSC bytes must agree), then up to 20 single semantic mutations of reachable and unreachable elements with the expected verdict computed from an independent reachability written from the statement; ops of real committed ticks applied to the accumulator; WSC write/read/validate round trip compared row by row with the abstract instance. Non-trivial = every generated state / tick with >=2 ops; distinct by canonical bytes.");
    if let Some(p) = &args.replay { return replay(args, p, rep); }
    let budget = Budget::for_tier(args.tier, 150.0, 1200.0);
    let jobs = args.jobs.max(1);
    let n_states = args.by_tier(2000u64, 120_000);
    let n_ticks = args.by_tier(2000u64, 80_000);
    let b = budget.slice(0.6);
    run_shards(&mut rep, jobs, jobs, |shard, rep| {
        let mut case = shard as u64;
        while case < n_states && !b.expired() {
            state_case(rep, args, case);
            case += jobs as u64;
        }
    });
    let b = budget.slice(0.4);
    run_shards(&mut rep, jobs, jobs, |shard, rep| {
        let mut case = shard as u64;
        while case < n_ticks && !b.expired() {
            tick_case(rep, args, case);
            case += jobs as u64;
        }
    });
    rep.assumption("collisions of the un-delimited node/edge hash stream by crafted identifiers are out of reach of a monitor (DESIGN §5)");
    rep.finish(args.by_tier(50, 1000))
}
