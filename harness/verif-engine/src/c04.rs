//! C04 — a tick patch replays to exactly the post-state.
//!
//! (1) online replay monitor: for every committed generated tick (single ticks
//!     and multi-tick sequences on one engine) `patch.apply_to_state(clone(pre))`
//!     must reproduce the post-state (abstract content + state root);
//!     `Engine::jump_to_tick(k)` must land on the recorded state of tick k.
//! (2) state-pair universe through the `diff_state` door: for arbitrary pairs
//!     of well-formed states, `apply(diff(a,b), a)` is `Ok(b)` or a typed error
//!     — never a third state.

use verif_core::{json, run_shards, Args, Budget, Report, Rng, Value};
use warp_core::{
    AttachmentKey, EdgeId, EdgeKey, EngineBuilder, NodeId, NodeKey, TickCommitStatus, WarpId,
    WarpState, WarpTickPatchV1,
};

use crate::c01::{self, SizeClass};
use crate::gen::{self, ProgParams, TickParams};
use crate::model::{AInst, AState, AVal};
use crate::prog;
use crate::tick::{self, TickConfig, TickResult};

/// Replay a patch on a clone of `pre` and compare with `post`. Returns a
/// `(class, message)` on divergence.
pub fn replay_check(pre: &WarpState, root: NodeKey, patch: &WarpTickPatchV1, post: &AState, post_root: &[u8; 32]) -> Option<(String, String)> {
    let mut st = pre.clone();
    if let Err(e) = patch.apply_to_state(&mut st) {
        return Some(("replay-error".into(), format!("applying the emitted patch to the pre-state failed: {e:?}")));
    }
    let (got, issues) = AState::extract(&st);
    if !issues.0.is_empty() {
        return Some(("replay-storage-invariant".into(), format!("replayed state exposes broken storage invariants: {:?}", issues.0)));
    }
    if &got != post {
        return Some((classify_diff(&got, post), format!("replayed state differs from the state the tick produced: {} (left=replayed, right=live)", got.first_diff(post))));
    }
    let r = warp_core::verif::state_root(&st, &root);
    if &r != post_root {
        return Some(("replay-root".into(), "replayed content equal but state root differs".into()));
    }
    None
}

fn classify_diff(a: &AState, b: &AState) -> String {
    let d = a.first_diff(b);
    let what = d.split(':').next().unwrap_or("state");
    format!("replay-diff-{what}")
}

/// Did any accepted program re-parent an edge that carries an attachment and
/// keep that attachment unchanged? (the F2 input class)
fn reparents_attached_edge(pre: &AState, programs: &[prog::Program], plan: &tick::RefPlan) -> bool {
    for (pos, &i) in plan.order.iter().enumerate() {
        if !plan.accepted[pos] {
            continue;
        }
        let p = &programs[i];
        for op in &p.ops {
            if let prog::Mop::UpsertEdge { edge, old_from: Some(_), .. } = op {
                if pre.eatt.contains_key(&(p.warp, *edge)) {
                    return true;
                }
            }
        }
    }
    false
}

fn single_ticks(rep: &mut Report, args: &Args, case: u64, size: SizeClass) {
    let c = match c01::gen_case(args.seed, "C04/tick", case, size, false, true) {
        Ok(c) => c,
        Err(e) => {
            rep.inconclusive(&format!("generator: {e}"));
            return;
        }
    };
    let replay = json!({"mode": "tick", "seed": args.seed, "stream": "C04/tick", "case": case, "size": format!("{size:?}")});
    rep.eval();
    let present = vec![true; c.programs.len()];
    let plan = tick::ref_plan(&c.programs, &present, &c.graph.descent);
    let canonical: Vec<usize> = (0..c.programs.len()).collect();
    prog::install(&c.programs);
    let mut rng = Rng::for_case(args.seed, "C04/cfg", case);
    let mut cfg = TickConfig::default();
    cfg.workers = *rng.pick(&[1usize, 1, 4]);
    let res = tick::run_tick(&c.pre, c.graph.root, &c.programs, &canonical, &c.graph.descent, &cfg);
    prog::uninstall(&c.programs);
    match res {
        TickResult::Committed(cm) => {
            rep.count("ticks_replayed", 1);
            rep.count("patch_ops", cm.patch.ops().len() as u64);
            for op in cm.patch.ops() {
                rep.observe("op_kinds", &format!("{op:?}").split([' ', '{']).next().unwrap_or("?").to_owned());
            }
            if cm.patch.ops().len() >= 2 {
                rep.nontrivial(format!("{:?}", cm.patch.ops()).as_bytes());
            }
            if std::env::var("VERIF_DEBUG").is_ok() {
                for op in cm.patch.ops() {
                    println!("  op: {}", format!("{op:?}").chars().take(260).collect::<String>());
                }
                for (pos, &i) in plan.order.iter().enumerate() {
                    println!("  cand pos {pos} accepted={} slot={} ops={:?}", plan.accepted[pos], c.programs[i].slot, c.programs[i].ops);
                }
            }
            if let Err(e) = cm.patch.validate_digest() {
                rep.violation("C04:tick:patch-digest-invalid", &format!("emitted patch fails validate_digest: {e:?}"), replay.clone());
            }
            if let Some((cls, msg)) = replay_check(&c.pre, c.graph.root, &cm.patch, &cm.post, &cm.snapshot.state_root) {
                let sig = if reparents_attached_edge(&c.graph.state, &c.programs, &plan) && cls == "replay-diff-edge-attachment" {
                    "C04:tick:reparented-edge-loses-attachment-on-replay".to_owned()
                } else {
                    format!("C04:tick:{cls}")
                };
                rep.violation(&sig, &msg, replay.clone());
            }
            if rep.wants_sample() && cm.patch.ops().len() > 2 && cm.patch.ops().len() < 10 {
                rep.sample(json!({"kind": "tick", "case": case, "ops": cm.patch.ops().iter().map(|o| format!("{o:?}").chars().take(90).collect::<String>()).collect::<Vec<_>>()}));
            }
        }
        TickResult::Failed { why, .. } => rep.inconclusive(&format!("honest tick failed (reported under C01/C14): {}", why.describe().chars().take(80).collect::<String>())),
        TickResult::Harness(e) => rep.inconclusive(&format!("harness: {e}")),
    }
}

/// Several ticks on one engine, then `jump_to_tick(k)` for every k.
fn sequence(rep: &mut Report, args: &Args, case: u64) {
    let mut rng = Rng::for_case(args.seed, "C04/seq", case);
    let g = gen::gen_graph(&mut rng, &gen::GraphParams { max_instances: 2, min_nodes: 5, max_nodes: 16, few_shards: false });
    let replay = json!({"mode": "sequence", "seed": args.seed, "case": case});
    let Ok(pre) = g.state.build(rng.below(3)) else {
        rep.inconclusive("generator: build");
        return;
    };
    let Ok(mut engine) = EngineBuilder::from_state(pre.clone(), g.root).workers(*rng.pick(&[1usize, 3])).build() else {
        rep.inconclusive("harness: engine build");
        return;
    };
    if prog::register_slots(&mut engine, &(0..=prog::SYS_SLOT).collect::<Vec<_>>()).is_err() {
        rep.inconclusive("harness: register");
        return;
    }
    let n_ticks = rng.range_usize(2, 6);
    let mut cur = g.clone();
    let mut recorded: Vec<(AState, [u8; 32])> = Vec::new();
    let mut all_programs = Vec::new();
    for _t in 0..n_ticks {
        // descent chains may have changed (new portals): recompute from the abstract state
        cur.descent = descent_of(&cur.state, cur.root);
        let tp = TickParams { n_candidates: rng.range_usize(2, 10), prog: ProgParams { pool: rng.range_usize(3, 8), ..ProgParams::default() }, use_sys_slot: true };
        let programs = gen::gen_candidates(&mut rng, &cur, &tp);
        prog::install(&programs);
        let before = engine.state().clone();
        let tx = engine.begin();
        let mut ok = true;
        for p in &programs {
            let empty = Vec::new();
            let stack = cur.descent.get(&p.warp).unwrap_or(&empty);
            if engine.apply_in_warp(tx, p.warp, prog::slot_name(p.slot), &p.scope, stack).is_err() {
                ok = false;
            }
        }
        let res = std::panic::catch_unwind(std::panic::AssertUnwindSafe(|| engine.commit_with_receipt(tx)));
        all_programs.push(programs);
        let Ok(Ok((snap, _receipt, patch))) = res else {
            let why = match &res {
                Ok(Err(e)) => format!("{e:?}"),
                Err(p) => p.downcast_ref::<String>().cloned().or_else(|| p.downcast_ref::<&str>().map(|s| (*s).to_owned())).unwrap_or_else(|| "non-string panic (footprint violation?)".into()),
                Ok(Ok(_)) => String::new(),
            };
            rep.observe("sequence_tick_failures", &why.chars().take(160).collect::<String>());
            rep.observe("sequence_tick_failure_cases", &format!("{case}@tick{_t}"));
            if std::env::var_os("VERIF_C04_DUMP_FAILED_TICK").is_some() {
                eprintln!("FAILED TICK case {case} tick {_t}: {why}");
                let (pre_abs, _) = AState::extract(&before);
                for p in all_programs.last().into_iter().flatten() {
                    let (effects, _) = prog::eval(p, &prog::AbstractReader { st: &pre_abs, w: p.warp });
                    let ops = prog::effects_to_ops(&effects, &p.delete_sources());
                    let mut st = before.clone();
                    let patch = WarpTickPatchV1::new(0, [0; 32], warp_core::TickCommitStatus::Committed, vec![], vec![], ops.clone());
                    let r = patch.apply_to_state(&mut st);
                    eprintln!("  slot {} warp {} scope {} alone => {:?}; ops {:?}", p.slot, verif_core::hex4(&p.warp.0), verif_core::hex4(&p.scope.0), r.err(), p.ops);
                    if r.is_err() {
                        eprintln!("     emitted: {:?}", patch.ops());
                    }
                }
            }
            rep.inconclusive("sequence tick failed (reported under C01/C14)");
            for p in &all_programs { prog::uninstall(p); }
            return;
        };
        if !ok {
            rep.inconclusive("harness: apply failed in sequence");
        }
        let (post, _) = AState::extract(engine.state());
        if std::env::var_os("VERIF_C04_DUMP_FAILED_TICK").is_some() {
            for (k, (f, t, _)) in &post.edges {
                if !post.nodes.contains_key(&(k.0, *f)) || !post.nodes.contains_key(&(k.0, *t)) {
                    eprintln!("DANGLING after case {case} tick {_t}: edge {} from {} to {} (from exists {}, to exists {})", verif_core::hex4(&k.1 .0), verif_core::hex4(&f.0), verif_core::hex4(&t.0), post.nodes.contains_key(&(k.0, *f)), post.nodes.contains_key(&(k.0, *t)));
                    for p in all_programs.last().into_iter().flatten() {
                        eprintln!("    slot {} warp {} scope {} ops {:?}", p.slot, verif_core::hex4(&p.warp.0), verif_core::hex4(&p.scope.0), p.ops);
                    }
                }
            }
        }
        rep.eval();
        rep.count("ticks_replayed", 1);
        if let Some((cls, msg)) = replay_check(&before, g.root, &patch, &post, &snap.state_root) {
            let sig = if cls == "replay-diff-edge-attachment" { "C04:sequence:edge-attachment-lost-or-changed-on-replay".to_owned() } else { format!("C04:sequence:{cls}") };
            rep.violation(&sig, &msg, replay.clone());
        }
        recorded.push((post.clone(), snap.state_root));
        cur.state = post;
    }
    // jump_to_tick(k) must reproduce tick k's recorded state
    for (k, (want, want_root)) in recorded.iter().enumerate() {
        rep.eval();
        match engine.jump_to_tick(k) {
            Ok(()) => {
                let (got, _) = AState::extract(engine.state());
                let r = warp_core::verif::state_root(engine.state(), &g.root);
                if &got != want || &r != want_root {
                    let d = got.first_diff(want);
                    let sig = if d.starts_with("edge-attachment") { "C04:jump_to_tick:edge-attachment-lost-or-changed-on-replay".to_owned() } else { format!("C04:jump_to_tick:{}", d.split(':').next().unwrap_or("state")) };
                    rep.violation(&sig, &format!("jump_to_tick({k}) differs from the live state at tick {k}: {d}"), replay.clone());
                }
                rep.count("jumps_checked", 1);
            }
            Err(e) => {
                rep.violation("C04:jump_to_tick:error", &format!("jump_to_tick({k}) failed on a committed history: {e:?}"), replay.clone());
            }
        }
    }
    if recorded.len() >= 2 {
        rep.nontrivial(format!("seq{case}-{:?}", recorded.iter().map(|r| r.1).collect::<Vec<_>>()).as_bytes());
    }
    for p in &all_programs { prog::uninstall(p); }
}

/// Descent chain per non-root instance, derived from the abstract state.
pub fn descent_of(st: &AState, root: NodeKey) -> std::collections::BTreeMap<WarpId, Vec<AttachmentKey>> {
    let mut out = std::collections::BTreeMap::new();
    for w in st.insts.keys() {
        if *w == root.warp_id {
            continue;
        }
        let mut chain = Vec::new();
        let mut cur = *w;
        let mut guard = 0;
        while let Some(AInst { parent: Some(k), .. }) = st.insts.get(&cur) {
            chain.push(*k);
            cur = gen::key_warp(k);
            guard += 1;
            if guard > 32 {
                break;
            }
        }
        chain.reverse();
        out.insert(*w, chain);
    }
    out
}

// ---------------------------------------------------------------------------
// State-pair universe
// ---------------------------------------------------------------------------

struct Uni {
    w0: WarpId,
    w1: WarpId,
    nodes: [NodeId; 3],
    edges: [EdgeId; 3],
    child_root: NodeId,
}

fn uni() -> Uni {
    let h = |s: &str| *blake3::hash(s.as_bytes()).as_bytes();
    Uni {
        w0: WarpId(h("c04/w0")),
        w1: WarpId(h("c04/w1")),
        nodes: [NodeId(h("c04/a")), NodeId(h("c04/b")), NodeId(h("c04/c"))],
        edges: [EdgeId(h("c04/e1")), EdgeId(h("c04/e2")), EdgeId(h("c04/e3"))],
        child_root: NodeId(h("c04/cr")),
    }
}

/// Random well-formed state over the small universe. `small` shrinks it to
/// {a,b} × {e1} for the exhaustive-ish thorough pass.
fn small_state(rng: &mut Rng, u: &Uni, tiny: bool) -> AState {
    let nt = gen::node_types();
    let et = gen::edge_types();
    let at = gen::atom_types();
    let mut st = AState::default();
    st.insts.insert(u.w0, AInst { root: u.nodes[0], parent: None });
    st.nodes.insert((u.w0, u.nodes[0]), nt[0]);
    let n_nodes = if tiny { 2 } else { 3 };
    let n_edges = if tiny { 1 } else { 3 };
    for n in &u.nodes[1..n_nodes] {
        match rng.below(3) {
            0 => {}
            k => {
                st.nodes.insert((u.w0, *n), nt[k as usize - 1]);
            }
        }
    }
    let present: Vec<NodeId> = u.nodes[..n_nodes].iter().copied().filter(|n| st.nodes.contains_key(&(u.w0, *n))).collect();
    for e in &u.edges[..n_edges] {
        if rng.chance(2, 3) {
            st.edges.insert((u.w0, *e), (*rng.pick(&present), *rng.pick(&present), et[rng.below_usize(2)]));
        }
    }
    let atom = |rng: &mut Rng| match rng.below(3) {
        0 => AVal::Atom(at[0], vec![1, 2, 3]),
        1 => AVal::Atom(at[0], vec![9]),
        _ => AVal::Atom(at[1], vec![1, 2, 3]),
    };
    for n in &present {
        if rng.chance(1, 3) {
            st.natt.insert((u.w0, *n), atom(rng));
        }
    }
    let es: Vec<EdgeId> = st.edges.keys().map(|k| k.1).collect();
    for e in &es {
        if rng.chance(1, 2) {
            st.eatt.insert((u.w0, *e), atom(rng));
        }
    }
    // optional child instance behind a node- or edge-owned portal
    if rng.chance(1, 3) {
        let key = if rng.chance(1, 2) && !es.is_empty() {
            let e = *rng.pick(&es);
            st.eatt.insert((u.w0, e), AVal::Descend(u.w1));
            AttachmentKey::edge_beta(EdgeKey { warp_id: u.w0, local_id: e })
        } else {
            let n = *rng.pick(&present);
            st.natt.insert((u.w0, n), AVal::Descend(u.w1));
            AttachmentKey::node_alpha(NodeKey { warp_id: u.w0, local_id: n })
        };
        st.insts.insert(u.w1, AInst { root: u.child_root, parent: Some(key) });
        st.nodes.insert((u.w1, u.child_root), nt[rng.below_usize(2)]);
        if rng.chance(1, 2) {
            st.natt.insert((u.w1, u.child_root), atom(rng));
        }
        if rng.chance(1, 2) {
            st.nodes.insert((u.w1, u.nodes[1]), nt[1]);
            if rng.chance(1, 2) {
                st.edges.insert((u.w1, u.edges[0]), (u.child_root, u.nodes[1], et[0]));
            }
        }
    }
    st
}

fn pair_case(rep: &mut Report, seed: u64, stream: &str, case: u64, tiny: bool) {
    let u = uni();
    let mut rng = Rng::for_case(seed, stream, case);
    let a = small_state(&mut rng, &u, tiny);
    let b = small_state(&mut rng, &u, tiny);
    let (Ok(ra), Ok(rb)) = (a.build(rng.below(3)), b.build(rng.below(3))) else {
        rep.inconclusive("generator: pair universe state did not build");
        return;
    };
    let root = NodeKey { warp_id: u.w0, local_id: u.nodes[0] };
    rep.eval();
    let ops = warp_core::verif::diff_state(&ra, &rb);
    let patch = WarpTickPatchV1::new(0, [0; 32], TickCommitStatus::Committed, Vec::new(), Vec::new(), ops.clone());
    let mut st = ra.clone();
    let replay = json!({"mode": "pair", "seed": seed, "stream": stream, "case": case, "tiny": tiny});
    match patch.apply_to_state(&mut st) {
        Err(e) => {
            rep.count("pairs_typed_error", 1);
            rep.observe("typed_errors", &format!("{e:?}").split('(').next().unwrap_or("?").to_owned());
        }
        Ok(()) => {
            rep.count("pairs_applied", 1);
            let (got, issues) = AState::extract(&st);
            if !issues.0.is_empty() {
                rep.violation("C04:pair:storage-invariant", &format!("diff applied but state breaks storage invariants: {:?}", issues.0), replay.clone());
            }
            if got != b {
                let d = got.first_diff(&b);
                // classify the F2 input class exactly: an edge present on both sides whose
                // source changed while its attachment stayed the same
                let f2 = a.edges.iter().any(|(k, v)| b.edges.get(k).is_some_and(|w| w.0 != v.0) && a.eatt.get(k).is_some() && a.eatt.get(k) == b.eatt.get(k));
                let sig = if f2 && d.starts_with("edge-attachment") { "C04:pair:reparented-edge-loses-attachment".to_owned() } else { format!("C04:pair:third-state:{}", d.split(':').next().unwrap_or("state")) };
                rep.violation(&sig, &format!("apply(diff(a,b), a) succeeded but produced a third state: {d} (left=result, right=b); ops={}", ops.iter().map(|o| format!("{o:?}").chars().take(70).collect::<String>()).collect::<Vec<_>>().join(" | ")), replay.clone());
            } else {
                let r1 = warp_core::verif::state_root(&st, &root);
                let r2 = warp_core::verif::state_root(&rb, &root);
                if r1 != r2 {
                    rep.violation("C04:pair:root-differs", "diff applied to equal content but state roots differ", replay.clone());
                }
            }
        }
    }
    if a != b {
        let mut canon = a.canonical_bytes();
        canon.extend(b.canonical_bytes());
        rep.nontrivial(&canon);
    }
    if rep.wants_sample() && ops.len() >= 3 && ops.len() <= 6 {
        rep.sample(json!({"kind": "pair", "case": case, "ops": ops.iter().map(|o| format!("{o:?}").chars().take(80).collect::<String>()).collect::<Vec<_>>()}));
    }
}

pub fn replay(args: &Args, path: &std::path::Path, mut rep: Report) -> i32 {
    let Ok(text) = std::fs::read_to_string(path) else { println!("HARNESS-ERROR cannot read replay"); return 2 };
    let Ok(v) = serde_json::from_str::<Value>(&text) else { println!("HARNESS-ERROR bad replay json"); return 2 };
    let r = &v["replay"];
    let mut a2 = args.clone();
    a2.seed = r["seed"].as_u64().unwrap_or(args.seed);
    let case = r["case"].as_u64().unwrap_or(0);
    match r["mode"].as_str() {
        Some("pair") => pair_case(&mut rep, a2.seed, r["stream"].as_str().unwrap_or("C04/pair"), case, r["tiny"].as_bool().unwrap_or(false)),
        Some("sequence") => sequence(&mut rep, &a2, case),
        _ => {
            let size = match r["size"].as_str() { Some("Medium") => SizeClass::Medium, _ => SizeClass::Small };
            single_ticks(&mut rep, &a2, case, size);
        }
    }
    if rep.violations() > 0 { 1 } else { println!("replay: no divergence"); 0 }
}

pub fn run(args: &Args) -> i32 {
    tick::install_quiet_panic_hook();
    let mut rep = Report::new(args, "exploration",
        "(1) every committed tick of generated programs over generated multi-instance graphs (single ticks and 2..6-tick sequences on one engine) is replayed from its emitted patch on a clone of the pre-state and compared (abstract content + state root) with the live post-state; jump_to_tick(k) for every k. (2) random ordered pairs of well-formed states over a small universe (2 instances, 3 node ids, 3 edge ids, 2 types, 3 attachment values, node- and edge-owned portals) pushed through the diff_state door: apply(diff(a,b),a) must be b or a typed error. Non-trivial = patch with >=2 ops / pair of different states; distinct by canonical bytes.");
    if let Some(p) = &args.replay { return replay(args, p, rep); }
    let budget = Budget::for_tier(args.tier, 150.0, 1500.0);
    let jobs = args.jobs.max(1);
    let n_small = args.by_tier(2400u64, 90_000);
    let n_medium = args.by_tier(400u64, 18_000);
    let n_seq = args.by_tier(600u64, 24_000);
    let n_pairs = args.by_tier(800_000u64, 18_000_000);
    let b = budget.slice(0.3);
    run_shards(&mut rep, jobs, jobs, |shard, rep| {
        let mut case = shard as u64;
        while case < n_small + n_medium && !b.expired() {
            if case < n_small { single_ticks(rep, args, case, SizeClass::Small) } else { single_ticks(rep, args, case, SizeClass::Medium) }
            case += jobs as u64;
        }
    });
    let b = budget.slice(0.25);
    run_shards(&mut rep, jobs, jobs, |shard, rep| {
        let mut case = shard as u64;
        while case < n_seq && !b.expired() {
            sequence(rep, args, case);
            case += jobs as u64;
        }
    });
    let b = budget.slice(0.45);
    run_shards(&mut rep, jobs, jobs, |shard, rep| {
        let mut case = shard as u64;
        while case < n_pairs && !b.expired() {
            pair_case(rep, args.seed, "C04/pair", case, case % 3 == 0);
            case += jobs as u64;
        }
    });
    rep.assumption("a typed error from applying a diff between two arbitrary well-formed states is allowed by the statement and only counted; it is a violation for a tick the engine committed");
    rep.finish(args.by_tier(50, 1000))
}
