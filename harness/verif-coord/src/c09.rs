//! C09 — a scheduler pass is all-or-nothing and strictly ordered.
//!
//! Fault-injection matrix over (n runnable heads, failing position k, failure
//! kind, failing pass first/middle/last) with a component-wise fingerprint of
//! runtime + provenance + engine taken around *every* pass, followed by
//! quarantine / recovery / retry phases and the exactly-once log checker.

use std::collections::BTreeSet;

use verif_core::{json, Args, Budget, Report, Rng, Value};
use warp_core::verif::failpoint;
use warp_core::{
    GlobalTick, HeadEligibility, ProvenanceStore, SchedulerCoordinator, SchedulerFaultRecord,
    SchedulerFaultScope, SchedulerFaultStatus, TickReceiptDisposition, WorldlineTick,
};

use crate::fp;
use crate::rt::{
    arm_failpoint, arm_token, disarm_token, intent_bytes, wl_id, HeadSpec, IntentSpec, PassResult,
    PolicySpec, TargetSpec, Topology, World, FAILPOINTS, N_KINDS,
};

// ---------------------------------------------------------------------------
// Case coordinates
// ---------------------------------------------------------------------------

#[derive(Debug, Clone, PartialEq, Eq)]
pub enum Kind {
    /// Armed fault intent of behaviour `C|P|F|M|D` in the failing head's batch.
    Intent(u8),
    /// H8 failpoint `FAILPOINTS[i]`, typed error or panic.
    Failpoint(usize, bool),
    /// Failing head's worldline frontier forced to `WorldlineTick::MAX` (H11).
    FrontierMax,
    /// Global tick forced to `GlobalTick::MAX` (H11).
    GlobalMax,
    /// Frontier tick forced ahead of provenance length ⇒ append rejects (TickGap).
    ProvenanceGap,
}

impl Kind {
    pub fn all() -> Vec<Self> {
        let mut v: Vec<Self> = crate::rt::FAULT_BEHAVIOURS
            .iter()
            .map(|b| Self::Intent(*b))
            .collect();
        for i in 0..FAILPOINTS.len() {
            v.push(Self::Failpoint(i, false));
            v.push(Self::Failpoint(i, true));
        }
        v.push(Self::FrontierMax);
        v.push(Self::GlobalMax);
        v.push(Self::ProvenanceGap);
        v
    }
    pub fn name(&self) -> String {
        match self {
            Self::Intent(b) => format!("intent-{}", *b as char),
            Self::Failpoint(i, p) => format!(
                "failpoint-{}-{}",
                FAILPOINTS[*i].trim_start_matches("coord."),
                if *p { "panic" } else { "error" }
            ),
            Self::FrontierMax => "frontier-tick-max".to_owned(),
            Self::GlobalMax => "global-tick-max".to_owned(),
            Self::ProvenanceGap => "provenance-tick-gap".to_owned(),
        }
    }
    fn from_name(s: &str) -> Option<Self> {
        Self::all().into_iter().find(|k| k.name() == s)
    }
}

#[derive(Debug, Clone, Copy, PartialEq, Eq)]
pub enum When {
    First,
    Middle,
    Last,
}

#[derive(Debug, Clone)]
pub struct Case {
    pub n: usize,
    pub k: usize,
    pub kind: Kind,
    pub when: When,
    pub layout_seed: u64,
}

impl Case {
    fn to_json(&self) -> Value {
        json!({
            "n": self.n, "k": self.k, "kind": self.kind.name(),
            "when": format!("{:?}", self.when), "layout_seed": self.layout_seed.to_string(),
        })
    }
    fn from_json(v: &Value) -> Option<Self> {
        Some(Self {
            n: v.get("n")?.as_u64()? as usize,
            k: v.get("k")?.as_u64()? as usize,
            kind: Kind::from_name(v.get("kind")?.as_str()?)?,
            when: match v.get("when")?.as_str()? {
                "First" => When::First,
                "Middle" => When::Middle,
                _ => When::Last,
            },
            layout_seed: v.get("layout_seed")?.as_str()?.parse().ok()?,
        })
    }
}

fn matrix() -> Vec<(usize, usize, Kind)> {
    let mut v = Vec::new();
    for n in 1..=8usize {
        for k in 0..n {
            for kind in Kind::all() {
                v.push((n, k, kind));
            }
        }
    }
    v
}

fn case_for_index(seed: u64, idx: u64, m: &[(usize, usize, Kind)]) -> Case {
    let mut rng = Rng::for_case(seed, "C09", idx);
    let layout_seed = rng.next_u64();
    if (idx as usize) < m.len() {
        let (n, k, kind) = m[idx as usize].clone();
        let when = [When::First, When::Middle, When::Last][(idx as usize + n + k) % 3];
        Case {
            n,
            k,
            kind,
            when,
            layout_seed,
        }
    } else {
        let n = rng.range_usize(1, 8);
        let k = rng.below_usize(n);
        let kinds = Kind::all();
        let kind = kinds[rng.below_usize(kinds.len())].clone();
        let when = [When::First, When::Middle, When::Last][rng.below_usize(3)];
        Case {
            n,
            k,
            kind,
            when,
            layout_seed,
        }
    }
}

// ---------------------------------------------------------------------------
// Monitor state
// ---------------------------------------------------------------------------

struct Monitor<'a> {
    w: World,
    rep: &'a mut Report,
    case: &'a Case,
    /// Harness-side model of who is quarantined (not read from the runtime).
    model_faulted: BTreeSet<usize>,
    model_runtime_fault: bool,
    dormant: BTreeSet<usize>,
    intents: Vec<IntentSpec>,
    log: Vec<String>,
    violated: bool,
}

static VERBOSE: std::sync::atomic::AtomicBool = std::sync::atomic::AtomicBool::new(false);

struct PassReport {
    result: PassResult,
    /// Head indices that committed (success only).
    committed: Vec<usize>,
    /// New fault record (failure only).
    new_fault: Option<SchedulerFaultRecord>,
}

impl Monitor<'_> {
    fn violation(&mut self, check: &str, what: &str) {
        self.violated = true;
        let sig = format!("C09:{check}:{}", self.case.kind.name());
        let replay = json!({
            "case": self.case.to_json(),
            "topology": self.w.topo.to_json(),
            "intents": self.intents.iter().map(IntentSpec::to_json).collect::<Vec<_>>(),
            "history": self.log,
        });
        let what = format!(
            "{what} [n={} k={} kind={} when={:?}]",
            self.case.n,
            self.case.k,
            self.case.kind.name(),
            self.case.when
        );
        self.rep.violation(&sig, &what, replay);
    }

    /// Replay mode: print the history as it unfolds.
    fn echo(&self) {
        if VERBOSE.load(std::sync::atomic::Ordering::Relaxed) {
            if let Some(l) = self.log.last() {
                println!("  {l}");
            }
        }
    }

    fn runnable_model(&self) -> Vec<usize> {
        if self.model_runtime_fault {
            return Vec::new();
        }
        self.w
            .canonical_head_order()
            .into_iter()
            .filter(|h| !self.model_faulted.contains(h) && !self.dormant.contains(h))
            .collect()
    }

    /// One monitored pass. `expect_fail_head`: `Some(Some(h))` = the pass must
    /// fail and may only blame head `h` (or the runtime); `Some(None)` = must
    /// fail, runtime-scoped or pre-existing; `None` = must succeed.
    fn pass(&mut self, label: &str) -> PassReport {
        let w = &self.w;
        let pre_parts = fp::full(&w.runtime, &w.provenance, &w.engine);
        let pre_global = w.runtime.global_tick().as_u64();
        let n_wl = w.topo.n_worldlines;
        let pre_frontier: Vec<u64> = (0..n_wl)
            .map(|i| {
                w.runtime
                    .worldlines()
                    .get(&wl_id(i))
                    .map_or(0, |f| f.frontier_tick().as_u64())
            })
            .collect();
        let pre_len: Vec<u64> = (0..n_wl)
            .map(|i| w.provenance.len(wl_id(i)).unwrap_or(0))
            .collect();
        let pre_tip: Vec<Option<warp_core::Hash>> = (0..n_wl)
            .map(|i| {
                w.provenance
                    .tip_ref(wl_id(i))
                    .ok()
                    .flatten()
                    .map(|r| r.commit_hash)
            })
            .collect();
        let n_heads = w.keys.len();
        let previews: Vec<Vec<warp_core::Hash>> = (0..n_heads).map(|h| w.admit_preview(h)).collect();
        let pre_pending: Vec<Vec<warp_core::Hash>> =
            (0..n_heads).map(|h| w.pending_ids(h)).collect();
        let pre_faults: Vec<SchedulerFaultRecord> = w.runtime.scheduler_faults().cloned().collect();
        let expected_commit: Vec<usize> = self
            .runnable_model()
            .into_iter()
            .filter(|h| !previews[*h].is_empty())
            .collect();
        let was_runtime_faulted = self.model_runtime_fault;

        let result = self.w.pass();
        self.rep.count("passes_total", 1);
        self.log.push(format!("{label}: {}", result.class()));
        self.echo();

        let w = &self.w;
        let post_parts = fp::full(&w.runtime, &w.provenance, &w.engine);
        let post_faults: Vec<SchedulerFaultRecord> =
            w.runtime.scheduler_faults().cloned().collect();
        let mut report = PassReport {
            result: result.clone(),
            committed: Vec::new(),
            new_fault: None,
        };

        // Engine-owned state is borrowed for the commit and must always come back.
        let engine_diff: Vec<_> = fp::diff(&pre_parts, &post_parts, &[])
            .into_iter()
            .filter(|(k, _)| k.starts_with("engine."))
            .collect();
        if let Some((k, d)) = engine_diff.first() {
            let (k, d) = (k.clone(), d.clone());
            self.violation(
                &format!("engine-scratch:{k}"),
                &format!("{label}: engine component {k} differs after the pass ({}): {d}", result.class()),
            );
        }
        let w = &self.w;

        match &result {
            PassResult::Ok(records) => {
                self.rep.count("successful_passes", 1);
                // -- strict canonical order and exact participant set
                let got: Vec<Option<usize>> =
                    records.iter().map(|r| w.head_index(&r.head_key)).collect();
                let want: Vec<Option<usize>> = expected_commit.iter().map(|h| Some(*h)).collect();
                if got != want {
                    let msg = format!(
                        "{label}: committed heads {got:?} but canonical order of runnable heads with admissible work is {want:?} (faulted model {:?}, dormant {:?})",
                        self.model_faulted, self.dormant
                    );
                    let check = if got.iter().flatten().any(|h| self.model_faulted.contains(h)) {
                        "quarantine:faulted-head-ran"
                    } else if want.iter().any(|h| !got.contains(h)) {
                        "order:runnable-head-skipped"
                    } else {
                        "order:not-canonical"
                    };
                    self.violation(check, &msg);
                    return report;
                }
                report.committed = expected_commit.clone();
                // -- ticks
                let mut per_wl = vec![0u64; usize::from(n_wl)];
                for (r, h) in records.iter().zip(expected_commit.iter()) {
                    let wl = usize::from(w.topo.heads[*h].wl);
                    per_wl[wl] += 1;
                    let want_tick = pre_frontier[wl] + per_wl[wl];
                    if r.worldline_tick_after.as_u64() != want_tick {
                        let msg = format!("{label}: head {h} record says worldline tick after = {}, expected {want_tick} (pre {} + {} commits on that worldline)", r.worldline_tick_after.as_u64(), pre_frontier[wl], per_wl[wl]);
                        self.violation("ticks:worldline-step", &msg);
                        return report;
                    }
                    if r.commit_global_tick.as_u64() != pre_global + 1 {
                        let msg = format!("{label}: record commit_global_tick {} ≠ pre {pre_global}+1", r.commit_global_tick.as_u64());
                        self.violation("ticks:record-global", &msg);
                        return report;
                    }
                    if r.admitted_count != previews[*h].len() {
                        let msg = format!("{label}: head {h} admitted_count {} ≠ admissible batch {}", r.admitted_count, previews[*h].len());
                        self.violation("batch:admitted-count", &msg);
                        return report;
                    }
                    // provenance entry for this commit
                    match w
                        .provenance
                        .entry(wl_id(wl as u8), WorldlineTick::from_raw(want_tick - 1))
                    {
                        Ok(e) => {
                            let parent_ok = if per_wl[wl] == 1 {
                                e.parents.iter().map(|p| p.commit_hash).collect::<Vec<_>>()
                                    == pre_tip[wl].into_iter().collect::<Vec<_>>()
                            } else {
                                true
                            };
                            if e.head_key != Some(r.head_key)
                                || e.expected.commit_hash != r.commit_hash
                                || e.expected.state_root != r.state_root
                                || e.commit_global_tick.as_u64() != pre_global + 1
                                || !parent_ok
                            {
                                let msg = format!("{label}: provenance entry wl{wl}@{} disagrees with StepRecord of head {h}", want_tick - 1);
                                self.violation("provenance:entry-mismatch", &msg);
                                return report;
                            }
                        }
                        Err(e) => {
                            let msg = format!("{label}: provenance entry wl{wl}@{} missing: {e}", want_tick - 1);
                            self.violation("provenance:entry-missing", &msg);
                            return report;
                        }
                    }
                }
                for wl in 0..usize::from(n_wl) {
                    let f = w
                        .runtime
                        .worldlines()
                        .get(&wl_id(wl as u8))
                        .map_or(0, |f| f.frontier_tick().as_u64());
                    let l = w.provenance.len(wl_id(wl as u8)).unwrap_or(0);
                    if f != pre_frontier[wl] + per_wl[wl] || l != pre_len[wl] + per_wl[wl] {
                        let msg = format!("{label}: worldline {wl}: frontier {}→{f}, provenance len {}→{l}, commits {}", pre_frontier[wl], pre_len[wl], per_wl[wl]);
                        self.violation("ticks:frontier-advance", &msg);
                        return report;
                    }
                    if per_wl[wl] >= 2 {
                        self.rep.count("multi_head_worldline_passes", 1);
                    }
                }
                if w.runtime.global_tick().as_u64() != pre_global + 1 {
                    let msg = format!("{label}: global tick {pre_global}→{} after a successful pass", w.runtime.global_tick().as_u64());
                    self.violation("ticks:global-step", &msg);
                    return report;
                }
                // -- inboxes: committed heads lose exactly the admitted batch, others untouched
                for h in 0..n_heads {
                    let want: Vec<_> = if expected_commit.contains(&h) {
                        pre_pending[h]
                            .iter()
                            .filter(|id| !previews[h].contains(id))
                            .copied()
                            .collect()
                    } else {
                        pre_pending[h].clone()
                    };
                    if w.pending_ids(h) != want {
                        let msg = format!("{label}: head {h} pending set after pass is not pre-pass minus admitted batch");
                        self.violation("inbox:pending-after-pass", &msg);
                        return report;
                    }
                }
                // -- lawful rejections are receipts, not faults
                if post_faults != pre_faults {
                    let msg = format!("{label}: a successful pass changed scheduler fault evidence ({}→{} records)", pre_faults.len(), post_faults.len());
                    self.violation("faults:changed-by-successful-pass", &msg);
                    return report;
                }
                let mut rejected = 0u64;
                for (r, h) in records.iter().zip(expected_commit.iter()) {
                    let wl = w.topo.heads[*h].wl;
                    if let Ok(e) = w.provenance.entry(
                        wl_id(wl),
                        WorldlineTick::from_raw(r.worldline_tick_after.as_u64() - 1),
                    ) {
                        if let Some(rc) = &e.tick_receipt {
                            rejected += rc
                                .entries()
                                .iter()
                                .filter(|x| matches!(x.disposition, TickReceiptDisposition::Rejected(_)))
                                .count() as u64;
                        }
                    }
                }
                self.rep.count("lawful_rejections_in_receipts", rejected);
            }
            PassResult::Err(class, _) | PassResult::Panic(class) => {
                let class = class.clone();
                self.rep.observe("failure_outcomes", &result.class());
                if was_runtime_faulted {
                    // Blocked pass: nothing at all may change, no new evidence.
                    if class != "SchedulerRuntimeFaultActive" {
                        let msg = format!("{label}: runtime fault active but pass returned {class}");
                        self.violation("quarantine:runtime-fault-not-blocking", &msg);
                        return report;
                    }
                    if let Some((k, d)) = fp::diff(&pre_parts, &post_parts, &[]).first() {
                        let msg = format!("{label}: blocked pass changed component {k}: {d}");
                        let check = format!("atomicity:blocked-pass:{k}");
                        self.violation(&check, &msg);
                    }
                    self.rep.count("blocked_passes_checked", 1);
                    return report;
                }
                self.rep.count("failing_passes", 1);
                // -- all-or-nothing: every component except the fault fields
                let diffs = fp::diff(&pre_parts, &post_parts, fp::FAULT_FIELDS);
                if let Some((k, d)) = diffs.first() {
                    let msg = format!(
                        "{label}: pass failed with {} but component {k} differs from its pre-pass value ({} components differ): {d}",
                        result.class(),
                        diffs.len()
                    );
                    let check = format!("atomicity:{k}");
                    self.violation(&check, &msg);
                    return report;
                }
                // -- only fault evidence is added
                let kept = pre_faults.iter().all(|f| post_faults.contains(f));
                let added: Vec<&SchedulerFaultRecord> = post_faults
                    .iter()
                    .filter(|f| !pre_faults.contains(f))
                    .collect();
                if !kept || added.len() != 1 {
                    let msg = format!("{label}: fault evidence after failed pass: kept_all={kept}, added={} (expected exactly one new record, old ones untouched)", added.len());
                    self.violation("faults:evidence-shape", &msg);
                    return report;
                }
                let rec = added[0].clone();
                if !matches!(rec.status, SchedulerFaultStatus::Active) {
                    self.violation("faults:new-not-active", &format!("{label}: new fault record is not Active"));
                    return report;
                }
                report.new_fault = Some(rec.clone());
                self.rep.observe(
                    "fault_scopes",
                    &format!("{}→{}", result.class(), crate::rt::fault_scope_str(&rec.scope)),
                );
                match rec.scope {
                    SchedulerFaultScope::Head(key) => {
                        let Some(h) = self.w.head_index(&key) else {
                            self.violation("faults:unknown-head", &format!("{label}: fault blames an unregistered head"));
                            return report;
                        };
                        self.model_faulted.insert(h);
                        let w = &self.w;
                        if !w.runtime.is_head_faulted(&key)
                            || w.runtime.is_runtime_faulted()
                            || w.runtime.scheduler_fault_for_head(&key) != Some(&rec)
                        {
                            self.violation("faults:head-index-inconsistent", &format!("{label}: head-scoped fault record but faulted-head index / runtime flag disagree"));
                            return report;
                        }
                    }
                    SchedulerFaultScope::Runtime => {
                        self.model_runtime_fault = true;
                        let w = &self.w;
                        if !w.runtime.is_runtime_faulted()
                            || w.runtime.scheduler_runtime_fault() != Some(&rec)
                        {
                            self.violation("faults:runtime-index-inconsistent", &format!("{label}: runtime-scoped fault record but runtime fault flag disagrees"));
                            return report;
                        }
                    }
                }
                // -- runnable set = canonical order minus quarantined
                let want_keys: Vec<_> = self
                    .runnable_model()
                    .into_iter()
                    .map(|h| self.w.keys[h])
                    .collect();
                let want_text = format!("RunnableWriterSet {{ keys: {want_keys:?} }}");
                let got_text = fp::get(&post_parts, "rt.runnable").unwrap_or("").to_owned();
                let peek = SchedulerCoordinator::peek_order(&self.w.runtime);
                if got_text != want_text || peek != want_keys {
                    let msg = format!("{label}: runnable set after failed pass is not canonical-order(admitted heads) minus quarantined: {}", fp::excerpt(&want_text, &got_text));
                    self.violation("faults:runnable-set", &msg);
                    return report;
                }
                // fault-field texts other than the ones judged above must only grow
                for field in ["faulted_heads", "runtime_fault"] {
                    let a = fp::get(&pre_parts, &format!("rt.{field}")).unwrap_or("");
                    let b = fp::get(&post_parts, &format!("rt.{field}")).unwrap_or("");
                    let changed = a != b;
                    let expected_change = match (field, &rec.scope) {
                        ("faulted_heads", SchedulerFaultScope::Head(_))
                        | ("runtime_fault", SchedulerFaultScope::Runtime) => true,
                        _ => false,
                    };
                    if changed != expected_change {
                        let msg = format!("{label}: fault field {field} changed={changed}, expected change={expected_change}");
                        self.violation("faults:index-shape", &msg);
                        return report;
                    }
                }
            }
        }
        report
    }

    fn submit(&mut self, i: usize) {
        let spec = self.intents[i].clone();
        let obs = self.w.submit(&spec);
        self.log.push(format!(
            "submit #{i} ({}{}) -> {:?} {}",
            spec.behaviour() as char,
            if spec.is_ticketed() { ",ticketed" } else { "" },
            obs.class,
            obs.detail
        ));
    }

    /// Exactly-once over the whole provenance log.
    fn exactly_once(&mut self) {
        let log = self.w.commit_log();
        self.rep.count("log_entries_checked", log.len() as u64);
        let dup = log.iter().find(|(_, ticks)| ticks.len() > 1).map(|(k, t)| (*k, t.clone()));
        if let Some(((head, id), ticks)) = dup {
            let h = self.w.head_index(&head);
            let msg = format!("(head {h:?}, ingress {}) committed in {} ticks: {ticks:?}", verif_core::hex4(&id), ticks.len());
            self.violation("exactly-once:recommit", &msg);
        }
    }
}

// ---------------------------------------------------------------------------
// Case generation + execution
// ---------------------------------------------------------------------------

fn gen_topology(rng: &mut Rng, n: usize) -> (Topology, usize) {
    let n_wl = rng.range_usize(1, n.min(3));
    let salt = rng.below(1000);
    let mut heads = Vec::new();
    let mut has_default = vec![false; n_wl];
    for i in 0..n {
        let wl = if i < n_wl { i } else { rng.below_usize(n_wl) };
        let is_default = !has_default[wl];
        has_default[wl] = true;
        let public_inbox = (!is_default && rng.chance(1, 2)).then(|| format!("inbox-{i}"));
        let policy = match rng.below(20) {
            0..=11 => PolicySpec::AcceptAll,
            12..=16 => PolicySpec::Budgeted(rng.range(1, 3) as u32),
            _ => {
                let drop = rng.below(u64::from(N_KINDS)) as u8;
                PolicySpec::KindFilter((0..N_KINDS).filter(|k| *k != drop).collect())
            }
        };
        heads.push(HeadSpec {
            wl: wl as u8,
            label: format!("h{i}-{salt}"),
            public_inbox,
            is_default,
            policy,
        });
    }
    // Extra heads that never get work / are dormant with work.
    let extra = rng.below_usize(3);
    for j in 0..extra {
        heads.push(HeadSpec {
            wl: rng.below_usize(n_wl) as u8,
            label: format!("x{j}-{salt}"),
            public_inbox: None,
            is_default: false,
            policy: PolicySpec::AcceptAll,
        });
    }
    (
        Topology {
            n_worldlines: n_wl as u8,
            heads,
            workers: rng.range(1, 2) as u8,
        },
        extra,
    )
}

fn gen_intent(rng: &mut Rng, topo: &Topology, head: usize, token: u64, behaviour: u8) -> IntentSpec {
    let h = &topo.heads[head];
    let kinds: Vec<u8> = (0..N_KINDS).filter(|k| h.policy.accepts_kind(*k)).collect();
    let kind = kinds[rng.below_usize(kinds.len())];
    let target = if h.is_default && rng.chance(2, 3) {
        TargetSpec::Default(h.wl)
    } else if let (Some(name), true) = (&h.public_inbox, rng.chance(2, 3)) {
        TargetSpec::Named(h.wl, name.clone())
    } else {
        TargetSpec::Exact(head)
    };
    let plen = rng.range_usize(0, 6);
    let payload = rng.bytes(plen);
    IntentSpec {
        kind,
        bytes: intent_bytes(behaviour, token, &payload),
        target,
        parents: if rng.chance(1, 8) { vec![rng.below(5) as u8] } else { Vec::new() },
        ticketed: rng.chance(3, 10),
    }
}

fn next_token(t: &mut u64) -> u64 {
    *t = t.wrapping_mul(0x9E37_79B9_7F4A_7C15).wrapping_add(1);
    *t
}

const NORMAL: [u8; 6] = [b'N', b'W', b'W', b'S', b'A', b'U'];

/// Every listed head gets 1..=3 fresh ordinary intents, submitted in a
/// shuffled order.
fn normal_round(
    m: &mut Monitor<'_>,
    rng: &mut Rng,
    topo: &Topology,
    token: &mut u64,
    heads: &[usize],
) -> Vec<usize> {
    let mut ids = Vec::new();
    for h in heads {
        for _ in 0..rng.range_usize(1, 3) {
            let b = NORMAL[rng.below_usize(NORMAL.len())];
            let spec = gen_intent(rng, topo, *h, next_token(token), b);
            m.intents.push(spec);
            ids.push(m.intents.len() - 1);
        }
    }
    let mut order = ids.clone();
    rng.shuffle(&mut order);
    for i in &order {
        m.submit(*i);
    }
    ids
}

pub fn run_case(case: &Case, rep: &mut Report) {
    rep.eval();
    failpoint::reset();
    let mut rng = Rng::new(case.layout_seed);
    let (mut topo, extra) = gen_topology(&mut rng, case.n);
    let n = case.n;

    // Failing head = k-th working head in canonical order.
    let probe = World::build(&topo);
    let order: Vec<usize> = probe
        .canonical_head_order()
        .into_iter()
        .filter(|h| *h < n)
        .collect();
    drop(probe);
    let f_head = order[case.k];
    if matches!(case.kind, Kind::Intent(_)) {
        // The poison must be inside the admitted batch.
        if let PolicySpec::Budgeted(_) = topo.heads[f_head].policy {
            topo.heads[f_head].policy = PolicySpec::AcceptAll;
        }
    }
    let f_wl = topo.heads[f_head].wl;
    // Head that the failure is expected to surface at.
    let first_on_wl = order
        .iter()
        .copied()
        .find(|h| topo.heads[*h].wl == f_wl)
        .unwrap_or(f_head);
    let expected_head: Option<usize> = match case.kind {
        Kind::Intent(_) | Kind::Failpoint(..) => Some(f_head),
        Kind::FrontierMax | Kind::ProvenanceGap => Some(first_on_wl),
        Kind::GlobalMax => None,
    };

    let world = World::build(&topo);
    let mut m = Monitor {
        w: world,
        rep,
        case,
        model_faulted: BTreeSet::new(),
        model_runtime_fault: false,
        dormant: BTreeSet::new(),
        intents: Vec::new(),
        log: Vec::new(),
        violated: false,
    };
    // One extra head (if any) is dormant *with* pending work: it must never run.
    let dormant_head = (extra > 0 && rng.chance(1, 2)).then_some(n);
    if let Some(d) = dormant_head {
        m.w.runtime
            .set_head_eligibility(m.w.keys[d], HeadEligibility::Dormant)
            .expect("set eligibility");
        m.dormant.insert(d);
        let spec = gen_intent(&mut rng, &topo, d, case.layout_seed ^ 0xD0, b'W');
        m.intents.push(spec);
        let i = m.intents.len() - 1;
        m.submit(i);
    }

    let (pre_rounds, post_rounds) = match case.when {
        When::First => (0, rng.range_usize(1, 2)),
        When::Middle => (rng.range_usize(1, 2), rng.range_usize(1, 2)),
        When::Last => (rng.range_usize(1, 2), 0),
    };
    let mut token_ctr = case.layout_seed.rotate_left(17);

    let working: Vec<usize> = (0..n).collect();
    for r in 0..pre_rounds {
        normal_round(&mut m, &mut rng, &topo, &mut token_ctr, &working);
        let rp = m.pass(&format!("pre-pass {r}"));
        if m.violated {
            return;
        }
        if !rp.result.is_ok() {
            m.rep.inconclusive(&format!("C09 setup: a fault-free pre pass did not succeed ({})", rp.result.class()));
            return;
        }
    }

    // ---- the failing round
    let round_ids = normal_round(&mut m, &mut rng, &topo, &mut token_ctr, &working);
    let mut poison: Option<usize> = None;
    let mut forced_back: Option<(Option<(u8, u64)>, Option<u64>)> = None;
    match &case.kind {
        Kind::Intent(b) => {
            let mut spec = gen_intent(&mut rng, &topo, f_head, next_token(&mut token_ctr), *b);
            spec.ticketed = rng.chance(1, 2);
            arm_token(spec.token());
            m.intents.push(spec);
            let i = m.intents.len() - 1;
            m.submit(i);
            poison = Some(i);
        }
        Kind::Failpoint(i, panic) => {
            arm_failpoint(FAILPOINTS[*i], case.k as u64, *panic);
        }
        Kind::FrontierMax => {
            let cur = m.w.runtime.worldlines().get(&wl_id(f_wl)).map_or(0, |f| f.frontier_tick().as_u64());
            m.w.runtime
                .verif_force_ticks(Some((wl_id(f_wl), WorldlineTick::MAX)), None)
                .expect("force");
            forced_back = Some((Some((f_wl, cur)), None));
        }
        Kind::ProvenanceGap => {
            let cur = m.w.runtime.worldlines().get(&wl_id(f_wl)).map_or(0, |f| f.frontier_tick().as_u64());
            m.w.runtime
                .verif_force_ticks(Some((wl_id(f_wl), WorldlineTick::from_raw(cur + 7))), None)
                .expect("force");
            forced_back = Some((Some((f_wl, cur)), None));
        }
        Kind::GlobalMax => {
            let cur = m.w.runtime.global_tick().as_u64();
            m.w.runtime
                .verif_force_ticks(None, Some(GlobalTick::MAX))
                .expect("force");
            forced_back = Some((None, Some(cur)));
        }
    }
    m.log.push(format!("inject {} at head {f_head} (expected surfacing head {expected_head:?})", case.kind.name()));
    if case.n == 1 && matches!(case.kind, Kind::Intent(b'C')) && m.rep.wants_sample() {
        // always leave at least one concrete case in the evidence file
        m.rep.sample(json!({"case": case.to_json(), "stage": "before the failing pass", "history": m.log.clone()}));
    }

    let rp = m.pass("failing-pass");
    // Failpoint reachability is evidence, never assumed.
    if let Kind::Failpoint(i, _) = &case.kind {
        let name = FAILPOINTS[*i];
        m.rep.count(&format!("failpoint_hits.{name}"), failpoint::hits(name));
        if failpoint::fired(name) == 0 {
            m.rep.inconclusive(&format!("failpoint {name} armed (skip {}) but never fired — hook unreachable for this case", case.k));
            failpoint::reset();
            return;
        }
        m.rep.count(&format!("failpoint_fired.{name}"), 1);
    }
    for (name, hits) in failpoint::all_hits() {
        m.rep.count(&format!("failpoint_reached.{name}"), hits);
    }
    failpoint::reset();
    if m.violated {
        return;
    }
    if rp.result.is_ok() {
        m.rep.inconclusive(&format!("injection {} did not fail the pass", case.kind.name()));
        if let Some(i) = poison {
            disarm_token(m.intents[i].token());
        }
        return;
    }
    // Who is blamed?
    if let Some(rec) = &rp.new_fault {
        if let SchedulerFaultScope::Head(key) = rec.scope {
            let blamed = m.w.head_index(&key);
            if blamed != expected_head {
                let msg = format!("failing pass blames head {blamed:?} but the failure was injected at head {expected_head:?}");
                m.violation("faults:wrong-head-blamed", &msg);
                return;
            }
        }
    }
    // The case exercised the property: a pass really failed at position k of n.
    m.rep.nontrivial(
        format!("{}|{}|{}|{:?}|{}", case.n, case.k, case.kind.name(), case.when, case.layout_seed).as_bytes(),
    );
    m.rep.observe("positions_nk", &format!("{}:{}", case.n, case.k));
    m.rep.observe("failure_kinds", &case.kind.name());
    m.rep.observe("failing_pass_position", &format!("{:?}", case.when));
    m.rep.observe("kind_outcome", &format!("{}→{}", case.kind.name(), rp.result.class()));
    if m.rep.wants_sample() {
        m.rep.sample(json!({
            "case": case.to_json(),
            "outcome": rp.result.class(),
            "fault_scope": rp.new_fault.as_ref().map(|f| crate::rt::fault_scope_str(&f.scope)),
            "heads": topo.heads.len(), "worldlines": topo.n_worldlines,
            "history": m.log.clone(),
        }));
    }

    // Operator repairs forced ticks right away; quarantine stays.
    if let Some((fr, gl)) = forced_back.take() {
        m.w.runtime
            .verif_force_ticks(
                fr.map(|(w, t)| (wl_id(w), WorldlineTick::from_raw(t))),
                gl.map(GlobalTick::from_raw),
            )
            .expect("force back");
        m.log.push("operator: forced ticks repaired".to_owned());
    }

    if post_rounds == 0 {
        m.exactly_once();
        if let Some(i) = poison {
            disarm_token(m.intents[i].token());
        }
        return;
    }

    // ---- A: pass while quarantined (no recovery yet)
    normal_round(&mut m, &mut rng, &topo, &mut token_ctr, &working);
    let rq = m.pass("quarantined-pass");
    if m.violated {
        if let Some(i) = poison {
            disarm_token(m.intents[i].token());
        }
        return;
    }
    if m.model_runtime_fault {
        m.rep.count("runtime_quarantine_checked", 1);
    } else {
        // unrelated heads progressed, the faulted one did not (checked in pass())
        if rq.result.is_ok() {
            m.rep.count("head_quarantine_checked", 1);
            if rq.committed.len() + m.model_faulted.len() >= n {
                m.rep.count("unrelated_heads_progressed", rq.committed.len() as u64);
            }
        }
    }

    // ---- B: recovery without repair ⇒ fails again, atomically, new evidence
    let mut still_armed = poison.is_some();
    if poison.is_some() && rng.chance(1, 3) {
        let resolved = m.w.resolve_all();
        m.model_faulted.clear();
        m.model_runtime_fault = false;
        m.log.push(format!("trusted recovery without repair ({resolved} faults resolved)"));
        let rb = m.pass("refail-pass");
        if m.violated {
            if let Some(i) = poison {
                disarm_token(m.intents[i].token());
            }
            return;
        }
        if rb.result.is_ok() {
            m.rep.inconclusive("poison still armed after recovery but the pass succeeded");
        } else {
            m.rep.count("refail_after_recovery_checked", 1);
            // resolved evidence is retained
            let resolved_kept = m
                .w
                .runtime
                .scheduler_faults()
                .any(|f| matches!(f.status, SchedulerFaultStatus::Resolved { .. }));
            if !resolved_kept {
                m.violation("faults:resolved-evidence-lost", "resolved fault record disappeared after a repeated fault");
                disarm_token(m.intents[poison.unwrap_or(0)].token());
                return;
            }
        }
    }

    // ---- C: repair + trusted recovery + retried intents
    if let Some(i) = poison {
        disarm_token(m.intents[i].token());
        still_armed = false;
        m.log.push("operator: rule repaired (token disarmed)".to_owned());
    }
    let _ = still_armed;
    let resolved = m.w.resolve_all();
    m.model_faulted.clear();
    m.model_runtime_fault = false;
    m.log.push(format!("trusted recovery ({resolved} faults resolved)"));
    // retries of the whole failing round (all duplicates of pending/committed work)
    let mut retry = round_ids.clone();
    if let Some(i) = poison {
        retry.push(i);
    }
    rng.shuffle(&mut retry);
    for i in retry {
        m.submit(i);
    }
    let rc = m.pass("recovered-pass");
    if m.violated {
        return;
    }
    if rc.result.is_ok() {
        m.rep.count("recovered_runs", 1);
        if expected_head.is_some_and(|h| rc.committed.contains(&h)) {
            m.rep.count("faulted_head_resumed_after_recovery", 1);
        }
    } else {
        m.rep.inconclusive(&format!("pass after repair + recovery did not succeed ({})", rc.result.class()));
        return;
    }
    for r in 1..post_rounds {
        normal_round(&mut m, &mut rng, &topo, &mut token_ctr, &working);
        let _ = m.pass(&format!("post-pass {r}"));
        if m.violated {
            return;
        }
    }
    // drain budgets
    for r in 0..4 {
        if (0..m.w.keys.len()).all(|h| m.dormant.contains(&h) || m.w.admit_preview(h).is_empty()) {
            break;
        }
        let _ = m.pass(&format!("drain-pass {r}"));
        if m.violated {
            return;
        }
    }
    // a pass with nothing to admit: no records, global tick still +1
    if (0..m.w.keys.len()).all(|h| m.dormant.contains(&h) || m.w.admit_preview(h).is_empty()) {
        let ri = m.pass("idle-pass");
        if m.violated {
            return;
        }
        if let PassResult::Ok(r) = &ri.result {
            if r.is_empty() {
                m.rep.count("idle_passes_checked", 1);
            }
        }
    }
    m.exactly_once();
}

// ---------------------------------------------------------------------------
// Entry points
// ---------------------------------------------------------------------------

const RULE: &str = "case = (n runnable heads 1..=8 over 1..=3 worldlines, failing position k<n in canonical head order, failure kind ∈ {armed fault intent C/P/F/M/D, 5 H8 failpoints × {typed error, panic}, frontier tick MAX, global tick MAX, provenance tick gap}, failing pass first/middle/last, random layout: policies, routing, ticketed/plain ingress, idle and dormant extra heads); the full (n,k,kind) matrix is enumerated first, then sampled layouts. Non-trivial = the injected failure really made that pass return Err/unwind (reached failpoints are counted from failpoint::hits). Distinct by (n,k,kind,when,layout seed).";

pub fn run(args: &Args) -> i32 {
    let mut rep = Report::new(args, "fault_enumeration", RULE);
    if let Some(path) = &args.replay {
        return replay(args, path, rep);
    }
    let budget = Budget::for_tier(args.tier, 60.0, 840.0);
    let m = matrix();
    let total: u64 = args.by_tier(m.len() as u64, 30_000);
    rep.set("matrix_cells", json!(m.len()));
    rep.assumption("H8 failpoints return a typed RuntimeError chosen by the hook (Engine/Provenance/FrontierTickOverflow/ReceiptCorrelationReplayMismatch/UnknownHead); fault *scope* for them is whatever the repository derives from that error");
    rep.assumption("dev profile: footprint enforcement on ⇒ undeclared write and cross-instance op surface as FootprintViolation panics; EngineError::UnknownWarp (root instance missing) is not reachable through the public API and is not driven");
    rep.assumption("rt.receipt_correlation_full_scan_count (a host_test statistics Cell bumped by reads) is excluded from the fingerprint");
    let chunk = 12u64;
    let n_shards = total.div_ceil(chunk) as usize;
    let seed = args.seed;
    verif_core::run_shards(&mut rep, args.jobs * 3, n_shards, |shard, rep| {
        let m = matrix();
        for idx in (shard as u64 * chunk)..((shard as u64 + 1) * chunk).min(total) {
            if budget.expired() && idx >= m.len() as u64 {
                break;
            }
            let case = case_for_index(seed, idx, &m);
            run_case(&case, rep);
        }
    });
    let matrix_done = rep.evaluations() >= m.len() as u64;
    rep.set("matrix_completed", json!(matrix_done));
    rep.finish(args.by_tier(300, 2_000))
}

fn replay(_args: &Args, path: &std::path::Path, mut rep: Report) -> i32 {
    let Ok(text) = std::fs::read_to_string(path) else {
        println!("HARNESS-ERROR cannot read replay file {}", path.display());
        return 2;
    };
    let Ok(v) = serde_json::from_str::<Value>(&text) else {
        println!("HARNESS-ERROR replay file is not JSON");
        return 2;
    };
    let Some(case) = v.get("replay").and_then(|r| r.get("case")).and_then(Case::from_json) else {
        println!("HARNESS-ERROR replay file has no case coordinates");
        return 2;
    };
    println!("REPLAY C09 {:?}", case);
    VERBOSE.store(true, std::sync::atomic::Ordering::Relaxed);
    run_case(&case, &mut rep);
    if rep.violations() > 0 {
        1
    } else {
        println!("REPLAY: no divergence reproduced");
        0
    }
}
