//! Shared runtime scaffolding: topology / intent / script specs (JSON
//! round-trippable for replay), the data-driven rule family registered on the
//! engine, world construction, the script interpreter and its recorded trace.
//!
//! The interpreter only *records* what the real code did at the public API
//! boundary; the oracles live in `c08.rs` / `c09.rs`.

use std::collections::{BTreeMap, BTreeSet};
use std::panic::{catch_unwind, AssertUnwindSafe};
use std::sync::Mutex;

use verif_core::{hex, json, unhex, Value};
use warp_core::verif::failpoint;
use warp_core::{
    make_head_id, make_intent_kind, make_node_id, make_type_id, AtomPayload, AttachmentKey,
    AttachmentSet, AttachmentValue, CausalTickReceiptRef, ConflictPolicy, Engine, EngineBuilder,
    Footprint, FootprintViolation, FootprintViolationWithPanic, GlobalTick, GraphStore, GraphView,
    Hash, InboxAddress, InboxPolicy, IngressCausalParent, IngressDisposition, IngressEnvelope,
    IngressTarget, IntentKind, IntentSubmissionDisposition, NodeId, NodeKey, NodeRecord,
    OpticAdmissionTicket, OpticArtifactHandle, PatternGraph, PlaybackMode, ProvenanceEntry,
    ProvenanceService, ProvenanceStore, ReceiptCorrelationPersistenceRecord, RewriteRule,
    RuntimeError, SchedulerCoordinator, SchedulerFaultRecoveryAuthority, SchedulerFaultScope,
    SchedulerFaultStatus, SchedulerKind, StepRecord, TickDelta,
    TicketedRuntimeIngressAuthority, TicketedRuntimeIngressDisposition, WarpId, WarpOp,
    WorldlineId, WorldlineRuntime, WorldlineState, WorldlineTick, WriterHead, WriterHeadKey,
    OPTIC_ADMISSION_TICKET_KIND, OPTIC_ARTIFACT_HANDLE_KIND,
};

// ---------------------------------------------------------------------------
// quiet panic hook
// ---------------------------------------------------------------------------

/// Expected panics (injected executor panics, failpoint panics, footprint
/// violations) are workload, not noise. Anything else is still printed.
pub fn install_quiet_panic_hook() {
    let default = std::panic::take_hook();
    std::panic::set_hook(Box::new(move |info| {
        let p = info.payload();
        let msg = p
            .downcast_ref::<&str>()
            .map(|s| (*s).to_owned())
            .or_else(|| p.downcast_ref::<String>().cloned());
        let expected = match &msg {
            Some(m) => m.starts_with("verif-injected") || m.starts_with("echo_verif failpoint"),
            None => {
                p.downcast_ref::<FootprintViolation>().is_some()
                    || p.downcast_ref::<FootprintViolationWithPanic>().is_some()
            }
        };
        if !expected {
            default(info);
        }
    }));
}

pub fn panic_text(p: &(dyn std::any::Any + Send)) -> String {
    if let Some(s) = p.downcast_ref::<&str>() {
        format!("str:{s}")
    } else if let Some(s) = p.downcast_ref::<String>() {
        format!("string:{s}")
    } else if let Some(v) = p.downcast_ref::<FootprintViolation>() {
        format!("FootprintViolation:{:?}", v.kind)
    } else if p.downcast_ref::<FootprintViolationWithPanic>().is_some() {
        "FootprintViolationWithPanic".to_owned()
    } else {
        "opaque".to_owned()
    }
}

// ---------------------------------------------------------------------------
// Intent behaviours and the rule family
// ---------------------------------------------------------------------------
//
// intent bytes = [behaviour u8][token u64 LE][payload ...]
//
//   N  matched, executor emits nothing
//   W  writes its own result node + attachment H(bytes)
//   S  sets the shared node's attachment := bytes      (S/A intents of one
//   A  shared attachment := H(old shared || bytes)      batch conflict ⇒ one
//                                                       lawful rejection each)
//   U  no rule matches (event node only)
//   fault behaviours — active only while the token is ARMED, else behave as W:
//   C  two SetAttachment ops on one key with different values ⇒ typed
//      EngineError::InternalCorruption at merge
//   P  executor panics (String payload "verif-injected executor panic")
//   F  writes a node that is not in the declared footprint ⇒ FootprintViolation
//      panic in enforcement builds (dev profile)
//   M  emits an op into a warp instance that does not exist
//   D  deletes a node that does not exist ⇒ typed InternalCorruption at apply

pub const FAULT_BEHAVIOURS: &[u8] = b"CPFMD";

static ARMED: Mutex<BTreeSet<u64>> = Mutex::new(BTreeSet::new());

pub fn arm_token(token: u64) {
    ARMED
        .lock()
        .unwrap_or_else(std::sync::PoisonError::into_inner)
        .insert(token);
}
pub fn disarm_token(token: u64) {
    ARMED
        .lock()
        .unwrap_or_else(std::sync::PoisonError::into_inner)
        .remove(&token);
}
fn is_armed(token: u64) -> bool {
    ARMED
        .lock()
        .unwrap_or_else(std::sync::PoisonError::into_inner)
        .contains(&token)
}

pub fn intent_bytes(behaviour: u8, token: u64, payload: &[u8]) -> Vec<u8> {
    let mut v = Vec::with_capacity(9 + payload.len());
    v.push(behaviour);
    v.extend_from_slice(&token.to_le_bytes());
    v.extend_from_slice(payload);
    v
}

fn scope_bytes<'a>(view: GraphView<'a>, scope: &NodeId) -> Option<&'a [u8]> {
    match view.node_attachment(scope) {
        Some(AttachmentValue::Atom(p)) => Some(p.bytes.as_ref()),
        _ => None,
    }
}

fn token_of(bytes: &[u8]) -> u64 {
    let mut t = [0u8; 8];
    if bytes.len() >= 9 {
        t.copy_from_slice(&bytes[1..9]);
    }
    u64::from_le_bytes(t)
}

fn derived_node(tag: &[u8], scope: &NodeId) -> NodeId {
    let mut h = blake3::Hasher::new();
    h.update(b"verif-coord.node.");
    h.update(tag);
    h.update(scope.as_bytes());
    NodeId(h.finalize().into())
}

pub fn shared_node() -> NodeId {
    make_node_id("verif/shared")
}

fn nk(warp_id: WarpId, local_id: NodeId) -> NodeKey {
    NodeKey { warp_id, local_id }
}

fn atom(bytes: &[u8]) -> AttachmentValue {
    AttachmentValue::Atom(AtomPayload::new(
        make_type_id("verif/atom"),
        bytes::Bytes::copy_from_slice(bytes),
    ))
}

fn matcher<const B: u8>(view: GraphView<'_>, scope: &NodeId) -> bool {
    scope_bytes(view, scope).is_some_and(|b| b.first() == Some(&B))
}

fn base_footprint(view: GraphView<'_>, scope: &NodeId) -> Footprint {
    let warp = view.warp_id();
    let mut fp = Footprint::default();
    fp.n_read.insert_with_warp(warp, *scope);
    let mut a_read = AttachmentSet::default();
    a_read.insert(AttachmentKey::node_alpha(nk(warp, *scope)));
    fp.a_read = a_read;
    fp
}

fn own_write_footprint(view: GraphView<'_>, scope: &NodeId) -> Footprint {
    let warp = view.warp_id();
    let mut fp = base_footprint(view, scope);
    let result = derived_node(b"result", scope);
    fp.n_write.insert_with_warp(warp, result);
    fp.a_write
        .insert(AttachmentKey::node_alpha(nk(warp, result)));
    fp
}

fn shared_footprint(view: GraphView<'_>, scope: &NodeId) -> Footprint {
    let warp = view.warp_id();
    let mut fp = base_footprint(view, scope);
    let shared = shared_node();
    fp.n_read.insert_with_warp(warp, shared);
    fp.n_write.insert_with_warp(warp, shared);
    fp.a_read
        .insert(AttachmentKey::node_alpha(nk(warp, shared)));
    fp.a_write
        .insert(AttachmentKey::node_alpha(nk(warp, shared)));
    fp.factor_mask = 1;
    fp
}

fn emit_own_write(view: GraphView<'_>, scope: &NodeId, delta: &mut TickDelta, bytes: &[u8]) {
    let warp = view.warp_id();
    let result = derived_node(b"result", scope);
    delta.push(WarpOp::UpsertNode {
        node: nk(warp, result),
        record: NodeRecord {
            ty: make_type_id("verif/result"),
        },
    });
    delta.push(WarpOp::SetAttachment {
        key: AttachmentKey::node_alpha(nk(warp, result)),
        value: Some(atom(blake3::hash(bytes).as_bytes())),
    });
}

fn exec_n(_view: GraphView<'_>, _scope: &NodeId, _delta: &mut TickDelta) {}

fn exec_w(view: GraphView<'_>, scope: &NodeId, delta: &mut TickDelta) {
    if let Some(bytes) = scope_bytes(view, scope) {
        emit_own_write(view, scope, delta, bytes);
    }
}

fn exec_s(view: GraphView<'_>, scope: &NodeId, delta: &mut TickDelta) {
    let Some(bytes) = scope_bytes(view, scope) else {
        return;
    };
    let warp = view.warp_id();
    let shared = shared_node();
    delta.push(WarpOp::UpsertNode {
        node: nk(warp, shared),
        record: NodeRecord {
            ty: make_type_id("verif/shared"),
        },
    });
    delta.push(WarpOp::SetAttachment {
        key: AttachmentKey::node_alpha(nk(warp, shared)),
        value: Some(atom(bytes)),
    });
}

fn exec_a(view: GraphView<'_>, scope: &NodeId, delta: &mut TickDelta) {
    let Some(bytes) = scope_bytes(view, scope) else {
        return;
    };
    let warp = view.warp_id();
    let shared = shared_node();
    let old: Vec<u8> = match view.node_attachment(&shared) {
        Some(AttachmentValue::Atom(p)) => p.bytes.to_vec(),
        _ => Vec::new(),
    };
    let mut h = blake3::Hasher::new();
    h.update(&(old.len() as u64).to_le_bytes());
    h.update(&old);
    h.update(bytes);
    delta.push(WarpOp::UpsertNode {
        node: nk(warp, shared),
        record: NodeRecord {
            ty: make_type_id("verif/shared"),
        },
    });
    delta.push(WarpOp::SetAttachment {
        key: AttachmentKey::node_alpha(nk(warp, shared)),
        value: Some(atom(h.finalize().as_bytes())),
    });
}

fn exec_fault<const B: u8>(view: GraphView<'_>, scope: &NodeId, delta: &mut TickDelta) {
    let Some(bytes) = scope_bytes(view, scope) else {
        return;
    };
    if !is_armed(token_of(bytes)) {
        emit_own_write(view, scope, delta, bytes);
        return;
    }
    let warp = view.warp_id();
    let result = derived_node(b"result", scope);
    match B {
        b'C' => {
            delta.push(WarpOp::UpsertNode {
                node: nk(warp, result),
                record: NodeRecord {
                    ty: make_type_id("verif/result"),
                },
            });
            delta.push(WarpOp::SetAttachment {
                key: AttachmentKey::node_alpha(nk(warp, result)),
                value: Some(atom(b"conflict-one")),
            });
            delta.push(WarpOp::SetAttachment {
                key: AttachmentKey::node_alpha(nk(warp, result)),
                value: Some(atom(b"conflict-two")),
            });
        }
        b'P' => {
            // Leave a partial delta behind first: the unwind must discard it.
            emit_own_write(view, scope, delta, bytes);
            panic!("verif-injected executor panic");
        }
        b'F' => {
            emit_own_write(view, scope, delta, bytes);
            delta.push(WarpOp::UpsertNode {
                node: nk(warp, derived_node(b"undeclared", scope)),
                record: NodeRecord {
                    ty: make_type_id("verif/undeclared"),
                },
            });
        }
        b'M' => {
            emit_own_write(view, scope, delta, bytes);
            delta.push(WarpOp::UpsertNode {
                node: nk(warp_core::make_warp_id("verif/no-such-instance"), result),
                record: NodeRecord {
                    ty: make_type_id("verif/result"),
                },
            });
        }
        b'D' => {
            emit_own_write(view, scope, delta, bytes);
            delta.push(WarpOp::DeleteNode {
                node: nk(warp, derived_node(b"ghost", scope)),
            });
        }
        _ => {}
    }
}

fn fault_footprint(view: GraphView<'_>, scope: &NodeId) -> Footprint {
    // Honest for everything except the deliberate F/M violations; D declares
    // the ghost node it tries to delete.
    let warp = view.warp_id();
    let mut fp = own_write_footprint(view, scope);
    let ghost = derived_node(b"ghost", scope);
    fp.n_write.insert_with_warp(warp, ghost);
    // deleting a node also clears its α attachment slot
    fp.a_write.insert(AttachmentKey::node_alpha(nk(warp, ghost)));
    fp
}

fn rule_id(name: &str) -> Hash {
    let mut h = blake3::Hasher::new();
    h.update(b"verif-coord.rule.");
    h.update(name.as_bytes());
    h.finalize().into()
}

fn mk_rule(
    name: &'static str,
    matcher: warp_core::MatchFn,
    executor: warp_core::ExecuteFn,
    compute_footprint: for<'a> fn(GraphView<'a>, &NodeId) -> Footprint,
) -> RewriteRule {
    RewriteRule {
        id: rule_id(name),
        name,
        left: PatternGraph { nodes: vec![] },
        matcher,
        executor,
        compute_footprint,
        factor_mask: 0,
        conflict_policy: ConflictPolicy::Abort,
        join_fn: None,
    }
}

pub fn rules() -> Vec<RewriteRule> {
    vec![
        mk_rule("cmd/verif/n", matcher::<b'N'>, exec_n, base_footprint),
        mk_rule("cmd/verif/w", matcher::<b'W'>, exec_w, own_write_footprint),
        mk_rule("cmd/verif/s", matcher::<b'S'>, exec_s, shared_footprint),
        mk_rule("cmd/verif/a", matcher::<b'A'>, exec_a, shared_footprint),
        mk_rule("cmd/verif/c", matcher::<b'C'>, exec_fault::<b'C'>, fault_footprint),
        mk_rule("cmd/verif/p", matcher::<b'P'>, exec_fault::<b'P'>, fault_footprint),
        mk_rule("cmd/verif/f", matcher::<b'F'>, exec_fault::<b'F'>, fault_footprint),
        mk_rule("cmd/verif/m", matcher::<b'M'>, exec_fault::<b'M'>, fault_footprint),
        mk_rule("cmd/verif/d", matcher::<b'D'>, exec_fault::<b'D'>, fault_footprint),
    ]
}

// ---------------------------------------------------------------------------
// Specs
// ---------------------------------------------------------------------------

pub const N_KINDS: u8 = 4;

pub fn kind(i: u8) -> IntentKind {
    make_intent_kind(&format!("verif/kind-{i}"))
}

pub fn wl_id(i: u8) -> WorldlineId {
    // Distinct first bytes so canonical order is not the registration order.
    let lead = [0x7a_u8, 0x21, 0xc4][usize::from(i) % 3];
    let mut b = [lead; 32];
    b[31] = i;
    WorldlineId::from_bytes(b)
}

#[derive(Debug, Clone, PartialEq, Eq)]
pub enum PolicySpec {
    AcceptAll,
    KindFilter(Vec<u8>),
    Budgeted(u32),
}

impl PolicySpec {
    pub fn to_policy(&self) -> InboxPolicy {
        match self {
            Self::AcceptAll => InboxPolicy::AcceptAll,
            Self::KindFilter(ks) => InboxPolicy::KindFilter(ks.iter().map(|k| kind(*k)).collect()),
            Self::Budgeted(n) => InboxPolicy::Budgeted { max_per_tick: *n },
        }
    }
    pub fn to_json(&self) -> Value {
        match self {
            Self::AcceptAll => json!("accept_all"),
            Self::KindFilter(ks) => json!({ "kind_filter": ks }),
            Self::Budgeted(n) => json!({ "budget": n }),
        }
    }
    pub fn from_json(v: &Value) -> Option<Self> {
        if v.as_str() == Some("accept_all") {
            return Some(Self::AcceptAll);
        }
        if let Some(ks) = v.get("kind_filter").and_then(Value::as_array) {
            return Some(Self::KindFilter(
                ks.iter().filter_map(Value::as_u64).map(|k| k as u8).collect(),
            ));
        }
        v.get("budget")
            .and_then(Value::as_u64)
            .map(|n| Self::Budgeted(n as u32))
    }
    pub fn accepts_kind(&self, k: u8) -> bool {
        match self {
            Self::KindFilter(ks) => ks.contains(&k),
            _ => true,
        }
    }
}

#[derive(Debug, Clone, PartialEq, Eq)]
pub struct HeadSpec {
    pub wl: u8,
    pub label: String,
    pub public_inbox: Option<String>,
    pub is_default: bool,
    pub policy: PolicySpec,
}

#[derive(Debug, Clone, PartialEq, Eq)]
pub struct Topology {
    pub n_worldlines: u8,
    pub heads: Vec<HeadSpec>,
    pub workers: u8,
}

impl Topology {
    pub fn head_key(&self, i: usize) -> WriterHeadKey {
        let h = &self.heads[i];
        WriterHeadKey {
            worldline_id: wl_id(h.wl),
            head_id: make_head_id(&h.label),
        }
    }
    pub fn to_json(&self) -> Value {
        json!({
            "n_worldlines": self.n_worldlines,
            "workers": self.workers,
            "heads": self.heads.iter().map(|h| json!({
                "wl": h.wl, "label": h.label, "public_inbox": h.public_inbox,
                "is_default": h.is_default, "policy": h.policy.to_json(),
            })).collect::<Vec<_>>(),
        })
    }
    pub fn from_json(v: &Value) -> Option<Self> {
        let heads = v
            .get("heads")?
            .as_array()?
            .iter()
            .map(|h| {
                Some(HeadSpec {
                    wl: h.get("wl")?.as_u64()? as u8,
                    label: h.get("label")?.as_str()?.to_owned(),
                    public_inbox: h
                        .get("public_inbox")
                        .and_then(Value::as_str)
                        .map(str::to_owned),
                    is_default: h.get("is_default")?.as_bool()?,
                    policy: PolicySpec::from_json(h.get("policy")?)?,
                })
            })
            .collect::<Option<Vec<_>>>()?;
        Some(Self {
            n_worldlines: v.get("n_worldlines")?.as_u64()? as u8,
            workers: v.get("workers").and_then(Value::as_u64).unwrap_or(1) as u8,
            heads,
        })
    }
}

#[derive(Debug, Clone, PartialEq, Eq)]
pub enum TargetSpec {
    Default(u8),
    Named(u8, String),
    Exact(usize),
}

#[derive(Debug, Clone, PartialEq, Eq)]
pub struct IntentSpec {
    pub kind: u8,
    pub bytes: Vec<u8>,
    pub target: TargetSpec,
    /// Fabricated causal parents (small integers expanded to receipt refs);
    /// order and duplicates are preserved on purpose (the constructor must
    /// canonicalise them as a set).
    pub parents: Vec<u8>,
    /// Submit through `submit_intent` + `ingest_ticketed_invocation` instead of
    /// plain `ingest`.
    pub ticketed: bool,
}

pub fn parent_ref(p: u8) -> IngressCausalParent {
    // High bit selects the typed role; the low bits the receipt coordinate.
    let inverse = p & 0x80 != 0;
    let p = p & 0x7f;
    let receipt_ref = parent_receipt(p);
    if inverse {
        IngressCausalParent::ContractInverseTarget { receipt_ref }
    } else {
        IngressCausalParent::TickReceipt { receipt_ref }
    }
}

fn parent_receipt(p: u8) -> CausalTickReceiptRef {
    {
        CausalTickReceiptRef {
            worldline_id: wl_id(p % 3),
            worldline_tick_after: WorldlineTick::from_raw(u64::from(p) + 1),
            commit_global_tick: GlobalTick::from_raw(u64::from(p) + 1),
            commit_hash: [p; 32],
            submission_id: [p.wrapping_add(1); 32],
            ticket_digest: [p.wrapping_add(2); 32],
            receipt_content_digest: [p.wrapping_add(3); 32],
        }
    }
}

impl IntentSpec {
    pub fn behaviour(&self) -> u8 {
        self.bytes.first().copied().unwrap_or(b'U')
    }
    pub fn token(&self) -> u64 {
        token_of(&self.bytes)
    }
    /// Ticketed route actually used. Intents that match no command rule ('U')
    /// always go through plain `ingest`: a ticketed one committed next to a
    /// matched intent leaves a receipt correlation that
    /// `restore_causal_runtime_history` rejects (receipt has entries, none for
    /// it), which makes the restart path unusable for the scenario — reported
    /// separately, outside C08/C09.
    pub fn is_ticketed(&self) -> bool {
        self.ticketed && self.behaviour() != b'U'
    }
    pub fn envelope(&self, topo: &Topology) -> IngressEnvelope {
        let target = match &self.target {
            TargetSpec::Default(w) => IngressTarget::DefaultWriter {
                worldline_id: wl_id(*w),
            },
            TargetSpec::Named(w, name) => IngressTarget::InboxAddress {
                worldline_id: wl_id(*w),
                inbox: InboxAddress(name.clone()),
            },
            TargetSpec::Exact(h) => IngressTarget::ExactHead {
                key: topo.head_key(*h),
            },
        };
        if self.parents.is_empty() {
            IngressEnvelope::local_intent(target, kind(self.kind), self.bytes.clone())
        } else {
            IngressEnvelope::local_intent_with_causal_parents(
                target,
                kind(self.kind),
                self.bytes.clone(),
                self.parents.iter().map(|p| parent_ref(*p)).collect(),
            )
        }
    }
    /// Head index this intent resolves to under the routing tables of `topo`
    /// (written from the routing *specification*: default writer of the
    /// worldline / head owning the named inbox / the exact head).
    pub fn resolved_head(&self, topo: &Topology) -> Option<usize> {
        match &self.target {
            TargetSpec::Default(w) => topo.heads.iter().position(|h| h.wl == *w && h.is_default),
            TargetSpec::Named(w, name) => topo
                .heads
                .iter()
                .position(|h| h.wl == *w && h.public_inbox.as_deref() == Some(name.as_str())),
            TargetSpec::Exact(h) => (*h < topo.heads.len()).then_some(*h),
        }
    }
    pub fn ticket(&self, topo: &Topology) -> OpticAdmissionTicket {
        let id = self.envelope(topo).ingress_id();
        let tag = hex(&id[..6]);
        OpticAdmissionTicket {
            kind: OPTIC_ADMISSION_TICKET_KIND.to_owned(),
            artifact_handle: OpticArtifactHandle {
                kind: OPTIC_ARTIFACT_HANDLE_KIND.to_owned(),
                id: format!("verif-ticket-{tag}"),
            },
            artifact_hash: format!("artifact-{tag}"),
            operation_id: format!("operation-{tag}"),
            requirements_digest: format!("requirements-{tag}"),
            canonical_variables_digest: id[..8].to_vec(),
            basis_request_digest: [1; 32],
            aperture_request_digest: [2; 32],
            budget_request_digest: [3; 32],
            law_witness_digest: [4; 32],
            ticket_digest: *blake3::hash(&[b"verif-ticket".as_slice(), &id].concat()).as_bytes(),
        }
    }
    pub fn to_json(&self) -> Value {
        let target = match &self.target {
            TargetSpec::Default(w) => json!({ "default": w }),
            TargetSpec::Named(w, n) => json!({ "named": [w, n] }),
            TargetSpec::Exact(h) => json!({ "exact": h }),
        };
        json!({
            "kind": self.kind, "bytes": hex(&self.bytes), "target": target,
            "parents": self.parents, "ticketed": self.ticketed,
        })
    }
    pub fn from_json(v: &Value) -> Option<Self> {
        let t = v.get("target")?;
        let target = if let Some(w) = t.get("default").and_then(Value::as_u64) {
            TargetSpec::Default(w as u8)
        } else if let Some(a) = t.get("named").and_then(Value::as_array) {
            TargetSpec::Named(a.first()?.as_u64()? as u8, a.get(1)?.as_str()?.to_owned())
        } else {
            TargetSpec::Exact(t.get("exact")?.as_u64()? as usize)
        };
        Some(Self {
            kind: v.get("kind")?.as_u64()? as u8,
            bytes: unhex(v.get("bytes")?.as_str()?)?,
            target,
            parents: v
                .get("parents")
                .and_then(Value::as_array)
                .map(|a| a.iter().filter_map(Value::as_u64).map(|p| p as u8).collect())
                .unwrap_or_default(),
            ticketed: v.get("ticketed").and_then(Value::as_bool).unwrap_or(false),
        })
    }
}

/// One scripted step.
#[derive(Debug, Clone, PartialEq, Eq)]
pub enum Ev {
    Submit(usize),
    Policy { head: usize, policy: PolicySpec },
    /// One scheduler pass. `fail` arms a failpoint `(name, skip, panic?)` just
    /// for this pass.
    Pass { fail: Option<(String, u64, bool)> },
    /// Trusted recovery: resolve every active scheduler fault.
    Resolve,
    Arm(usize),
    Disarm(usize),
    /// Drop the runtime, keep provenance ("durable"), rebuild through
    /// `restore_witnessed_submission_persistence` + `restore_causal_runtime_history`.
    Restart,
}

impl Ev {
    pub fn is_submit(&self) -> bool {
        matches!(self, Self::Submit(_))
    }
    pub fn to_json(&self) -> Value {
        match self {
            Self::Submit(i) => json!({ "submit": i }),
            Self::Policy { head, policy } => json!({ "policy": [head, policy.to_json()] }),
            Self::Pass { fail: None } => json!("pass"),
            Self::Pass {
                fail: Some((n, s, p)),
            } => json!({ "pass_fail": [n, s, p] }),
            Self::Resolve => json!("resolve"),
            Self::Arm(i) => json!({ "arm": i }),
            Self::Disarm(i) => json!({ "disarm": i }),
            Self::Restart => json!("restart"),
        }
    }
    pub fn from_json(v: &Value) -> Option<Self> {
        match v.as_str() {
            Some("pass") => return Some(Self::Pass { fail: None }),
            Some("resolve") => return Some(Self::Resolve),
            Some("restart") => return Some(Self::Restart),
            _ => {}
        }
        if let Some(i) = v.get("submit").and_then(Value::as_u64) {
            return Some(Self::Submit(i as usize));
        }
        if let Some(i) = v.get("arm").and_then(Value::as_u64) {
            return Some(Self::Arm(i as usize));
        }
        if let Some(i) = v.get("disarm").and_then(Value::as_u64) {
            return Some(Self::Disarm(i as usize));
        }
        if let Some(a) = v.get("policy").and_then(Value::as_array) {
            return Some(Self::Policy {
                head: a.first()?.as_u64()? as usize,
                policy: PolicySpec::from_json(a.get(1)?)?,
            });
        }
        if let Some(a) = v.get("pass_fail").and_then(Value::as_array) {
            return Some(Self::Pass {
                fail: Some((
                    a.first()?.as_str()?.to_owned(),
                    a.get(1)?.as_u64()?,
                    a.get(2)?.as_bool()?,
                )),
            });
        }
        None
    }
}

#[derive(Debug, Clone, PartialEq, Eq)]
pub struct Scenario {
    pub topo: Topology,
    pub intents: Vec<IntentSpec>,
    pub script: Vec<Ev>,
}

impl Scenario {
    pub fn to_json(&self) -> Value {
        json!({
            "topology": self.topo.to_json(),
            "intents": self.intents.iter().map(IntentSpec::to_json).collect::<Vec<_>>(),
            "script": self.script.iter().map(Ev::to_json).collect::<Vec<_>>(),
        })
    }
    pub fn from_json(v: &Value) -> Option<Self> {
        Some(Self {
            topo: Topology::from_json(v.get("topology")?)?,
            intents: v
                .get("intents")?
                .as_array()?
                .iter()
                .map(IntentSpec::from_json)
                .collect::<Option<Vec<_>>>()?,
            script: v
                .get("script")?
                .as_array()?
                .iter()
                .map(Ev::from_json)
                .collect::<Option<Vec<_>>>()?,
        })
    }
    pub fn canonical_bytes(&self) -> Vec<u8> {
        self.to_json().to_string().into_bytes()
    }
}

// ---------------------------------------------------------------------------
// World
// ---------------------------------------------------------------------------

pub struct World {
    pub topo: Topology,
    pub runtime: WorldlineRuntime,
    pub provenance: ProvenanceService,
    pub engine: Engine,
    pub keys: Vec<WriterHeadKey>,
    /// Current policy per head as the harness set it (spec view).
    pub policies: Vec<PolicySpec>,
    /// Number of simulated restarts so far; selects the restart shape (fresh runtime,
    /// recovery applied twice, recovery replayed over the warm runtime).
    pub restarts: u32,
    /// How often each ingress id has been submitted so far: a repeated submission of a
    /// ticketed intent alternates between the ticketed route and plain `ingest` (a client
    /// retry does not have to come back through the route the original took).
    pub submit_counts: std::collections::BTreeMap<Hash, u32>,
    /// Number of retries of a ticketed intent that went through plain `ingest`.
    pub cross_route_retries: u32,
    /// Route of the most recent ACCEPTED submission per ingress id (`true` = ticketed route:
    /// `submit_intent` + `ingest_ticketed_invocation`, which leaves a receipt correlation at commit).
    pub accepted_route: std::collections::BTreeMap<Hash, bool>,
    /// Set for the duration of one `submit_routed(.., true)` call.
    pub force_plain: bool,
}

pub fn build_engine(workers: u8) -> Engine {
    let mut store = GraphStore::default();
    let root = make_node_id("root");
    store.insert_node(
        root,
        NodeRecord {
            ty: make_type_id("world"),
        },
    );
    let mut engine = EngineBuilder::new(store, root)
        .scheduler(SchedulerKind::Radix)
        .workers(usize::from(workers.max(1)))
        .build();
    for r in rules() {
        engine.register_rule(r).expect("register verif rule");
    }
    engine
}

fn register_heads(runtime: &mut WorldlineRuntime, topo: &Topology, policies: &[PolicySpec]) {
    for (i, h) in topo.heads.iter().enumerate() {
        runtime
            .register_writer_head(WriterHead::with_routing(
                topo.head_key(i),
                PlaybackMode::Play,
                policies[i].to_policy(),
                h.public_inbox.clone().map(InboxAddress),
                h.is_default,
            ))
            .expect("register head");
    }
}

impl World {
    pub fn build(topo: &Topology) -> Self {
        let mut runtime = WorldlineRuntime::new();
        for w in 0..topo.n_worldlines {
            runtime
                .register_worldline(wl_id(w), WorldlineState::empty())
                .expect("register worldline");
        }
        let policies: Vec<PolicySpec> = topo.heads.iter().map(|h| h.policy.clone()).collect();
        register_heads(&mut runtime, topo, &policies);
        let mut provenance = ProvenanceService::new();
        for (id, frontier) in runtime.worldlines().iter() {
            provenance
                .register_worldline(*id, frontier.state())
                .expect("register provenance worldline");
        }
        let keys = (0..topo.heads.len()).map(|i| topo.head_key(i)).collect();
        Self {
            topo: topo.clone(),
            runtime,
            provenance,
            engine: build_engine(topo.workers),
            keys,
            policies,
            restarts: 0,
            submit_counts: std::collections::BTreeMap::new(),
            cross_route_retries: 0,
            accepted_route: std::collections::BTreeMap::new(),
            force_plain: false,
        }
    }

    pub fn head_index(&self, key: &WriterHeadKey) -> Option<usize> {
        self.keys.iter().position(|k| k == key)
    }

    /// Head indices in canonical order: `(worldline id bytes, head id bytes)`.
    pub fn canonical_head_order(&self) -> Vec<usize> {
        let mut ix: Vec<usize> = (0..self.keys.len()).collect();
        ix.sort_by(|a, b| {
            let ka = &self.keys[*a];
            let kb = &self.keys[*b];
            (ka.worldline_id.as_bytes(), ka.head_id.as_bytes())
                .cmp(&(kb.worldline_id.as_bytes(), kb.head_id.as_bytes()))
        });
        ix
    }

    pub fn pending_ids(&self, head: usize) -> Vec<Hash> {
        self.runtime
            .heads()
            .get(&self.keys[head])
            .map(|h| h.inbox().verif_pending_ids())
            .unwrap_or_default()
    }

    /// What the next pass would admit for `head`, obtained by running the
    /// real `HeadInbox::admit` on a *clone* of the inbox.
    pub fn admit_preview(&self, head: usize) -> Vec<Hash> {
        self.runtime
            .heads()
            .get(&self.keys[head])
            .map(|h| {
                let mut inbox = h.inbox().clone();
                inbox
                    .admit()
                    .iter()
                    .map(IngressEnvelope::ingress_id)
                    .collect()
            })
            .unwrap_or_default()
    }

    pub fn set_policy(&mut self, head: usize, policy: &PolicySpec) {
        self.runtime
            .verif_set_inbox_policy(self.keys[head], policy.to_policy())
            .expect("set policy on registered head");
        self.policies[head] = policy.clone();
    }

    /// Submit through the intent's own route (ticketed intents: `submit_intent` +
    /// `ingest_ticketed_invocation`; others: plain `ingest`).
    pub fn submit(&mut self, spec: &IntentSpec) -> SubmitObs {
        self.submit_routed(spec, false)
    }

    /// `plain_retry = true`: a RETRY of a ticketed intent that comes back through plain `ingest`
    /// (a client retry does not have to take the route of the original). Only used for repeats,
    /// so the copy that gets accepted first always entered through the intent's own route and the
    /// canonical and variant runs stay comparable.
    pub fn submit_routed(&mut self, spec: &IntentSpec, plain_retry: bool) -> SubmitObs {
        let ticketed_route = spec.is_ticketed() && !plain_retry;
        if spec.is_ticketed() && plain_retry {
            self.cross_route_retries += 1;
        }
        self.force_plain = plain_retry;
        let obs = self.submit_inner(spec);
        self.force_plain = false;
        if obs.class == SubmitClass::Accepted {
            self.accepted_route.insert(obs.ingress_id, ticketed_route);
        }
        obs
    }

    fn submit_inner(&mut self, spec: &IntentSpec) -> SubmitObs {
        let env = spec.envelope(&self.topo);
        let id = env.ingress_id();
        let nth = {
            let c = self.submit_counts.entry(id).or_insert(0);
            *c += 1;
            *c
        };
        let _ = nth;
        if !spec.is_ticketed() || self.force_plain {
            return match self.runtime.ingest(env) {
                Ok(IngressDisposition::Accepted {
                    ingress_id,
                    head_key,
                    submission_id,
                    submission_generation,
                }) => SubmitObs {
                    class: SubmitClass::Accepted,
                    ingress_id,
                    head: self.head_index(&head_key),
                    submission_id: Some(submission_id),
                    generation: submission_generation.as_u64(),
                    detail: String::new(),
                },
                Ok(IngressDisposition::Duplicate {
                    ingress_id,
                    head_key,
                    submission_id,
                    submission_generation,
                }) => SubmitObs {
                    class: SubmitClass::Duplicate,
                    ingress_id,
                    head: self.head_index(&head_key),
                    submission_id: Some(submission_id),
                    generation: submission_generation.as_u64(),
                    detail: String::new(),
                },
                Err(e) => SubmitObs {
                    class: SubmitClass::Error,
                    ingress_id: id,
                    head: None,
                    submission_id: None,
                    generation: 0,
                    detail: err_class(&e),
                },
            };
        }
        // Ticketed path: witnessed submission first, then staging.
        let sub = match self.runtime.submit_intent(env.clone()) {
            Ok(
                IntentSubmissionDisposition::Accepted {
                    head_key,
                    submission_id,
                    submission_generation,
                    ..
                }
                | IntentSubmissionDisposition::Duplicate {
                    head_key,
                    submission_id,
                    submission_generation,
                    ..
                },
            ) => (head_key, submission_id, submission_generation.as_u64()),
            Err(e) => {
                return SubmitObs {
                    class: SubmitClass::Error,
                    ingress_id: id,
                    head: None,
                    submission_id: None,
                    generation: 0,
                    detail: format!("submit:{}", err_class(&e)),
                }
            }
        };
        let ticket = spec.ticket(&self.topo);
        let auth = TicketedRuntimeIngressAuthority::assume_runtime_owner();
        match self
            .runtime
            .ingest_ticketed_invocation(&auth, sub.1, &ticket, env)
        {
            Ok(TicketedRuntimeIngressDisposition::Staged { ingress, .. }) => SubmitObs {
                class: if matches!(ingress, IngressDisposition::Accepted { .. }) {
                    SubmitClass::Accepted
                } else {
                    SubmitClass::Duplicate
                },
                ingress_id: id,
                head: self.head_index(&sub.0),
                submission_id: Some(sub.1),
                generation: sub.2,
                detail: "staged".to_owned(),
            },
            Ok(TicketedRuntimeIngressDisposition::Duplicate { .. }) => SubmitObs {
                class: SubmitClass::Duplicate,
                ingress_id: id,
                head: self.head_index(&sub.0),
                submission_id: Some(sub.1),
                generation: sub.2,
                detail: "ticket-duplicate".to_owned(),
            },
            Err(RuntimeError::TicketedIngressDuplicateRuntimeIngress { .. }) => SubmitObs {
                // Already pending or committed through the runtime: an
                // idempotent refusal, nothing was staged.
                class: SubmitClass::Duplicate,
                ingress_id: id,
                head: self.head_index(&sub.0),
                submission_id: Some(sub.1),
                generation: sub.2,
                detail: "ticket-refused-duplicate-runtime-ingress".to_owned(),
            },
            Err(e) => SubmitObs {
                class: SubmitClass::Error,
                ingress_id: id,
                head: None,
                submission_id: None,
                generation: 0,
                detail: format!("stage:{}", err_class(&e)),
            },
        }
    }

    /// One scheduler pass, panics caught.
    pub fn pass(&mut self) -> PassResult {
        let r = catch_unwind(AssertUnwindSafe(|| {
            SchedulerCoordinator::super_tick(
                &mut self.runtime,
                &mut self.provenance,
                &mut self.engine,
            )
        }));
        match r {
            Ok(Ok(records)) => PassResult::Ok(records),
            Ok(Err(e)) => PassResult::Err(err_class(&e), format!("{e}")),
            Err(p) => PassResult::Panic(panic_text(p.as_ref())),
        }
    }

    /// Resolve every active fault through the trusted recovery boundary.
    pub fn resolve_all(&mut self) -> usize {
        let auth = SchedulerFaultRecoveryAuthority::assume_runtime_owner();
        let active: Vec<_> = self
            .runtime
            .scheduler_faults()
            .filter(|f| matches!(f.status, SchedulerFaultStatus::Active))
            .map(|f| f.fault_id)
            .collect();
        let n = active.len();
        for (i, id) in active.into_iter().enumerate() {
            let mut rid = [0xEE_u8; 32];
            rid[0] = i as u8;
            self.runtime
                .resolve_scheduler_fault(&auth, id, rid)
                .expect("resolve active fault");
        }
        n
    }

    /// Simulated restart: provenance is the durable part; the runtime is
    /// rebuilt from registration + persisted submissions + causal history.
    pub fn restart(&mut self) -> Result<(), String> {
        let snapshot = self
            .runtime
            .witnessed_submission_persistence_snapshot()
            .map_err(|e| format!("snapshot: {e}"))?;
        let correlations: Vec<ReceiptCorrelationPersistenceRecord> = self
            .runtime
            .receipt_correlations()
            .map(ReceiptCorrelationPersistenceRecord::from)
            .collect();
        let mut entries: Vec<ProvenanceEntry> = Vec::new();
        for w in 0..self.topo.n_worldlines {
            let n = self.provenance.len(wl_id(w)).map_err(|e| format!("{e}"))?;
            for t in 0..n {
                entries.push(
                    self.provenance
                        .entry(wl_id(w), WorldlineTick::from_raw(t))
                        .map_err(|e| format!("{e}"))?,
                );
            }
        }
        let mut fresh = WorldlineRuntime::new();
        for w in 0..self.topo.n_worldlines {
            fresh
                .register_worldline(wl_id(w), WorldlineState::empty())
                .map_err(|e| format!("{e}"))?;
        }
        // Heads are registered permissive, history restored, then the current
        // policies re-applied (a submission accepted under an older policy is
        // still history).
        let permissive = vec![PolicySpec::AcceptAll; self.topo.heads.len()];
        register_heads(&mut fresh, &self.topo, &permissive);
        fresh
            .restore_witnessed_submission_persistence(snapshot)
            .map_err(|e| format!("restore submissions: {e}"))?;
        fresh
            .restore_causal_runtime_history(&self.provenance, &entries, &correlations)
            .map_err(|e| format!("restore causal history: {e}"))?;
        // Recovery must be idempotent: a host may replay the same retained history twice
        // (repeat enable after a restart), or over a runtime that already holds it.
        let shape = self.restarts % 3;
        self.restarts += 1;
        if shape == 1 {
            fresh
                .restore_causal_runtime_history(&self.provenance, &entries, &correlations)
                .map_err(|e| format!("second restore of the same causal history: {e}"))?;
        } else if shape == 2 {
            let mut warm = self.runtime.clone();
            if warm.restore_causal_runtime_history(&self.provenance, &entries, &correlations).is_ok() {
                for (i, p) in self.policies.clone().iter().enumerate() {
                    warm.verif_set_inbox_policy(self.keys[i], p.to_policy()).map_err(|e| format!("{e}"))?;
                }
                self.runtime = warm;
                self.engine = build_engine(self.topo.workers);
                return Ok(());
            }
            // a runtime that refuses to be restored over falls back to the fresh one
        }
        for (i, p) in self.policies.clone().iter().enumerate() {
            fresh
                .verif_set_inbox_policy(self.keys[i], p.to_policy())
                .map_err(|e| format!("{e}"))?;
        }
        self.runtime = fresh;
        self.engine = build_engine(self.topo.workers);
        Ok(())
    }

    /// Every `(head, ingress id)` committed by every tick of every worldline,
    /// read from provenance (the authoritative log) — `(head, id) -> ticks`.
    pub fn commit_log(&self) -> BTreeMap<(WriterHeadKey, Hash), Vec<(u8, u64)>> {
        let mut log: BTreeMap<(WriterHeadKey, Hash), Vec<(u8, u64)>> = BTreeMap::new();
        for w in 0..self.topo.n_worldlines {
            let Ok(n) = self.provenance.len(wl_id(w)) else {
                continue;
            };
            for t in 0..n {
                let Ok(e) = self.provenance.entry(wl_id(w), WorldlineTick::from_raw(t)) else {
                    continue;
                };
                let (Some(head), Some(receipt)) = (e.head_key, e.tick_receipt.as_ref()) else {
                    continue;
                };
                for entry in receipt.entries() {
                    log.entry((head, entry.scope.local_id.0))
                        .or_default()
                        .push((w, t));
                }
            }
        }
        log
    }
}

#[derive(Debug, Clone, Copy, PartialEq, Eq, PartialOrd, Ord)]
pub enum SubmitClass {
    Accepted,
    Duplicate,
    Error,
}

#[derive(Debug, Clone, PartialEq, Eq)]
pub struct SubmitObs {
    pub class: SubmitClass,
    pub ingress_id: Hash,
    pub head: Option<usize>,
    pub submission_id: Option<Hash>,
    /// Arrival counter — recorded, never compared.
    pub generation: u64,
    pub detail: String,
}

#[derive(Debug, Clone, PartialEq, Eq)]
pub enum PassResult {
    Ok(Vec<StepRecord>),
    Err(String, String),
    Panic(String),
}

impl PassResult {
    pub fn is_ok(&self) -> bool {
        matches!(self, Self::Ok(_))
    }
    pub fn class(&self) -> String {
        match self {
            Self::Ok(r) => format!("ok({})", r.len()),
            Self::Err(c, _) => format!("err:{c}"),
            Self::Panic(p) => format!("panic:{}", p.split(':').next().unwrap_or("")),
        }
    }
}

/// Variant name (and one level of nesting) of a runtime error.
pub fn err_class(e: &RuntimeError) -> String {
    let d = format!("{e:?}");
    let head: String = d
        .chars()
        .take_while(|c| c.is_ascii_alphanumeric() || *c == '_')
        .collect();
    match e {
        RuntimeError::Engine(inner) => {
            let i = format!("{inner:?}");
            let ih: String = i
                .chars()
                .take_while(|c| c.is_ascii_alphanumeric() || *c == '_')
                .collect();
            format!("Engine::{ih}")
        }
        RuntimeError::Provenance(inner) => {
            let i = format!("{inner:?}");
            let ih: String = i
                .chars()
                .take_while(|c| c.is_ascii_alphanumeric() || *c == '_')
                .collect();
            format!("Provenance::{ih}")
        }
        _ => head,
    }
}

pub fn fault_scope_str(s: &SchedulerFaultScope) -> String {
    match s {
        SchedulerFaultScope::Head(_) => "head".to_owned(),
        SchedulerFaultScope::Runtime => "runtime".to_owned(),
    }
}

/// Arm / clear the thread-local failpoints for one pass.
pub fn arm_failpoint(name: &str, skip: u64, panic: bool) {
    failpoint::arm(
        name,
        skip,
        if panic {
            failpoint::Action::Panic
        } else {
            failpoint::Action::Error
        },
    );
}

pub const FAILPOINTS: &[&str] = &[
    "coord.before_engine_commit",
    "coord.after_engine_commit",
    "coord.after_provenance_append",
    "coord.after_frontier_advance",
    "coord.after_correlation_record",
];
