//! verif-coord: runtime monitors for
//!   C08 — ingress is content-addressed, idempotent and order-free
//!   C09 — a scheduler pass is all-or-nothing and strictly ordered
//!
//! Both drive the real `WorldlineRuntime` / `SchedulerCoordinator` /
//! `ProvenanceService` / `Engine` from /repo through their public API (plus the
//! `echo_verif` doors H6/H8/H10/H11) and judge recorded histories with oracles
//! written from the property statements.

mod c08;
mod c09;
mod fp;
mod rt;

use verif_core::Args;

fn main() {
    let args = Args::parse();
    // Expected panics (executor panics, failpoint panics, footprint violations)
    // are part of the workload; keep stderr readable.
    rt::install_quiet_panic_hook();
    let code = match args.prop.as_str() {
        "C08" => c08::run(&args),
        "C09" => c09::run(&args),
        other => {
            println!("HARNESS-ERROR unknown property {other}");
            2
        }
    };
    std::process::exit(code);
}
