//! C08 — ingress is content-addressed, idempotent and order-free.
//!
//! Phases
//!   0  identity: ingress id is a function of (kind, bytes, parent *set*) only;
//!      no collision among generated inputs; retained-bytes round trip;
//!      `commit_with_state` dedupes a batch by ingress id.
//!   1  exhaustive sets of 1..=6 intents: every permutation × every retry
//!      pattern (1..=3 each) of one submission segment, per configuration.
//!   2  every interleaving of submissions with passes for ≤4 intents, ≤3 passes.
//!   3  sampled scenarios with 7..=40 intents: random topology, policies,
//!      routing, policy changes, failed passes + recovery, restart.
//!
//! Oracle: the *canonical* run — per maximal run of submissions the same intent
//! set, each once, in ingress-id order, all other events at the same positions.
//! Compared: dispositions (minus the arrival counter), pending sets, admitted
//! batch order, StepRecords, receipts, state roots, commit hashes, frontier /
//! global ticks, provenance and a generation-masked digest of the whole
//! runtime. Plus the exactly-once checker over the provenance log.

use std::collections::{BTreeMap, BTreeSet, HashMap};

use verif_core::{hex4, json, Args, Budget, Report, Rng, Value};
use warp_core::verif::failpoint;
use warp_core::{
    Hash, IngressEnvelope, ProvenanceStore, TickReceiptDisposition, WorldlineState, WorldlineTick,
};

use crate::fp;
use crate::rt::{
    arm_failpoint, arm_token, build_engine, disarm_token, intent_bytes, wl_id,
    Ev, HeadSpec, IntentSpec, PassResult, PolicySpec, Scenario, SubmitClass, SubmitObs,
    TargetSpec, Topology, World, FAILPOINTS, N_KINDS,
};

// ---------------------------------------------------------------------------
// Trace
// ---------------------------------------------------------------------------

#[derive(Debug, Clone, PartialEq, Eq)]
pub struct WlSnap {
    frontier: u64,
    state_root: Hash,
    history_len: usize,
    last_commit: Option<Hash>,
    prov_len: u64,
    prov_tip: Option<Hash>,
}

#[derive(Debug, Clone, PartialEq, Eq)]
pub struct Snap {
    pending: Vec<Vec<Hash>>,
    preview: Vec<Vec<Hash>>,
    global: u64,
    wl: Vec<WlSnap>,
    faults: (usize, usize),
    /// Generation-masked digest of runtime + provenance (0 when not taken).
    digest: u64,
}

#[derive(Debug, Clone, PartialEq, Eq)]
pub struct ReceiptObs {
    head: Option<usize>,
    wl: u8,
    tick: u64,
    digest: Hash,
    entries: Vec<(Hash, Hash, bool)>,
}

#[derive(Debug, Clone, PartialEq, Eq)]
pub struct Mark {
    ev: String,
    pre: Option<Snap>,
    pass: Option<PassResult>,
    receipts: Vec<ReceiptObs>,
    post: Snap,
}

#[derive(Debug, Clone)]
pub struct Trace {
    /// `(script index, intent, is_extra_retry, observation)`
    submits: Vec<(usize, usize, bool, SubmitObs)>,
    marks: Vec<Mark>,
    /// `(head, id)` committed so far / pending, as known at the start of each
    /// submission segment (index = number of marks seen so far).
    known_at_segment: Vec<BTreeSet<(usize, Hash)>>,
    /// Plain-ingest commits that happened before the latest restart.
    commit_log_dups: Vec<String>,
    harness_error: Option<String>,
}

#[derive(Clone, Copy, PartialEq, Eq)]
pub enum Level {
    Light,
    Full,
}

fn snap(w: &World, level: Level) -> Snap {
    let n = w.keys.len();
    let pending: Vec<Vec<Hash>> = (0..n).map(|h| w.pending_ids(h)).collect();
    let preview: Vec<Vec<Hash>> = (0..n).map(|h| w.admit_preview(h)).collect();
    let wl = (0..w.topo.n_worldlines)
        .map(|i| {
            let f = w.runtime.worldlines().get(&wl_id(i));
            let tip = w.provenance.tip_ref(wl_id(i)).ok().flatten();
            WlSnap {
                frontier: f.map_or(0, |f| f.frontier_tick().as_u64()),
                state_root: f.map_or([0; 32], |f| f.state().state_root()),
                history_len: f.map_or(0, |f| f.state().tick_history().len()),
                last_commit: f.and_then(|f| f.state().last_snapshot().map(|s| s.hash)),
                prov_len: w.provenance.len(wl_id(i)).unwrap_or(0),
                prov_tip: tip.map(|t| t.commit_hash),
            }
        })
        .collect();
    let active = w
        .runtime
        .scheduler_faults()
        .filter(|f| matches!(f.status, warp_core::SchedulerFaultStatus::Active))
        .count();
    // The whole-runtime digest is a catch-all that also covers witness bookkeeping which
    // legitimately depends on the ingress ROUTE a retry took; once a ticketed intent has been
    // retried through plain `ingest`, only the projected fields (what the statement names) are compared.
    let digest = if level == Level::Full && w.cross_route_retries == 0 {
        let mut h = blake3::Hasher::new();
        for (k, v) in fp::runtime_parts(&w.runtime) {
            h.update(k.as_bytes());
            h.update(fp::mask_generations(&v).as_bytes());
        }
        for (k, v) in fp::provenance_parts(&w.provenance) {
            h.update(k.as_bytes());
            h.update(v.as_bytes());
        }
        u64::from_le_bytes(h.finalize().as_bytes()[..8].try_into().unwrap_or([0; 8]))
    } else {
        0
    };
    Snap {
        pending,
        preview,
        global: w.runtime.global_tick().as_u64(),
        wl,
        faults: (w.runtime.scheduler_fault_count(), active),
        digest,
    }
}

/// Independent statement of what a head may admit: ascending ingress-id order,
/// everything pending, or the first `budget` of them.
fn preview_lawful(pending: &[Hash], preview: &[Hash], policy: &PolicySpec) -> bool {
    let mut sorted = pending.to_vec();
    sorted.sort_unstable();
    sorted.dedup();
    let want: Vec<Hash> = match policy {
        PolicySpec::Budgeted(b) => sorted.into_iter().take(*b as usize).collect(),
        _ => sorted,
    };
    preview == want.as_slice()
}

pub fn run_script(scn: &Scenario, extra: &[bool], level: Level) -> Trace {
    failpoint::reset();
    let mut w = World::build(&scn.topo);
    let mut t = Trace {
        submits: Vec::new(),
        marks: Vec::new(),
        known_at_segment: Vec::new(),
        commit_log_dups: Vec::new(),
        harness_error: None,
    };
    // (head, id) -> committed in lifetime `epoch`; ticketed?
    let mut committed: BTreeMap<(usize, Hash), (u32, bool)> = BTreeMap::new();
    let mut epoch = 0u32;
    let mut in_segment = false;
    let mut seen_in_segment: BTreeSet<usize> = BTreeSet::new();
    let ticketed_by_id: BTreeMap<Hash, bool> = scn
        .intents
        .iter()
        .map(|s| (s.envelope(&scn.topo).ingress_id(), s.is_ticketed()))
        .collect();
    let known = |w: &World, committed: &BTreeMap<(usize, Hash), (u32, bool)>, epoch: u32| {
        let mut k: BTreeSet<(usize, Hash)> = BTreeSet::new();
        for ((h, id), (e, ticketed)) in committed {
            // A plain-ingest commit from before a restart is the documented
            // weak spot; it is judged by the exactly-once checker, not by R2.
            if *e == epoch || *ticketed {
                k.insert((*h, *id));
            }
        }
        for h in 0..w.keys.len() {
            for id in w.pending_ids(h) {
                k.insert((h, id));
            }
        }
        k
    };
    for (ix, ev) in scn.script.iter().enumerate() {
        if ev.is_submit() && !in_segment {
            t.known_at_segment.push(known(&w, &committed, epoch));
            in_segment = true;
        }
        if !ev.is_submit() {
            if !in_segment {
                t.known_at_segment.push(known(&w, &committed, epoch));
            }
            in_segment = false;
            seen_in_segment.clear();
        }
        match ev {
            Ev::Submit(i) => {
                // a repeat inside one submission segment, or a retry the variant generator
                // sprinkled in, may come back through plain `ingest` (every other one does)
                let is_extra = extra.get(ix).copied().unwrap_or(false);
                let repeat = is_extra || !seen_in_segment.insert(*i);
                let obs = w.submit_routed(&scn.intents[*i], repeat && ix % 2 == 0);
                t.submits
                    .push((ix, *i, extra.get(ix).copied().unwrap_or(false), obs));
            }
            Ev::Policy { head, policy } => {
                w.set_policy(*head, policy);
                t.marks.push(Mark {
                    ev: format!("policy[{head}]={policy:?}"),
                    pre: None,
                    pass: None,
                    receipts: Vec::new(),
                    post: snap(&w, level),
                });
            }
            Ev::Arm(i) => {
                arm_token(scn.intents[*i].token());
                t.marks.push(Mark {
                    ev: format!("arm {i}"),
                    pre: None,
                    pass: None,
                    receipts: Vec::new(),
                    post: snap(&w, Level::Light),
                });
            }
            Ev::Disarm(i) => {
                disarm_token(scn.intents[*i].token());
                t.marks.push(Mark {
                    ev: format!("disarm {i}"),
                    pre: None,
                    pass: None,
                    receipts: Vec::new(),
                    post: snap(&w, Level::Light),
                });
            }
            Ev::Resolve => {
                let n = w.resolve_all();
                t.marks.push(Mark {
                    ev: format!("resolve({n})"),
                    pre: None,
                    pass: None,
                    receipts: Vec::new(),
                    post: snap(&w, level),
                });
            }
            Ev::Restart => {
                if let Err(e) = w.restart() {
                    t.harness_error = Some(format!("restart failed: {e}"));
                    break;
                }
                epoch += 1;
                t.marks.push(Mark {
                    ev: "restart".to_owned(),
                    pre: None,
                    pass: None,
                    receipts: Vec::new(),
                    post: snap(&w, level),
                });
            }
            Ev::Pass { fail } => {
                let pre = snap(&w, level);
                if let Some((name, skip, panic)) = fail {
                    arm_failpoint(name, *skip, *panic);
                }
                let pre_len: Vec<u64> = (0..w.topo.n_worldlines)
                    .map(|i| w.provenance.len(wl_id(i)).unwrap_or(0))
                    .collect();
                let result = w.pass();
                failpoint::reset();
                let mut receipts = Vec::new();
                if let PassResult::Ok(records) = &result {
                    for r in records {
                        if let Some(h) = w.head_index(&r.head_key) {
                            for id in &pre.preview[h] {
                                // route through which the copy committed NOW entered the inbox (a retry
                                // of a ticketed intent may have come through plain `ingest`); a re-commit is
                                // classified by the route of the EARLIER commit: only a ticketed commit leaves
                                // the receipt correlation from which a restart rebuilds the dedupe ledger
                                let ticketed = w.accepted_route.get(id).copied().unwrap_or_else(|| ticketed_by_id.get(id).copied().unwrap_or(false));
                                if let Some((e0, earlier_ticketed)) = committed.get(&(h, *id)) {
                                    t.commit_log_dups.push(format!(
                                        "{}:{}",
                                        if *e0 == epoch { "same-lifetime" } else { "after-restart" },
                                        if *earlier_ticketed { "ticketed" } else { "plain" }
                                    ));
                                }
                                committed.insert((h, *id), (epoch, ticketed));
                            }
                        }
                    }
                    for i in 0..w.topo.n_worldlines {
                        let now = w.provenance.len(wl_id(i)).unwrap_or(0);
                        for tick in pre_len[usize::from(i)]..now {
                            if let Ok(e) = w.provenance.entry(wl_id(i), WorldlineTick::from_raw(tick)) {
                                let rc = e.tick_receipt.as_ref();
                                receipts.push(ReceiptObs {
                                    head: e.head_key.and_then(|k| w.head_index(&k)),
                                    wl: i,
                                    tick,
                                    digest: rc.map_or([0; 32], warp_core::TickReceipt::digest),
                                    entries: rc.map_or_else(Vec::new, |rc| {
                                        rc.entries()
                                            .iter()
                                            .map(|x| {
                                                (
                                                    x.scope.local_id.0,
                                                    x.rule_id,
                                                    matches!(x.disposition, TickReceiptDisposition::Applied),
                                                )
                                            })
                                            .collect()
                                    }),
                                });
                            }
                        }
                    }
                }
                t.marks.push(Mark {
                    ev: format!("pass{}", fail.as_ref().map_or(String::new(), |f| format!("!{}", f.0))),
                    pre: Some(pre),
                    pass: Some(result),
                    receipts,
                    post: snap(&w, level),
                });
            }
        }
    }
    // Exactly-once over the authoritative log (provenance receipts).
    for ((head, id), ticks) in w.commit_log() {
        if ticks.len() > 1 {
            let h = w.head_index(&head);
            t.commit_log_dups
                .push(format!("log:(head {h:?}, {}) in ticks {ticks:?}", hex4(&id)));
        }
    }
    for s in &scn.intents {
        disarm_token(s.token());
    }
    t
}

// ---------------------------------------------------------------------------
// Comparison
// ---------------------------------------------------------------------------

fn first_snap_diff(a: &Snap, b: &Snap) -> Option<(&'static str, String)> {
    if a.pending != b.pending {
        return Some(("pending-set", format!("pending sets per head differ: canonical {:?} vs {:?}", short2(&a.pending), short2(&b.pending))));
    }
    if a.preview != b.preview {
        return Some(("admitted-batch-order", format!("admissible batch differs: canonical {:?} vs {:?}", short2(&a.preview), short2(&b.preview))));
    }
    if a.global != b.global {
        return Some(("global-tick", format!("global tick {} vs {}", a.global, b.global)));
    }
    if a.wl != b.wl {
        return Some(("worldline-state", format!("worldline snapshots differ: canonical {:?} vs {:?}", a.wl, b.wl)));
    }
    if a.faults != b.faults {
        return Some(("fault-evidence", format!("fault counts {:?} vs {:?}", a.faults, b.faults)));
    }
    if a.digest != 0 && b.digest != 0 && a.digest != b.digest {
        return Some(("runtime-digest", "generation-masked digest of runtime+provenance differs although every projected field agrees".to_owned()));
    }
    None
}

fn short2(v: &[Vec<Hash>]) -> Vec<Vec<String>> {
    v.iter()
        .map(|x| x.iter().map(|h| hex4(h)).collect())
        .collect()
}

fn same_identity(a: &SubmitObs, b: &SubmitObs) -> bool {
    a.ingress_id == b.ingress_id && a.head == b.head && a.submission_id == b.submission_id
}

/// `None` = relation holds.
pub fn compare(scn_c: &Scenario, canon: &Trace, scn_v: &Scenario, var: &Trace) -> Option<(String, String)> {
    if canon.marks.len() != var.marks.len() {
        return Some(("shape".to_owned(), format!("mark count {} vs {}", canon.marks.len(), var.marks.len())));
    }
    // --- dispositions, segment by segment
    let seg_of = |scn: &Scenario, ix: usize| scn.script[..ix].iter().filter(|e| !e.is_submit()).count();
    let mut c_first: BTreeMap<(usize, usize), &SubmitObs> = BTreeMap::new();
    for (ix, i, _, o) in &canon.submits {
        c_first.entry((seg_of(scn_c, *ix), *i)).or_insert(o);
    }
    let mut seen: BTreeSet<(usize, usize)> = BTreeSet::new();
    for (ix, i, is_extra, o) in &var.submits {
        let seg = seg_of(scn_v, *ix);
        if *is_extra {
            // idempotent retry of something pending/committed: must be a no-op
            if o.class != SubmitClass::Duplicate {
                return Some((
                    "retry-disposition".to_owned(),
                    format!("retry of intent #{i} (pending or already committed on its head) in segment {seg} returned {:?} {} instead of Duplicate", o.class, o.detail),
                ));
            }
            continue;
        }
        let Some(c) = c_first.get(&(seg, *i)) else {
            return Some(("shape".to_owned(), format!("variant submits intent #{i} in segment {seg}, canonical does not")));
        };
        if seen.insert((seg, *i)) {
            if c.class != o.class || !same_identity(c, o) || (c.class == SubmitClass::Error && route_free(&c.detail) != route_free(&o.detail)) {
                return Some((
                    "first-disposition".to_owned(),
                    format!("first arrival of intent #{i} in segment {seg}: canonical {:?}/{}/head {:?} vs {:?}/{}/head {:?}", c.class, c.detail, c.head, o.class, o.detail, o.head),
                ));
            }
        } else {
            let ok = match c.class {
                SubmitClass::Accepted | SubmitClass::Duplicate => o.class == SubmitClass::Duplicate && same_identity(c, o),
                SubmitClass::Error => o.class == SubmitClass::Error && route_free(&o.detail) == route_free(&c.detail),
            };
            if !ok {
                return Some((
                    "retry-disposition".to_owned(),
                    format!("retry of intent #{i} within segment {seg} returned {:?}/{} (first arrival in canonical: {:?}/{})", o.class, o.detail, c.class, c.detail),
                ));
            }
        }
    }
    // --- marks
    for (k, (a, b)) in canon.marks.iter().zip(var.marks.iter()).enumerate() {
        if a.ev != b.ev {
            return Some(("shape".to_owned(), format!("mark {k}: {} vs {}", a.ev, b.ev)));
        }
        if let (Some(pa), Some(pb)) = (&a.pre, &b.pre) {
            if let Some((f, d)) = first_snap_diff(pa, pb) {
                return Some((format!("before-pass:{f}"), format!("mark {k} ({}), before the pass: {d}", a.ev)));
            }
        }
        if a.pass != b.pass {
            return Some((
                "step-records".to_owned(),
                format!("mark {k} ({}): pass result differs: canonical {:?} vs {:?}", a.ev, a.pass, b.pass),
            ));
        }
        if a.receipts != b.receipts {
            return Some(("receipts".to_owned(), format!("mark {k} ({}): tick receipts differ", a.ev)));
        }
        if let Some((f, d)) = first_snap_diff(&a.post, &b.post) {
            return Some((format!("after:{f}"), format!("mark {k} ({}), after: {d}", a.ev)));
        }
    }
    None
}

/// Checks that hold for any single run (canonical or variant).
fn exactly_once_check(t: &Trace) -> Option<(String, String)> {
    if t.commit_log_dups.is_empty() {
        return None;
    }
    // Classified by the interpreter's own bookkeeping; report the class that
    // is *not* the registered weak spot first if there is one.
    let classes: Vec<&String> = t
        .commit_log_dups
        .iter()
        .filter(|x| !x.starts_with("log:"))
        .collect();
    let sig = classes
        .iter()
        .find(|c| c.as_str() != "after-restart:plain")
        .or(classes.first())
        .map_or_else(|| "unclassified".to_owned(), |c| (*c).clone());
    Some((
        format!("exactly-once:recommit:{sig}"),
        format!("some (head, ingress id) was committed in more than one tick: {:?}", t.commit_log_dups),
    ))
}

fn single_run_checks(scn: &Scenario, t: &Trace) -> Option<(String, String)> {
    exactly_once_check(t).or_else(|| admit_order_check(scn, t))
}

fn admit_order_check(scn: &Scenario, t: &Trace) -> Option<(String, String)> {
    // admitted batch = sorted pending (prefix under a budget)
    let mut policies: Vec<PolicySpec> = scn.topo.heads.iter().map(|h| h.policy.clone()).collect();
    let mut mi = 0usize;
    for ev in &scn.script {
        if ev.is_submit() {
            continue;
        }
        if let Ev::Policy { head, policy } = ev {
            policies[*head] = policy.clone();
        }
        if let (Ev::Pass { .. }, Some(m)) = (ev, t.marks.get(mi)) {
            if let Some(pre) = &m.pre {
                for h in 0..policies.len() {
                    if !preview_lawful(&pre.pending[h], &pre.preview[h], &policies[h]) {
                        return Some((
                            "admit-order:not-sorted-prefix".to_owned(),
                            format!("head {h} under {:?}: admissible batch {:?} is not the ingress-id-sorted pending set {:?} (prefix under a budget)", policies[h], short2(&[pre.preview[h].clone()]), short2(&[pre.pending[h].clone()])),
                        ));
                    }
                }
            }
        }
        mi += 1;
    }
    None
}

// ---------------------------------------------------------------------------
// Phase 0: identity
// ---------------------------------------------------------------------------

fn phase0(args: &Args, rep: &mut Report) {
    let mut rng = Rng::for_case(args.seed, "C08-id", 0);
    let topo = base_topology(&[PolicySpec::AcceptAll, PolicySpec::AcceptAll]);
    // canonical content -> id, id -> canonical content
    let mut by_content: HashMap<(u8, Vec<u8>, Vec<u8>), Hash> = HashMap::new();
    let mut by_id: HashMap<Hash, (u8, Vec<u8>, Vec<u8>)> = HashMap::new();
    let n = args.by_tier(20_000u64, 400_000);
    let mut pool: Vec<Vec<u8>> = Vec::new();
    for case in 0..n {
        rep.eval();
        // small alphabets so that equal contents are generated again and again
        let bytes = if !pool.is_empty() && rng.chance(1, 3) {
            pool[rng.below_usize(pool.len())].clone()
        } else {
            let len = rng.range_usize(0, 5);
            let mut b = rng.bytes(len);
            for x in &mut b {
                *x %= 3;
            }
            // adversarial: bytes that look like a parent encoding / domain tags
            if rng.chance(1, 10) {
                b = b"tick-receipt\0".to_vec();
            }
            if rng.chance(1, 10) {
                b.extend_from_slice(&(1u64).to_le_bytes());
            }
            pool.push(b.clone());
            b
        };
        let k = rng.below(u64::from(N_KINDS)) as u8;
        let np = rng.below_usize(4);
        let parents: Vec<u8> = (0..np)
            .map(|_| rng.below(4) as u8 | if rng.chance(1, 4) { 0x80 } else { 0 })
            .collect();
        let mut canon_parents = parents.clone();
        canon_parents.sort_unstable();
        canon_parents.dedup();
        let spec_a = IntentSpec {
            kind: k,
            bytes: bytes.clone(),
            target: TargetSpec::Default(0),
            parents: parents.clone(),
            ticketed: false,
        };
        // same content, different target, permuted + duplicated parents
        let mut p2 = parents.clone();
        rng.shuffle(&mut p2);
        if let Some(first) = p2.first().copied() {
            p2.push(first);
        }
        let spec_b = IntentSpec {
            target: if rng.chance(1, 2) { TargetSpec::Exact(1) } else { TargetSpec::Named(0, "side".to_owned()) },
            parents: p2,
            ..spec_a.clone()
        };
        let ea = spec_a.envelope(&topo);
        let eb = spec_b.envelope(&topo);
        let content = (k, bytes.clone(), canon_parents.clone());
        if case == 0 {
            rep.sample(json!({
                "phase": 0, "a": spec_a.to_json(), "b": spec_b.to_json(),
                "ingress_id_a": verif_core::hex(&ea.ingress_id()), "ingress_id_b": verif_core::hex(&eb.ingress_id()),
            }));
        }
        if ea.ingress_id() != eb.ingress_id() {
            rep.violation(
                "C08:identity:depends-on-more-than-kind-bytes-parents",
                &format!("equal (kind, bytes, parent set) but ingress ids differ between targets/parent orders: {:?}", content),
                json!({"phase": 0, "case": case, "a": spec_a.to_json(), "b": spec_b.to_json()}),
            );
            return;
        }
        if let Some(prev) = by_content.insert(content.clone(), ea.ingress_id()) {
            if prev != ea.ingress_id() {
                rep.violation(
                    "C08:identity:not-a-function",
                    "the same (kind, bytes, parents) produced two different ingress ids",
                    json!({"phase": 0, "case": case, "a": spec_a.to_json()}),
                );
                return;
            }
            rep.count("identity_repeats_checked", 1);
        }
        if let Some(prev) = by_id.insert(ea.ingress_id(), content.clone()) {
            if prev != content {
                rep.violation(
                    "C08:identity:collision-among-generated",
                    &format!("different (kind, bytes, parents) share one ingress id: {prev:?} vs {content:?}"),
                    json!({"phase": 0, "case": case, "a": spec_a.to_json()}),
                );
                return;
            }
        }
        // retained bytes round trip keeps identity (restart path material)
        match IngressEnvelope::from_retained_bytes(&ea.to_retained_bytes_v2()) {
            Ok(back) if back == ea && back.ingress_id() == ea.ingress_id() => {}
            other => {
                rep.violation(
                    "C08:identity:retained-roundtrip",
                    &format!("retained-bytes round trip changed the envelope: {other:?}"),
                    json!({"phase": 0, "case": case, "a": spec_a.to_json()}),
                );
                return;
            }
        }
        // kind / bytes / parent-set sensitivity
        // the typed role of a cited parent is part of the identity
        if let Some(first) = spec_a.parents.first().copied() {
            let mut flipped = spec_a.parents.clone();
            flipped[0] = first ^ 0x80;
            let mut canon_flipped = flipped.clone();
            canon_flipped.sort_unstable();
            canon_flipped.dedup();
            let spec_r = IntentSpec {
                parents: flipped,
                ..spec_a.clone()
            };
            if canon_flipped != canon_parents && spec_r.envelope(&topo).ingress_id() == ea.ingress_id() {
                rep.violation(
                    "C08:identity:parent-role-ignored",
                    "changing only the typed role of a cited causal parent kept the ingress id",
                    json!({"phase": 0, "case": case, "a": spec_a.to_json(), "b": spec_r.to_json()}),
                );
                return;
            }
        }
        let spec_c = IntentSpec {
            kind: (k + 1) % N_KINDS,
            ..spec_a.clone()
        };
        if spec_c.envelope(&topo).ingress_id() == ea.ingress_id() {
            rep.violation(
                "C08:identity:kind-ignored",
                "changing only the intent kind kept the ingress id",
                json!({"phase": 0, "case": case, "a": spec_a.to_json()}),
            );
            return;
        }
    }
    rep.count("identity_distinct_contents", by_content.len() as u64);
    rep.nontrivial_enumerated(by_content.len() as u64);

    // commit_with_state dedupes the admitted batch by ingress id
    let mut checked = 0u64;
    for case in 0..args.by_tier(60u64, 600) {
        let mut rng = Rng::for_case(args.seed, "C08-dedupe", case);
        let n = rng.range_usize(1, 5);
        let specs: Vec<IntentSpec> = (0..n)
            .map(|i| IntentSpec {
                kind: (i % 4) as u8,
                bytes: intent_bytes(*rng.pick(&[b'W', b'S', b'A', b'N']), case * 100 + i as u64, &[i as u8]),
                target: TargetSpec::Default(0),
                parents: Vec::new(),
                ticketed: false,
            })
            .collect();
        let mut envs: Vec<IngressEnvelope> = specs.iter().map(|s| s.envelope(&topo)).collect();
        envs.sort_by_key(IngressEnvelope::ingress_id);
        let mut dup = envs.clone();
        for _ in 0..rng.range_usize(1, 3) {
            let e = envs[rng.below_usize(envs.len())].clone();
            let at = rng.below_usize(dup.len() + 1);
            dup.insert(at, e);
        }
        let mut e1 = build_engine(1);
        let mut e2 = build_engine(1);
        let mut s1 = WorldlineState::empty();
        let mut s2 = WorldlineState::empty();
        let a = e1.commit_with_state(&mut s1, &envs);
        let b = e2.commit_with_state(&mut s2, &dup);
        rep.eval();
        match (a, b) {
            (Ok(a), Ok(b)) => {
                checked += 1;
                if a.snapshot.hash != b.snapshot.hash
                    || a.receipt.digest() != b.receipt.digest()
                    || a.receipt.entries().len() != b.receipt.entries().len()
                    || s1.state_root() != s2.state_root()
                {
                    rep.violation(
                        "C08:commit-batch:duplicates-change-commit",
                        &format!("commit_with_state of a batch with duplicated envelopes differs from the deduplicated batch: {} vs {} receipt entries", a.receipt.entries().len(), b.receipt.entries().len()),
                        json!({"phase": "0b", "case": case, "intents": specs.iter().map(IntentSpec::to_json).collect::<Vec<_>>()}),
                    );
                    return;
                }
            }
            (a, b) => rep.inconclusive(&format!("commit_with_state failed in dedupe probe: {:?} / {:?}", a.err(), b.err())),
        }
    }
    rep.count("commit_batch_dedupe_checked", checked);
}

// ---------------------------------------------------------------------------
// Configurations for the exhaustive phases
// ---------------------------------------------------------------------------

fn base_topology(p: &[PolicySpec]) -> Topology {
    // head 0: default writer of worldline 0; head 1: named inbox "side" on
    // worldline 0; head 2 (optional): default writer of worldline 1.
    let mut heads = vec![HeadSpec {
        wl: 0,
        label: "main".to_owned(),
        public_inbox: None,
        is_default: true,
        policy: p[0].clone(),
    }];
    if p.len() > 1 {
        heads.push(HeadSpec {
            wl: 0,
            label: "aux".to_owned(),
            public_inbox: Some("side".to_owned()),
            is_default: false,
            policy: p[1].clone(),
        });
    }
    if p.len() > 2 {
        heads.push(HeadSpec {
            wl: 1,
            label: "other".to_owned(),
            public_inbox: None,
            is_default: true,
            policy: p[2].clone(),
        });
    }
    Topology {
        n_worldlines: if p.len() > 2 { 2 } else { 1 },
        heads,
        workers: 1,
    }
}

struct Config {
    name: &'static str,
    topo: Topology,
    /// Events appended after the enumerated submission segment (phase 1).
    tail: Vec<Ev>,
    /// Event inserted after the first pass in phase 2 (policy change between passes).
    between: Option<Ev>,
}

fn configs() -> Vec<Config> {
    use PolicySpec::{AcceptAll, Budgeted, KindFilter};
    let pass = || Ev::Pass { fail: None };
    vec![
        Config {
            name: "accept-all",
            topo: base_topology(&[AcceptAll]),
            tail: vec![pass(), pass()],
            between: None,
        },
        Config {
            name: "budget-1",
            topo: base_topology(&[Budgeted(1)]),
            tail: vec![pass(), pass(), pass()],
            between: None,
        },
        Config {
            name: "budget-2",
            topo: base_topology(&[Budgeted(2)]),
            tail: vec![pass(), pass(), pass()],
            between: None,
        },
        Config {
            name: "budget-0-then-3",
            topo: base_topology(&[Budgeted(0)]),
            tail: vec![
                pass(),
                Ev::Policy {
                    head: 0,
                    policy: Budgeted(3),
                },
                pass(),
                pass(),
            ],
            between: Some(Ev::Policy {
                head: 0,
                policy: Budgeted(3),
            }),
        },
        Config {
            name: "kind-filter",
            topo: base_topology(&[KindFilter(vec![0, 2])]),
            tail: vec![pass(), pass()],
            between: None,
        },
        Config {
            name: "filter-then-accept-all",
            topo: base_topology(&[KindFilter(vec![1])]),
            tail: vec![
                pass(),
                Ev::Policy {
                    head: 0,
                    policy: AcceptAll,
                },
                pass(),
            ],
            between: Some(Ev::Policy {
                head: 0,
                policy: AcceptAll,
            }),
        },
        Config {
            name: "routing-3-heads",
            topo: base_topology(&[AcceptAll, Budgeted(1), KindFilter(vec![0, 1, 3])]),
            tail: vec![pass(), pass(), pass()],
            between: None,
        },
        Config {
            name: "accept-then-tighten",
            topo: base_topology(&[AcceptAll, AcceptAll]),
            tail: vec![
                Ev::Policy {
                    head: 0,
                    policy: KindFilter(vec![0, 3]),
                },
                pass(),
                pass(),
            ],
            between: Some(Ev::Policy {
                head: 1,
                policy: KindFilter(vec![0]),
            }),
        },
    ]
}

fn config_intents(seed: u64, cfg: &Config, ci: usize, n: usize) -> Vec<IntentSpec> {
    let behaviours = [b'W', b'S', b'A', b'S', b'N', b'A', b'W', b'U'];
    let n_heads = cfg.topo.heads.len();
    (0..n)
        .map(|i| {
            let head = if n_heads == 1 { 0 } else { (i * 2 + ci) % n_heads };
            let h = &cfg.topo.heads[head];
            let target = match (i + ci) % 3 {
                0 if h.is_default => TargetSpec::Default(h.wl),
                1 if h.public_inbox.is_some() => TargetSpec::Named(h.wl, h.public_inbox.clone().unwrap_or_default()),
                _ => TargetSpec::Exact(head),
            };
            let token = verif_core::h64(format!("{seed}|{ci}|{n}|{i}").as_bytes());
            IntentSpec {
                kind: (i % usize::from(N_KINDS)) as u8,
                bytes: intent_bytes(behaviours[(i + ci) % behaviours.len()], token, &[i as u8]),
                target,
                parents: if i % 4 == 3 { vec![(i % 3) as u8, 1] } else { Vec::new() },
                ticketed: i % 3 == 2,
            }
        })
        .collect()
}

fn sorted_by_id(topo: &Topology, intents: &[IntentSpec], ids: &[usize]) -> Vec<usize> {
    let mut v: Vec<usize> = ids.to_vec();
    v.sort_by_key(|i| intents[*i].envelope(topo).ingress_id());
    v.dedup();
    v
}

fn nth_permutation(n: usize, mut index: u64) -> Vec<usize> {
    let mut items: Vec<usize> = (0..n).collect();
    let mut out = Vec::with_capacity(n);
    let mut f: u64 = (1..=n as u64).product();
    for k in (1..=n as u64).rev() {
        f /= k;
        let q = (index / f) as usize;
        index %= f;
        out.push(items.remove(q));
    }
    out
}

fn factorial(n: usize) -> u64 {
    (1..=n as u64).product()
}

/// Arrival sequence for a permutation, a retry pattern and a placement mode.
fn arrival(perm: &[usize], mults: &[usize], mode: u64) -> Vec<usize> {
    match mode % 3 {
        0 => {
            // retries immediately after the first arrival
            perm.iter()
                .flat_map(|i| std::iter::repeat(*i).take(mults[*i]))
                .collect()
        }
        1 => {
            // all first arrivals, then the retries in reverse order
            let mut v: Vec<usize> = perm.to_vec();
            for round in 1..3 {
                for i in perm.iter().rev() {
                    if mults[*i] > round {
                        v.push(*i);
                    }
                }
            }
            v
        }
        _ => {
            // interleaved: retry of the previous intent after each first arrival
            let mut v = Vec::new();
            let mut left: Vec<usize> = mults.iter().map(|m| m - 1).collect();
            for (p, i) in perm.iter().enumerate() {
                v.push(*i);
                if p > 0 {
                    let prev = perm[p - 1];
                    if left[prev] > 0 {
                        v.push(prev);
                        left[prev] -= 1;
                    }
                }
            }
            for i in perm {
                for _ in 0..left[*i] {
                    v.push(*i);
                }
            }
            v
        }
    }
}

fn report_mismatch(
    rep: &mut Report,
    phase: &str,
    cfg: &str,
    scn_c: &Scenario,
    scn_v: &Scenario,
    extra: &[bool],
    sig: &str,
    what: &str,
) {
    rep.violation(
        &format!("C08:{sig}"),
        &format!("[phase {phase}, config {cfg}] {what}"),
        json!({
            "phase": phase, "config": cfg,
            "canonical": scn_c.to_json(),
            "variant": scn_v.to_json(),
            "variant_extra_retries": extra,
        }),
    );
}

// ---------------------------------------------------------------------------
// Phase 1: exhaustive permutations × retry patterns
// ---------------------------------------------------------------------------

fn phase1_shard(
    args: &Args,
    rep: &mut Report,
    ci: usize,
    n: usize,
    perm_lo: u64,
    perm_hi: u64,
    stride: u64,
    budget: &Budget,
) {
    let cfgs = configs();
    let cfg = &cfgs[ci];
    let intents = config_intents(args.seed, cfg, ci, n);
    let all: Vec<usize> = (0..n).collect();
    let canon_order = sorted_by_id(&cfg.topo, &intents, &all);
    let mk = |order: &[usize]| -> Scenario {
        let mut script: Vec<Ev> = order.iter().map(|i| Ev::Submit(*i)).collect();
        script.extend(cfg.tail.iter().cloned());
        Scenario {
            topo: cfg.topo.clone(),
            intents: intents.clone(),
            script,
        }
    };
    let scn_c = mk(&canon_order);
    let canon_full = run_script(&scn_c, &[], Level::Full);
    let canon_light = run_script(&scn_c, &[], Level::Light);
    if let Some((sig, what)) = single_run_checks(&scn_c, &canon_full) {
        report_mismatch(rep, "1", cfg.name, &scn_c, &scn_c, &[], &sig, &what);
        return;
    }
    let committed_any = canon_full.marks.iter().any(|m| matches!(&m.pass, Some(PassResult::Ok(r)) if !r.is_empty()));
    let n_patterns = 3u64.pow(n as u32);
    let mut done = 0u64;
    let mut nontrivial = 0u64;
    let mut complete = true;
    'outer: for p in perm_lo..perm_hi {
        let perm = nth_permutation(n, p);
        for pat in 0..n_patterns {
            let idx = p * n_patterns + pat;
            if stride > 1 && idx % stride != args.seed % stride {
                continue;
            }
            if n >= 4 && budget.expired() {
                complete = false;
                break 'outer;
            }
            let mut mults = Vec::with_capacity(n);
            let mut x = pat;
            for _ in 0..n {
                mults.push(1 + (x % 3) as usize);
                x /= 3;
            }
            let order = arrival(&perm, &mults, idx);
            let scn_v = mk(&order);
            let full = idx % 64 == 0;
            let tv = run_script(&scn_v, &[], if full { Level::Full } else { Level::Light });
            done += 1;
            let canon = if full { &canon_full } else { &canon_light };
            let bad = compare(&scn_c, canon, &scn_v, &tv).or_else(|| single_run_checks(&scn_v, &tv));
            if let Some((sig, what)) = bad {
                report_mismatch(rep, "1", cfg.name, &scn_c, &scn_v, &[], &sig, &what);
                break 'outer;
            }
            if order != canon_order && committed_any {
                nontrivial += 1;
            }
            if nontrivial == 1 && rep.wants_sample() && pat > 0 {
                rep.sample(json!({
                    "phase": 1, "config": cfg.name, "n": n,
                    "arrival": order, "canonical": canon_order,
                    "passes": canon_full.marks.iter().filter_map(|m| m.pass.as_ref().map(PassResult::class)).collect::<Vec<_>>(),
                }));
            }
        }
    }
    rep.evals(done);
    rep.nontrivial_enumerated(nontrivial);
    rep.count(&format!("phase1_runs_n{n}"), done);
    rep.observe("phase1_configs", cfg.name);
    if !complete || stride > 1 {
        rep.exhaustive(false);
    }
}

// ---------------------------------------------------------------------------
// Phase 2: every interleaving of submissions with passes
// ---------------------------------------------------------------------------

fn gen_sequences(counts: &mut Vec<usize>, cur: &mut Vec<usize>, out: &mut Vec<Vec<usize>>, total: usize) {
    if cur.len() == total {
        out.push(cur.clone());
        return;
    }
    for s in 0..counts.len() {
        if counts[s] > 0 {
            counts[s] -= 1;
            cur.push(s);
            gen_sequences(counts, cur, out, total);
            cur.pop();
            counts[s] += 1;
        }
    }
}

/// One shard = (config, n, p, multiplicity pattern, first symbol).
#[derive(Clone)]
struct P2Shard {
    ci: usize,
    n: usize,
    p: usize,
    mults: Vec<usize>,
    first: usize,
}

fn phase2_shards(max_mult_total: usize, n_max: usize) -> Vec<P2Shard> {
    let mut v = Vec::new();
    let cfg_ix = [0usize, 1, 2, 3, 5, 6];
    for ci in cfg_ix {
        for n in 1..=n_max {
            for p in 1..=3usize {
                let max_m = if n <= 2 { 3 } else { 2 };
                let combos = (max_m as u64).pow(n as u32);
                for c in 0..combos {
                    let mut mults = Vec::new();
                    let mut x = c;
                    for _ in 0..n {
                        mults.push(1 + (x % max_m as u64) as usize);
                        x /= max_m as u64;
                    }
                    if mults.iter().sum::<usize>() > max_mult_total {
                        continue;
                    }
                    for first in 0..=n {
                        v.push(P2Shard {
                            ci,
                            n,
                            p,
                            mults: mults.clone(),
                            first,
                        });
                    }
                }
            }
        }
    }
    v
}

fn phase2_shard(args: &Args, rep: &mut Report, sh: &P2Shard, budget: &Budget) {
    let cfgs = configs();
    let cfg = &cfgs[sh.ci];
    let intents = config_intents(args.seed, cfg, sh.ci, sh.n);
    // symbols 0..n = intents, symbol n = PASS
    let mut counts = sh.mults.clone();
    counts.push(sh.p);
    if counts[sh.first] == 0 {
        return;
    }
    counts[sh.first] -= 1;
    let total: usize = counts.iter().sum::<usize>() + 1;
    let mut seqs = Vec::new();
    gen_sequences(&mut counts, &mut vec![sh.first], &mut seqs, total);
    let pass_sym = sh.n;
    let to_script = |seq: &[usize]| -> Vec<Ev> {
        let mut script = Vec::new();
        let mut passes = 0;
        for s in seq {
            if *s == pass_sym {
                script.push(Ev::Pass { fail: None });
                passes += 1;
                if passes == 1 {
                    if let Some(b) = &cfg.between {
                        script.push(b.clone());
                    }
                }
            } else {
                script.push(Ev::Submit(*s));
            }
        }
        // drain so that every accepted intent is committed (or provably stuck)
        script.push(Ev::Pass { fail: None });
        script.push(Ev::Pass { fail: None });
        script
    };
    let has_barrier = cfg.between.is_some();
    let mut cache: HashMap<Vec<Vec<usize>>, (Scenario, Trace)> = HashMap::new();
    let mut done = 0u64;
    let mut nontrivial = 0u64;
    let mut complete = true;
    for seq in &seqs {
        // A small core is always completed, whatever the machine load.
        let core = sh.n == 1 || (sh.n == 2 && sh.mults.iter().sum::<usize>() <= 3);
        if !core && budget.expired() {
            complete = false;
            break;
        }
        // segments of first occurrences (dedupe scope: whole run, or since the
        // policy change when the configuration has one)
        let mut segs: Vec<Vec<usize>> = vec![Vec::new()];
        let mut seen: BTreeSet<usize> = BTreeSet::new();
        let mut passes = 0;
        let mut extra_flags: Vec<bool> = Vec::new();
        let script_v = to_script(seq);
        for s in seq {
            if *s == pass_sym {
                passes += 1;
                segs.push(Vec::new());
                extra_flags.push(false);
                if passes == 1 && has_barrier {
                    seen.clear();
                    extra_flags.push(false);
                }
            } else {
                let seg = segs.last_mut().expect("segment");
                if seen.contains(s) && !seg.contains(s) {
                    // cross-segment retry: only a no-op when still pending or
                    // committed; decided against the canonical trace below.
                    extra_flags.push(true);
                } else {
                    extra_flags.push(false);
                    if !seg.contains(s) {
                        seg.push(*s);
                    }
                }
                seen.insert(*s);
            }
        }
        extra_flags.push(false);
        extra_flags.push(false);
        let key: Vec<Vec<usize>> = segs.iter().map(|s| sorted_by_id(&cfg.topo, &intents, s)).collect();
        let (scn_c, tc) = cache.entry(key.clone()).or_insert_with(|| {
            let mut script = Vec::new();
            for (k, seg) in key.iter().enumerate() {
                for i in seg {
                    script.push(Ev::Submit(*i));
                }
                if k + 1 < key.len() {
                    script.push(Ev::Pass { fail: None });
                    if k == 0 {
                        if let Some(b) = &cfg.between {
                            script.push(b.clone());
                        }
                    }
                }
            }
            script.push(Ev::Pass { fail: None });
            script.push(Ev::Pass { fail: None });
            let scn = Scenario {
                topo: cfg.topo.clone(),
                intents: intents.clone(),
                script,
            };
            let t = run_script(&scn, &[], Level::Full);
            (scn, t)
        });
        // A cross-segment retry is an *extra* only if the canonical run knows
        // the intent as pending/committed on its head at that segment start.
        let mut flags = extra_flags.clone();
        let mut seg_ix = 0usize;
        let mut usable = true;
        for (ix, ev) in script_v.iter().enumerate() {
            match ev {
                Ev::Submit(i) if flags.get(ix).copied().unwrap_or(false) => {
                    let head = intents[*i].resolved_head(&cfg.topo);
                    let id = intents[*i].envelope(&cfg.topo).ingress_id();
                    let known = tc
                        .known_at_segment
                        .get(seg_ix)
                        .is_some_and(|k| head.is_some_and(|h| k.contains(&(h, id))));
                    if !known {
                        // e.g. rejected earlier, or evicted by a policy change:
                        // a later submission is a new arrival, not comparable.
                        usable = false;
                    }
                }
                Ev::Submit(_) => {}
                _ => seg_ix += 1,
            }
        }
        if !usable {
            rep.count("phase2_skipped_not_comparable", 1);
            continue;
        }
        flags.resize(script_v.len(), false);
        let scn_v = Scenario {
            topo: cfg.topo.clone(),
            intents: intents.clone(),
            script: script_v,
        };
        let tv = run_script(&scn_v, &flags, if done % 8 == 0 { Level::Full } else { Level::Light });
        done += 1;
        let bad = compare(scn_c, tc, &scn_v, &tv).or_else(|| single_run_checks(&scn_v, &tv));
        if let Some((sig, what)) = bad {
            let (scn_c, _) = cache.get(&key).expect("cached");
            report_mismatch(rep, "2", cfg.name, scn_c, &scn_v, &flags, &sig, &what);
            break;
        }
        if scn_v.script != scn_c.script {
            nontrivial += 1;
        }
    }
    rep.evals(done);
    rep.nontrivial_enumerated(nontrivial);
    rep.count("phase2_interleavings", done);
    rep.count("phase2_canonical_runs", cache.len() as u64);
    rep.observe("phase2_configs", cfg.name);
    rep.observe("phase2_n_p", &format!("n{}p{}", sh.n, sh.p));
    if !complete {
        rep.exhaustive(false);
    }
}

// ---------------------------------------------------------------------------
// Phase 3: sampled large scenarios
// ---------------------------------------------------------------------------

fn gen_phase3(rng: &mut Rng, case: u64, seed: u64) -> Scenario {
    let n_wl = rng.range_usize(1, 3);
    let n_heads = rng.range_usize(n_wl, (n_wl * 4).min(6));
    let salt = rng.below(10_000);
    let mut heads = Vec::new();
    let mut has_default = vec![false; n_wl];
    for i in 0..n_heads {
        let wl = if i < n_wl { i } else { rng.below_usize(n_wl) };
        let is_default = !has_default[wl];
        has_default[wl] = true;
        heads.push(HeadSpec {
            wl: wl as u8,
            label: format!("p3-{i}-{salt}"),
            public_inbox: (!is_default && rng.chance(2, 3)).then(|| format!("box-{i}")),
            is_default,
            policy: gen_policy(rng),
        });
    }
    let topo = Topology {
        n_worldlines: n_wl as u8,
        heads,
        workers: rng.range(1, 2) as u8,
    };
    let n_int = rng.range_usize(7, 40);
    let behaviours = [b'W', b'W', b'S', b'A', b'N', b'U', b'S', b'A'];
    let mut intents: Vec<IntentSpec> = Vec::new();
    for i in 0..n_int {
        let head = rng.below_usize(n_heads);
        let h = &topo.heads[head];
        let target = match rng.below(3) {
            0 if h.is_default => TargetSpec::Default(h.wl),
            1 if h.public_inbox.is_some() => TargetSpec::Named(h.wl, h.public_inbox.clone().unwrap_or_default()),
            _ => TargetSpec::Exact(head),
        };
        let token = verif_core::h64(format!("p3|{seed}|{case}|{i}").as_bytes());
        let plen = rng.range_usize(0, 4);
        intents.push(IntentSpec {
            kind: rng.below(u64::from(N_KINDS)) as u8,
            bytes: intent_bytes(behaviours[rng.below_usize(behaviours.len())], token, &rng.bytes(plen)),
            target,
            parents: if rng.chance(1, 6) { vec![rng.below(4) as u8, rng.below(4) as u8] } else { Vec::new() },
            ticketed: rng.chance(1, 3),
        });
    }
    // one poison intent for failed-pass scenarios (armed only around one pass)
    let poison_head = rng.below_usize(n_heads);
    let poison_ix = intents.len();
    intents.push(IntentSpec {
        kind: 0,
        bytes: intent_bytes(*rng.pick(&[b'C', b'P', b'D']), verif_core::h64(format!("p3-poison|{seed}|{case}").as_bytes()), b"x"),
        target: TargetSpec::Exact(poison_head),
        parents: Vec::new(),
        ticketed: rng.chance(1, 2),
    });
    // rounds
    let rounds = rng.range_usize(1, 4);
    let mut script: Vec<Ev> = Vec::new();
    let mut unused: Vec<usize> = (0..n_int).collect();
    rng.shuffle(&mut unused);
    let mut used: Vec<usize> = Vec::new();
    let mut policy_now: Vec<PolicySpec> = topo.heads.iter().map(|h| h.policy.clone()).collect();
    for r in 0..rounds {
        let take = if r + 1 == rounds { unused.len() } else { rng.range_usize(1, unused.len().max(1)) }.min(unused.len());
        let mut seg: Vec<usize> = unused.drain(..take).collect();
        // legitimately repeated submissions after a barrier (restart / policy
        // change) — present in canonical and variant alike
        if !used.is_empty() && rng.chance(1, 2) {
            for _ in 0..rng.range_usize(1, 4) {
                seg.push(used[rng.below_usize(used.len())]);
            }
        }
        let kind_of_round = rng.below(10);
        if kind_of_round == 0 && (0..n_heads).any(|h| policy_now[h].accepts_kind(0)) {
            seg.push(poison_ix);
        }
        let seg = sorted_by_id(&topo, &intents, &seg);
        let has_poison = seg.contains(&poison_ix);
        for i in &seg {
            script.push(Ev::Submit(*i));
        }
        used.extend(seg.iter().copied().filter(|i| *i != poison_ix));
        if has_poison {
            script.push(Ev::Arm(poison_ix));
            script.push(Ev::Pass { fail: None });
            script.push(Ev::Disarm(poison_ix));
            script.push(Ev::Resolve);
            script.push(Ev::Pass { fail: None });
        } else if kind_of_round == 1 {
            let fpn = FAILPOINTS[rng.below_usize(FAILPOINTS.len())];
            script.push(Ev::Pass {
                fail: Some((fpn.to_owned(), rng.below(2), rng.chance(1, 3))),
            });
            script.push(Ev::Resolve);
            script.push(Ev::Pass { fail: None });
        } else {
            script.push(Ev::Pass { fail: None });
        }
        if r + 1 < rounds {
            match rng.below(6) {
                0 | 1 => {
                    let h = rng.below_usize(n_heads);
                    let p = gen_policy(rng);
                    policy_now[h] = p.clone();
                    script.push(Ev::Policy { head: h, policy: p });
                }
                2 | 3 => script.push(Ev::Restart),
                _ => {}
            }
        }
    }
    script.push(Ev::Pass { fail: None });
    script.push(Ev::Pass { fail: None });
    Scenario {
        topo,
        intents,
        script,
    }
}

fn gen_policy(rng: &mut Rng) -> PolicySpec {
    match rng.below(10) {
        0..=4 => PolicySpec::AcceptAll,
        5..=7 => PolicySpec::Budgeted(rng.below(5) as u32),
        _ => {
            let mut ks: Vec<u8> = (0..N_KINDS).filter(|_| rng.chance(2, 3)).collect();
            if ks.is_empty() {
                ks.push(rng.below(u64::from(N_KINDS)) as u8);
            }
            PolicySpec::KindFilter(ks)
        }
    }
}

/// Metamorphic variant: permute every submission segment, repeat each 1..=3
/// times, and sprinkle idempotent retries of pending/committed work.
fn gen_variant(rng: &mut Rng, scn: &Scenario, canon: &Trace) -> (Scenario, Vec<bool>) {
    let mut script: Vec<Ev> = Vec::new();
    let mut flags: Vec<bool> = Vec::new();
    let mut seg: Vec<usize> = Vec::new();
    let mut seg_ix = 0usize;
    let flush = |seg: &mut Vec<usize>, seg_ix: usize, script: &mut Vec<Ev>, flags: &mut Vec<bool>, rng: &mut Rng| {
        let mut items: Vec<(usize, bool)> = Vec::new();
        for i in seg.iter() {
            for _ in 0..rng.range_usize(1, 3) {
                items.push((*i, false));
            }
        }
        if let Some(known) = canon.known_at_segment.get(seg_ix) {
            for (ix, spec) in scn.intents.iter().enumerate() {
                if seg.contains(&ix) {
                    continue;
                }
                let Some(h) = spec.resolved_head(&scn.topo) else {
                    continue;
                };
                if known.contains(&(h, spec.envelope(&scn.topo).ingress_id())) && rng.chance(1, 4) {
                    items.push((ix, true));
                }
            }
        }
        rng.shuffle(&mut items);
        for (i, extra) in items {
            script.push(Ev::Submit(i));
            flags.push(extra);
        }
        seg.clear();
    };
    for ev in &scn.script {
        if let Ev::Submit(i) = ev {
            seg.push(*i);
        } else {
            flush(&mut seg, seg_ix, &mut script, &mut flags, rng);
            seg_ix += 1;
            script.push(ev.clone());
            flags.push(false);
        }
    }
    flush(&mut seg, seg_ix, &mut script, &mut flags, rng);
    (
        Scenario {
            topo: scn.topo.clone(),
            intents: scn.intents.clone(),
            script,
        },
        flags,
    )
}

fn phase3_case(args: &Args, rep: &mut Report, case: u64) {
    let mut rng = Rng::for_case(args.seed, "C08", case);
    let scn = gen_phase3(&mut rng, case, args.seed);
    let canon = run_script(&scn, &[], Level::Full);
    rep.eval();
    if let Some(e) = &canon.harness_error {
        rep.inconclusive(&format!("phase 3 canonical run: {}", e.chars().take(90).collect::<String>()));
        return;
    }
    if let Some((sig, what)) = exactly_once_check(&canon) {
        report_mismatch(rep, "3", "sampled", &scn, &scn, &[], &sig, &what);
        if !rep.is_known(&format!("C08:{sig}")) {
            return;
        }
    }
    if let Some((sig, what)) = admit_order_check(&scn, &canon) {
        report_mismatch(rep, "3", "sampled", &scn, &scn, &[], &sig, &what);
        return;
    }
    let commits: usize = canon
        .marks
        .iter()
        .filter_map(|m| match &m.pass {
            Some(PassResult::Ok(r)) => Some(r.len()),
            _ => None,
        })
        .sum();
    for m in &canon.marks {
        if let Some(p) = &m.pass {
            rep.observe("phase3_pass_outcomes", &p.class());
        }
        if m.ev == "restart" {
            rep.count("phase3_restarts", 1);
        }
        if m.ev.starts_with("policy") {
            rep.count("phase3_policy_changes", 1);
        }
    }
    rep.observe("phase3_intent_counts", &format!("{:02}", scn.intents.len() - 1));
    let variants = 4;
    for v in 0..variants {
        let (scn_v, flags) = gen_variant(&mut rng, &scn, &canon);
        let tv = run_script(&scn_v, &flags, Level::Full);
        rep.eval();
        if let Some(e) = &tv.harness_error {
            rep.inconclusive(&format!("phase 3 variant run: {}", e.chars().take(90).collect::<String>()));
            return;
        }
        rep.count("phase3_extra_retries", flags.iter().filter(|f| **f).count() as u64);
        if let Some((sig, what)) = exactly_once_check(&tv) {
            report_mismatch(rep, "3", "sampled", &scn, &scn_v, &flags, &sig, &what);
            if !rep.is_known(&format!("C08:{sig}")) {
                return;
            }
        }
        let bad = compare(&scn, &canon, &scn_v, &tv).or_else(|| admit_order_check(&scn_v, &tv));
        if let Some((sig, what)) = bad {
            report_mismatch(rep, "3", "sampled", &scn, &scn_v, &flags, &sig, &what);
            return;
        }
        if commits > 0 {
            let mut key = scn_v.canonical_bytes();
            key.push(v);
            rep.nontrivial(&key);
        }
    }
    if rep.wants_sample() && commits > 2 {
        rep.sample(json!({
            "phase": 3, "case": case, "intents": scn.intents.len(), "heads": scn.topo.heads.len(),
            "worldlines": scn.topo.n_worldlines,
            "events": canon.marks.iter().map(|m| format!("{}{}", m.ev, m.pass.as_ref().map_or(String::new(), |p| format!("={}", p.class())))).collect::<Vec<_>>(),
        }));
    }
}

// ---------------------------------------------------------------------------
// Entry points
// ---------------------------------------------------------------------------

const RULE: &str = "phase 0: generated (kind, bytes, parent list, target) tuples over tiny alphabets, id table checked both ways; phase 1: per configuration (accept-all, budget 0/1/2/3, kind filter, filter↔accept-all changes, 3 heads with default/named/exact routing) every permutation × every retry pattern 1..=3 of n=1..=6 intents in one submission segment followed by draining passes; phase 2: every interleaving of ≤4 intents (each submitted 1..=2 times, for ≤2 intents 1..=3 times; at most 6 submissions in the quick tier, 7 in thorough) with 1..=3 passes; phase 3: sampled scenarios with 7..=40 intents, 1–3 worldlines × 1–6 heads, policy changes, failing passes (poison intent / H8 failpoint) + recovery, restart via the restore paths, 4 metamorphic variants each. Non-trivial = the variant's arrival sequence differs from the canonical one AND the canonical run commits at least one tick; enumerated cases are distinct by construction, sampled ones by canonical scenario bytes.";

pub fn run(args: &Args) -> i32 {
    let mut rep = Report::new(args, "exploration", RULE);
    if let Some(path) = &args.replay {
        return replay(path, rep);
    }
    let budget = Budget::for_tier(args.tier, 52.0, 900.0);
    // Cumulative deadlines, all measured from the start of the run.
    let b1 = budget.slice(if args.is_quick() { 0.42 } else { 0.50 });
    let b2 = budget.slice(if args.is_quick() { 0.70 } else { 0.85 });
    let b3 = budget.slice(0.97);
    // A pass spawns (and joins) a worker thread inside the engine; on a busy
    // machine that is latency-, not CPU-bound, so run more shards than cores.
    let jobs = args.jobs * 3;
    rep.assumption("submission_generation is an arrival counter and is masked out of every comparison");
    rep.assumption("moving a submission across a pass / policy-change / restart boundary is a different history and is not compared; cross-boundary repeats are compared only when the canonical run knows the intent as pending or committed on its head (idempotent retry)");
    rep.assumption("ingress-id collisions are only looked for among generated inputs (no crafted IntentKind hashes)");

    phase0(args, &mut rep);
    if rep.violations() > 0 {
        return rep.finish(2);
    }

    // ---- phase 1
    let n_cfg = configs().len();
    let quick = args.is_quick();
    struct S1 {
        ci: usize,
        n: usize,
        lo: u64,
        hi: u64,
        stride: u64,
    }
    let mut shards: Vec<S1> = Vec::new();
    for ci in 0..n_cfg {
        for n in 1..=6usize {
            let perms = factorial(n);
            let stride = if n == 6 && quick { 24 } else { 1 };
            let chunk = if n >= 5 { 6 } else if n == 4 { 3 } else { perms };
            let mut lo = 0;
            while lo < perms {
                shards.push(S1 {
                    ci,
                    n,
                    lo,
                    hi: (lo + chunk).min(perms),
                    stride,
                });
                lo += chunk;
            }
        }
    }
    // n ≤ 3 first (always completed); then round-robin over n = 4, 5, 6 so
    // that a short budget still samples every size.
    shards.sort_by_key(|s| {
        if s.n <= 3 {
            (0, s.n as u64, s.lo, s.ci)
        } else {
            let chunk = if s.n >= 5 { 6 } else { 3 };
            (1, s.lo / chunk, s.n as u64, s.ci)
        }
    });
    let expected: u64 = shards
        .iter()
        .map(|s| (s.hi - s.lo) * 3u64.pow(s.n as u32) / s.stride)
        .sum();
    rep.set("phase1_runs_planned", json!(expected));
    let t_phase = std::time::Instant::now();
    rep.exhaustive(true);
    verif_core::run_shards(&mut rep, jobs, shards.len(), |i, rep| {
        let s = &shards[i];
        phase1_shard(args, rep, s.ci, s.n, s.lo, s.hi, s.stride, &b1);
    });
    if rep.violations() > 0 {
        return rep.finish(2);
    }

    let t1 = t_phase.elapsed().as_secs_f64();
    // ---- phase 2
    let t_phase = std::time::Instant::now();
    let mut sh2 = phase2_shards(if quick { 6 } else { 7 }, 4);
    sh2.sort_by_key(|s| (s.n, s.p, s.mults.iter().sum::<usize>(), s.ci));
    verif_core::run_shards(&mut rep, jobs, sh2.len(), |i, rep| {
        phase2_shard(args, rep, &sh2[i], &b2);
    });
    if rep.violations() > 0 {
        return rep.finish(2);
    }

    let t2 = t_phase.elapsed().as_secs_f64();
    // ---- phase 3
    let t_phase = std::time::Instant::now();
    let cases: u64 = args.by_tier(600, 20_000);
    let chunk = 8u64;
    verif_core::run_shards(&mut rep, jobs, cases.div_ceil(chunk) as usize, |i, rep| {
        for case in (i as u64 * chunk)..((i as u64 + 1) * chunk).min(cases) {
            if case >= 48 && b3.expired() {
                break;
            }
            phase3_case(args, rep, case);
        }
    });
    rep.set(
        "phase_wall_s",
        json!({"phase1": (t1 * 10.0).round() / 10.0, "phase2": (t2 * 10.0).round() / 10.0, "phase3": (t_phase.elapsed().as_secs_f64() * 10.0).round() / 10.0}),
    );
    rep.finish(args.by_tier(2_000, 50_000))
}

fn replay(path: &std::path::Path, mut rep: Report) -> i32 {
    let Ok(text) = std::fs::read_to_string(path) else {
        println!("HARNESS-ERROR cannot read replay file {}", path.display());
        return 2;
    };
    let Ok(v) = serde_json::from_str::<Value>(&text) else {
        println!("HARNESS-ERROR replay file is not JSON");
        return 2;
    };
    let r = v.get("replay").cloned().unwrap_or(Value::Null);
    let (Some(scn_c), Some(scn_v)) = (
        r.get("canonical").and_then(Scenario::from_json),
        r.get("variant").and_then(Scenario::from_json),
    ) else {
        println!("HARNESS-ERROR replay file carries no canonical/variant scenario (phase 0 findings are re-run by seed)");
        return 2;
    };
    let flags: Vec<bool> = r
        .get("variant_extra_retries")
        .and_then(Value::as_array)
        .map(|a| a.iter().map(|b| b.as_bool().unwrap_or(false)).collect())
        .unwrap_or_default();
    let tc = run_script(&scn_c, &[], Level::Full);
    let tv = run_script(&scn_v, &flags, Level::Full);
    println!("REPLAY C08: canonical script {} events, variant {} events", scn_c.script.len(), scn_v.script.len());
    for (name, scn, t) in [("canonical", &scn_c, &tc), ("variant", &scn_v, &tv)] {
        println!("  {name}:");
        for m in &t.marks {
            println!("    {} {}", m.ev, m.pass.as_ref().map_or(String::new(), PassResult::class));
        }
        if let Some((sig, what)) = single_run_checks(scn, t) {
            println!("  {name}: {sig}: {what}");
            rep.violation(&format!("C08:{sig}"), &what, r.clone());
        }
    }
    if let Some((sig, what)) = compare(&scn_c, &tc, &scn_v, &tv) {
        println!("DIVERGENCE {sig}: {what}");
        rep.violation(&format!("C08:{sig}"), &what, r.clone());
    }
    if rep.violations() > 0 {
        1
    } else {
        println!("REPLAY: no divergence reproduced");
        0
    }
}


/// Error detail without the harness' own route prefix (`submit:` / `stage:`): a retry may
/// come back through another ingress route than the original.
fn route_free(d: &str) -> &str {
    d.strip_prefix("submit:").or_else(|| d.strip_prefix("stage:")).unwrap_or(d)
}
