//! Component-wise fingerprints of `WorldlineRuntime`, `ProvenanceService` and
//! `Engine`.
//!
//! Source of truth is the derived `Debug` of the real objects (compact form),
//! so that *every* field — including indexes nobody reads back — takes part.
//! Two projections keep the comparison honest:
//!   * graph stores (`warp_state` / `initial_state` subtrees) are cut out of the
//!     text (bucket insertion order is layout, not content) and replaced by a
//!     layout-independent abstract digest obtained through public accessors
//!     and the `echo_verif` read-only doors;
//!   * the runtime is split into its top-level fields so that the fault fields
//!     can be judged by their own rule instead of by equality.

use warp_core::{verif, Engine, ProvenanceService, WarpState, WorldlineRuntime};

pub type Parts = Vec<(String, String)>;

/// Advance over a Rust `Debug` string literal starting at `i` (which points at
/// the opening quote); returns the index just past the closing quote.
fn skip_string(b: &[u8], mut i: usize) -> usize {
    debug_assert_eq!(b[i], b'"');
    i += 1;
    while i < b.len() {
        match b[i] {
            b'\\' => i += 2,
            b'"' => return i + 1,
            _ => i += 1,
        }
    }
    b.len()
}

/// End (exclusive) of the value that starts at `start`: scans to the first
/// `,` or closing bracket at depth 0.
fn value_end(b: &[u8], start: usize) -> usize {
    let mut depth = 0i64;
    let mut i = start;
    while i < b.len() {
        match b[i] {
            b'"' => {
                i = skip_string(b, i);
                continue;
            }
            b'(' | b'[' | b'{' => depth += 1,
            b')' | b']' | b'}' => {
                if depth == 0 {
                    return i;
                }
                depth -= 1;
            }
            b',' if depth == 0 => return i,
            _ => {}
        }
        i += 1;
    }
    b.len()
}

/// Split `Name { a: v, b: v }` into `(a, v)`, `(b, v)`.
pub fn split_top_fields(text: &str) -> Vec<(String, String)> {
    let b = text.as_bytes();
    let mut out = Vec::new();
    let Some(open) = text.find('{') else {
        return vec![("value".to_owned(), text.to_owned())];
    };
    let mut i = open + 1;
    loop {
        while i < b.len() && (b[i] == b' ' || b[i] == b',') {
            i += 1;
        }
        if i >= b.len() || b[i] == b'}' {
            break;
        }
        let name_start = i;
        while i < b.len() && b[i] != b':' {
            i += 1;
        }
        let name = text[name_start..i].to_owned();
        i += 1; // ':'
        while i < b.len() && b[i] == b' ' {
            i += 1;
        }
        let end = value_end(b, i);
        out.push((name, text[i..end].to_owned()));
        i = end;
    }
    out
}

/// Replace the value of every field named in `keys` by a placeholder; the
/// removed texts are returned in order of appearance.
pub fn cut_fields(text: &str, keys: &[&str]) -> (String, Vec<String>) {
    let b = text.as_bytes();
    let mut out = String::with_capacity(text.len());
    let mut cut = Vec::new();
    let mut i = 0usize;
    let mut last = 0usize;
    while i < b.len() {
        if b[i] == b'"' {
            i = skip_string(b, i);
            continue;
        }
        let mut matched = None;
        if i == 0 || !(b[i - 1].is_ascii_alphanumeric() || b[i - 1] == b'_') {
            for k in keys {
                let kb = k.as_bytes();
                if b[i..].starts_with(kb) && b[i + kb.len()..].starts_with(b": ") {
                    matched = Some(i + kb.len() + 2);
                    break;
                }
            }
        }
        if let Some(vstart) = matched {
            let vend = value_end(b, vstart);
            out.push_str(&text[last..vstart]);
            out.push_str("<cut>");
            cut.push(text[vstart..vend].to_owned());
            last = vend;
            i = vend;
        } else {
            i += 1;
        }
    }
    out.push_str(&text[last..]);
    (out, cut)
}

/// Order-insensitive digest of a cut subtree (multiset of its `, `-separated
/// atoms) — only used where no accessor reaches the state.
fn multiset_digest(text: &str) -> String {
    let mut atoms: Vec<&str> = text.split(", ").collect();
    atoms.sort_unstable();
    let mut h = blake3::Hasher::new();
    for a in atoms {
        h.update(a.as_bytes());
        h.update(b"\n");
    }
    verif_core::hex(&h.finalize().as_bytes()[..12])
}

/// Layout-independent description of a `WarpState`.
pub fn abstract_state(state: &WarpState) -> String {
    let mut out = String::new();
    for inst in verif::instances(state) {
        out.push_str(&format!("inst {inst:?};"));
    }
    for id in verif::store_ids(state) {
        if let Some(store) = state.store(&id) {
            out.push_str(&format!(
                "store {} {};",
                verif_core::hex(&id.0[..6]),
                verif_core::hex(&store.canonical_state_hash())
            ));
        }
    }
    out
}

/// Names of the runtime fields that fault evidence is allowed to touch.
pub const FAULT_FIELDS: &[&str] = &[
    "scheduler_faults",
    "faulted_heads",
    "runtime_fault",
    "next_scheduler_fault_generation",
    "runnable",
];

/// A read-only statistics cell bumped by *observation* calls; not runtime state.
const IGNORED_FIELDS: &[&str] = &["receipt_correlation_full_scan_count"];

pub fn runtime_parts(rt: &WorldlineRuntime) -> Parts {
    let text = format!("{rt:?}");
    let mut parts = Parts::new();
    for (name, value) in split_top_fields(&text) {
        if IGNORED_FIELDS.contains(&name.as_str()) {
            continue;
        }
        if name == "worldlines" {
            let (rest, _cut) = cut_fields(&value, &["warp_state", "initial_state"]);
            parts.push(("rt.worldlines".to_owned(), rest));
            for (i, (id, frontier)) in rt.worldlines().iter().enumerate() {
                let tag = verif_core::hex(&id.as_bytes()[..2]);
                parts.push((
                    format!("rt.worldline[{i}:{tag}].warp_state"),
                    format!(
                        "root={} {}",
                        verif_core::hex(&frontier.state().state_root()),
                        abstract_state(frontier.state().warp_state())
                    ),
                ));
                parts.push((
                    format!("rt.worldline[{i}:{tag}].initial_state"),
                    abstract_state(frontier.state().initial_state()),
                ));
            }
        } else {
            parts.push((format!("rt.{name}"), value));
        }
    }
    parts
}

pub fn provenance_parts(p: &ProvenanceService) -> Parts {
    let text = format!("{p:?}");
    let mut parts = Parts::new();
    for (name, value) in split_top_fields(&text) {
        let (rest, cut) = cut_fields(&value, &["warp_state", "initial_state"]);
        let mut v = rest;
        for c in cut {
            v.push_str(" <cut-digest:");
            v.push_str(&multiset_digest(&c));
            v.push('>');
        }
        parts.push((format!("prov.{name}"), v));
    }
    parts
}

pub fn engine_parts(e: &Engine) -> Parts {
    e.verif_fingerprint_parts()
        .into_iter()
        .map(|(k, v)| (format!("engine.{k}"), v))
        .collect()
}

pub fn full(rt: &WorldlineRuntime, p: &ProvenanceService, e: &Engine) -> Parts {
    let mut parts = runtime_parts(rt);
    parts.extend(provenance_parts(p));
    parts.extend(engine_parts(e));
    parts
}

pub fn get<'a>(parts: &'a Parts, name: &str) -> Option<&'a str> {
    parts
        .iter()
        .find(|(k, _)| k == name)
        .map(|(_, v)| v.as_str())
}

/// Components that differ, with a short excerpt around the first difference.
pub fn diff(before: &Parts, after: &Parts, skip: &[&str]) -> Vec<(String, String)> {
    let mut out = Vec::new();
    let skipped = |k: &str| skip.iter().any(|s| k == format!("rt.{s}"));
    for (k, v) in before {
        if skipped(k) {
            continue;
        }
        match get(after, k) {
            None => out.push((k.clone(), "component disappeared".to_owned())),
            Some(w) if w != v => out.push((k.clone(), excerpt(v, w))),
            _ => {}
        }
    }
    for (k, _) in after {
        if !skipped(k) && get(before, k).is_none() {
            out.push((k.clone(), "component appeared".to_owned()));
        }
    }
    out
}

pub fn excerpt(a: &str, b: &str) -> String {
    let ab = a.as_bytes();
    let bb = b.as_bytes();
    let mut i = 0;
    while i < ab.len() && i < bb.len() && ab[i] == bb[i] {
        i += 1;
    }
    let from = i.saturating_sub(60);
    let cut = |s: &str| -> String {
        let mut start = from.min(s.len());
        while start > 0 && !s.is_char_boundary(start) {
            start -= 1;
        }
        s[start..].chars().take(200).collect()
    };
    format!(
        "len {}→{}; first difference at byte {i}: before=…{}… after=…{}…",
        a.len(),
        b.len(),
        cut(a),
        cut(b)
    )
}

/// Replace every `submission_generation: IngressSubmissionGeneration(N)` by a
/// masked token: it is an arrival counter, legitimately order-dependent.
pub fn mask_generations(text: &str) -> String {
    let pat = "submission_generation: IngressSubmissionGeneration(";
    let mut out = String::with_capacity(text.len());
    let mut rest = text;
    while let Some(pos) = rest.find(pat) {
        // `next_submission_generation` is a count, not an arrival index: keep.
        let is_next = rest[..pos].ends_with("next_");
        out.push_str(&rest[..pos + pat.len()]);
        rest = &rest[pos + pat.len()..];
        let end = rest.find(')').unwrap_or(rest.len());
        if is_next {
            out.push_str(&rest[..end]);
        } else {
            out.push('_');
        }
        rest = &rest[end..];
    }
    out.push_str(rest);
    out
}

#[cfg(test)]
mod tests {
    use super::*;

    #[test]
    fn splits_and_cuts() {
        let t = r#"X { a: 1, b: Y { c: [1, 2], d: "}, {" }, warp_state: W { q: {1: 2} }, e: None }"#;
        let f = split_top_fields(t);
        assert_eq!(f.len(), 4);
        assert_eq!(f[1].0, "b");
        assert_eq!(f[1].1, r#"Y { c: [1, 2], d: "}, {" }"#);
        let (rest, cut) = cut_fields(t, &["warp_state"]);
        assert_eq!(cut, vec!["W { q: {1: 2} }".to_owned()]);
        assert!(rest.contains("warp_state: <cut>, e: None"));
    }

    #[test]
    fn masks() {
        let t = "a submission_generation: IngressSubmissionGeneration(7), next_submission_generation: IngressSubmissionGeneration(9) z";
        assert_eq!(
            mask_generations(t),
            "a submission_generation: IngressSubmissionGeneration(_), next_submission_generation: IngressSubmissionGeneration(9) z"
        );
    }
}
