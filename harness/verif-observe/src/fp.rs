//! Read-only monitor: canonical fingerprint of (runtime, provenance, engine).
//!
//! The fingerprint is taken of the *same* objects before and after a read, so
//! the `Debug` rendering (which includes every field of `WorldlineRuntime` and
//! `ProvenanceService`, all frontier states, inboxes, histories, checkpoints,
//! strands…) is a faithful "did anything change" witness; per-worldline state
//! roots are added through the `verif::state_root` door, and the engine is
//! covered by `Engine::verif_fingerprint_parts()`.
//!
//! DESIGN §3 C16 G(1): `receipt_correlation_full_scan_count` is a deliberately
//! unsynchronised `Cell` statistics counter (compiled under `host_test`); it is
//! projected out of the stream.

use std::fmt::{self, Write};

use warp_core::{Engine, ProvenanceService, WorldlineRuntime};

const STAT_FIELD: &str = "receipt_correlation_full_scan_count";

struct HashWriter {
    hasher: blake3::Hasher,
    buf: Vec<u8>,
    skipping: bool,
    skipped_fields: u64,
    bytes: u64,
}

impl HashWriter {
    fn new(tag: &[u8]) -> Self {
        let mut hasher = blake3::Hasher::new();
        hasher.update(tag);
        Self {
            hasher,
            buf: Vec::with_capacity(1 << 16),
            skipping: false,
            skipped_fields: 0,
            bytes: 0,
        }
    }
    fn flush(&mut self) {
        if !self.buf.is_empty() {
            self.hasher.update(&self.buf);
            self.buf.clear();
        }
    }
    fn finish(mut self) -> ([u8; 32], u64, u64) {
        self.flush();
        (self.hasher.finalize().into(), self.bytes, self.skipped_fields)
    }
}

impl Write for HashWriter {
    fn write_str(&mut self, s: &str) -> fmt::Result {
        if self.skipping {
            // Value of the statistics field: `Cell { value: N }`.
            if s.contains('}') {
                self.skipping = false;
            }
            return Ok(());
        }
        if s == STAT_FIELD {
            self.skipping = true;
            self.skipped_fields += 1;
            return Ok(());
        }
        self.bytes += s.len() as u64;
        self.buf.extend_from_slice(s.as_bytes());
        if self.buf.len() >= (1 << 16) - 256 {
            self.flush();
        }
        Ok(())
    }
}

#[derive(Clone, Debug, PartialEq, Eq)]
pub struct Fingerprint {
    pub runtime: [u8; 32],
    pub provenance: [u8; 32],
    pub engine: [u8; 32],
    /// Bytes of canonical description hashed (evidence only, not compared).
    pub bytes: u64,
    pub stat_fields_projected: u64,
}

impl Fingerprint {
    /// Names of the components that differ.
    pub fn diff(&self, other: &Self) -> Vec<&'static str> {
        let mut out = Vec::new();
        if self.runtime != other.runtime {
            out.push("runtime");
        }
        if self.provenance != other.provenance {
            out.push("provenance");
        }
        if self.engine != other.engine {
            out.push("engine");
        }
        out
    }
}

pub fn fingerprint(
    runtime: &WorldlineRuntime,
    provenance: &ProvenanceService,
    engine: &Engine,
) -> Fingerprint {
    let mut w = HashWriter::new(b"runtime\0");
    let _ = write!(w, "{runtime:?}");
    // Layout-independent content roots of every frontier.
    for (id, frontier) in runtime.worldlines().iter() {
        let root = crate::world::live_state_root(frontier.state());
        let _ = write!(
            w,
            "|root {:?} {} {}",
            id,
            frontier.frontier_tick().as_u64(),
            verif_core::hex(&root)
        );
    }
    let _ = write!(w, "|gt {}", runtime.global_tick().as_u64());
    let (rt, b1, skipped) = w.finish();

    let mut w = HashWriter::new(b"provenance\0");
    let _ = write!(w, "{provenance:?}");
    let (pv, b2, _) = w.finish();

    let mut w = HashWriter::new(b"engine\0");
    for (name, desc) in engine.verif_fingerprint_parts() {
        let _ = write!(w, "{name}={desc}\n");
    }
    let (en, b3, _) = w.finish();

    Fingerprint {
        runtime: rt,
        provenance: pv,
        engine: en,
        bytes: b1 + b2 + b3,
        stat_fields_projected: skipped,
    }
}

/// Self-test of the G(1) projection: bumping the statistics counter must not
/// change the fingerprint, and the counter must really have moved.
/// Returns `Err(reason)` when the projection does not work in this build.
pub fn projection_self_test(
    runtime: &WorldlineRuntime,
    provenance: &ProvenanceService,
    engine: &Engine,
) -> Result<(), String> {
    let before = fingerprint(runtime, provenance, engine);
    let c0 = runtime.receipt_correlation_full_scan_count_for_test();
    let _ = runtime.receipt_correlations().count();
    let c1 = runtime.receipt_correlation_full_scan_count_for_test();
    let after = fingerprint(runtime, provenance, engine);
    if c1 == c0 {
        return Err("statistics counter did not move in the projection self-test".into());
    }
    if before.stat_fields_projected != 1 {
        return Err(format!(
            "expected exactly one projected statistics field, saw {}",
            before.stat_fields_projected
        ));
    }
    if before != after {
        return Err(format!(
            "fingerprint still depends on the statistics counter ({:?})",
            before.diff(&after)
        ));
    }
    Ok(())
}
