//! verif-observe — runtime monitor for C16 (observation is read-only and
//! bound to its coordinate).

mod c16;
mod fp;
mod observers;
mod wasm_lane;
mod world;

use verif_core::Args;

fn main() {
    let args = Args::parse();
    let code = match args.prop.as_str() {
        "C16" => c16::run(&args),
        other => {
            println!("HARNESS-ERROR unknown property {other}");
            2
        }
    };
    std::process::exit(code);
}
