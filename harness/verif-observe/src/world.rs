//! Workload: generated multi-worldline histories driven through the public
//! runtime API (`WorldlineRuntime::ingest`, `SchedulerCoordinator::super_tick`,
//! `WorldlineRuntime::fork_strand`, `ProvenanceService::{fork,checkpoint}`),
//! with a native data-driven rule so that every committed state depends on the
//! whole history before it.
//!
//! The harness records, *at commit time and from the live frontier*, what the
//! state after each commit was (`CommitRec`). That log is the independent
//! witness a later historical reading is compared with — it never reads the
//! provenance store.

use std::collections::BTreeMap;

use verif_core::Rng;
use warp_core::materialization::{make_channel_id, ChannelId};
use warp_core::{
    compute_commit_hash_v2, make_edge_id, make_head_id, make_intent_kind, make_node_id, make_strand_id,
    make_type_id, make_warp_id, ActorId, AtomPayload, AttachmentKey, AttachmentSet,
    AttachmentValue, AuthorityBinding, AuthorityDomainId, AuthorityDomainRef, CausalAuthority,
    CausalPosture, ConflictPolicy, EdgeKey, EdgeRecord, EdgeSet, Engine, EngineBuilder, Footprint, ForkStrandRequest,
    GlobalTick, GraphStore, GraphView, Hash, HashTriplet, InboxPolicy, IngressEnvelope,
    IngressTarget, NodeId, NodeKey, NodeRecord, NodeSet, OriginId, PatternGraph, PlaybackMode,
    PortSet, PostureDerivation, ProvenanceEntry, ProvenanceService, ProvenanceStore,
    RetentionContractId, RetentionPosture, RewriteRule, SchedulerCoordinator, SchedulerKind,
    SealStrength, SlotId, StrandId, TickCommitStatus, TickDelta, WarpOp, WarpTickPatchV1,
    WorldlineId, WorldlineRuntime, WorldlineState, WorldlineTick, WorldlineTickHeaderV1,
    WorldlineTickPatchV1, WriterHead, WriterHeadKey,
};

pub const RULE_NAME: &str = "cmd/verif-observe/fold";
const ACC_LABEL: &str = "verif-observe/acc";
const ACC_ATOM_TY: &str = "verif-observe/acc-atom";
const SPAWN_TY: &str = "verif-observe/spawn";

fn acc_node() -> NodeId {
    make_node_id(ACC_LABEL)
}

fn atom_bytes<'a>(view: &GraphView<'a>, id: &NodeId) -> Option<&'a [u8]> {
    match view.node_attachment(id) {
        Some(AttachmentValue::Atom(a)) => Some(a.bytes.as_ref()),
        _ => None,
    }
}

/// `H(previous accumulator bytes ‖ intent payload)` — what the rule folds into
/// the accumulator node, so each committed state depends on all earlier ones.
fn fold(prev: &[u8], payload: &[u8]) -> [u8; 32] {
    let mut h = blake3::Hasher::new();
    h.update(b"verif-observe:fold\0");
    h.update(&(prev.len() as u64).to_le_bytes());
    h.update(prev);
    h.update(payload);
    h.finalize().into()
}

fn spawn_id(folded: &[u8; 32]) -> NodeId {
    make_node_id(&format!("verif-observe/spawn/{}", verif_core::hex(&folded[..8])))
}

fn rule_matches(view: GraphView<'_>, scope: &NodeId) -> bool {
    atom_bytes(&view, scope).is_some() && view.node(&acc_node()).is_some()
}

fn rule_exec(view: GraphView<'_>, scope: &NodeId, delta: &mut TickDelta) {
    let Some(payload) = atom_bytes(&view, scope) else {
        return;
    };
    let prev = atom_bytes(&view, &acc_node()).unwrap_or(&[]);
    let folded = fold(prev, payload);
    let warp_id = view.warp_id();
    delta.push(WarpOp::SetAttachment {
        key: AttachmentKey::node_alpha(NodeKey {
            warp_id,
            local_id: acc_node(),
        }),
        value: Some(AttachmentValue::Atom(AtomPayload::new(
            make_type_id(ACC_ATOM_TY),
            bytes::Bytes::copy_from_slice(&folded),
        ))),
    });
    if payload.first().is_some_and(|b| b & 1 == 1) {
        delta.push(WarpOp::UpsertNode {
            node: NodeKey {
                warp_id,
                local_id: spawn_id(&folded),
            },
            record: NodeRecord {
                ty: make_type_id(SPAWN_TY),
            },
        });
    }
}

fn rule_footprint(view: GraphView<'_>, scope: &NodeId) -> Footprint {
    let warp_id = view.warp_id();
    let mut n_read = NodeSet::default();
    let mut n_write = NodeSet::default();
    let mut a_read = AttachmentSet::default();
    let mut a_write = AttachmentSet::default();
    n_read.insert_with_warp(warp_id, *scope);
    n_read.insert_with_warp(warp_id, acc_node());
    a_read.insert(AttachmentKey::node_alpha(NodeKey {
        warp_id,
        local_id: *scope,
    }));
    let acc_key = AttachmentKey::node_alpha(NodeKey {
        warp_id,
        local_id: acc_node(),
    });
    a_read.insert(acc_key);
    a_write.insert(acc_key);
    if let Some(payload) = atom_bytes(&view, scope) {
        if payload.first().is_some_and(|b| b & 1 == 1) {
            let prev = atom_bytes(&view, &acc_node()).unwrap_or(&[]);
            n_write.insert_with_warp(warp_id, spawn_id(&fold(prev, payload)));
        }
    }
    Footprint {
        n_read,
        n_write,
        e_read: EdgeSet::default(),
        e_write: EdgeSet::default(),
        a_read,
        a_write,
        b_in: PortSet::default(),
        b_out: PortSet::default(),
        factor_mask: 1,
    }
}

pub fn fold_rule() -> RewriteRule {
    let id: Hash = {
        let mut h = blake3::Hasher::new();
        h.update(b"rule:verif-observe:");
        h.update(RULE_NAME.as_bytes());
        h.finalize().into()
    };
    RewriteRule {
        id,
        name: RULE_NAME,
        left: PatternGraph { nodes: vec![] },
        matcher: rule_matches,
        executor: rule_exec,
        compute_footprint: rule_footprint,
        factor_mask: 1,
        conflict_policy: ConflictPolicy::Abort,
        join_fn: None,
    }
}

/// What the harness saw at the moment commit `tick` of `worldline` happened.
#[derive(Clone, Debug)]
pub struct CommitRec {
    pub global_tick: GlobalTick,
    /// State root recomputed by the harness from the live frontier state right
    /// after the commit (through the `verif::state_root` door).
    pub live_state_root: Hash,
    /// State root / commit hash reported by the scheduler's `StepRecord`
    /// (or by the harness-built prefab entry).
    #[allow(dead_code)]
    pub step_state_root: Hash,
    pub commit_hash: Hash,
    /// Recorded materialization outputs of that commit.
    pub outputs: Vec<(ChannelId, Vec<u8>)>,
    /// `false` when another head of the same worldline committed later in the
    /// same SuperTick, so the live frontier no longer showed this commit.
    pub outputs_known: bool,
}

#[derive(Clone, Debug)]
pub struct WlInfo {
    pub id: WorldlineId,
    pub label: String,
    pub heads: Vec<WriterHeadKey>,
    /// `Some` for the child worldline of a live strand.
    pub strand: Option<StrandId>,
    #[allow(dead_code)]
    pub parent: Option<usize>,
    /// Number of harness-built (prefab) provenance entries at the start.
    pub prefab: u64,
}

pub struct Sim {
    pub engine: Engine,
    pub runtime: WorldlineRuntime,
    pub provenance: ProvenanceService,
    pub wls: Vec<WlInfo>,
    pub log: BTreeMap<(WorldlineId, u64), CommitRec>,
    /// Worldline ids that only exist in provenance (plain `ProvenanceService::fork`).
    pub provenance_only: Vec<WorldlineId>,
    /// Bumped on every mutation of runtime/provenance (replay cache key).
    pub epoch: u64,
    /// Per-worldline count of checkpoints added so far.
    pub checkpoints: BTreeMap<WorldlineId, u64>,
    pub intents_ingested: u64,
    pub commits: u64,
    next_child: u64,
}

pub fn channels() -> Vec<ChannelId> {
    vec![
        make_channel_id("verif-observe:a"),
        make_channel_id("verif-observe:b"),
        make_channel_id("verif-observe:c"),
    ]
}

fn retention_posture() -> RetentionPosture {
    let origin_id = OriginId::from_bytes([0x61; 32]);
    let authority = AuthorityDomainRef::new(origin_id, AuthorityDomainId::from_bytes([0x62; 32]));
    let auth = CausalAuthority::new(
        origin_id,
        ActorId::from_bytes([0x63; 32]),
        authority,
        AuthorityBinding::LocalUnbound { origin: origin_id },
        SealStrength::Advisory,
    )
    .expect("harness authority");
    RetentionPosture::new(
        CausalPosture::AuthorOnly,
        PostureDerivation::ExplicitIntent,
        auth,
        RetentionContractId::from_bytes([0x64; 32]),
        None,
    )
    .expect("harness retention posture")
}

fn wl_id(label: &str) -> WorldlineId {
    let mut h = blake3::Hasher::new();
    h.update(b"verif-observe:worldline:");
    h.update(label.as_bytes());
    WorldlineId::from_bytes(h.finalize().into())
}

fn base_store(warp_label: Option<&str>, extra: u64) -> GraphStore {
    let mut store = match warp_label {
        None => GraphStore::default(),
        Some(l) => GraphStore::new(make_warp_id(l)),
    };
    store.insert_node(
        make_node_id("root"),
        NodeRecord {
            ty: make_type_id("world"),
        },
    );
    store.insert_node(
        acc_node(),
        NodeRecord {
            ty: make_type_id("verif-observe/acc"),
        },
    );
    // The accumulator must be reachable from the root: the state root commits
    // to the reachable state only, and every fold must move it.
    store.insert_edge(
        make_node_id("root"),
        EdgeRecord {
            id: make_edge_id("verif-observe/root-to-acc"),
            from: make_node_id("root"),
            to: acc_node(),
            ty: make_type_id("verif-observe/link"),
        },
    );
    for i in 0..extra {
        store.insert_node(
            make_node_id(&format!("verif-observe/seed/{i}")),
            NodeRecord {
                ty: make_type_id("verif-observe/seed"),
            },
        );
    }
    store
}

pub fn live_state_root(state: &WorldlineState) -> Hash {
    warp_core::verif::state_root(state.warp_state(), state.root())
}

impl Sim {
    /// Smallest runtime: the default worldline, one accept-all head, no
    /// prefab history. Used by fixed minimal probes.
    pub fn minimal() -> Self {
        let mut engine = EngineBuilder::new(base_store(None, 0), make_node_id("root"))
            .scheduler(SchedulerKind::Radix)
            .workers(1)
            .build();
        engine.register_rule(fold_rule()).expect("register fold rule");
        crate::observers::install(&mut engine);
        let state =
            WorldlineState::try_from(engine.state().clone()).expect("default worldline state");
        let id = WorldlineId::from_bytes(*engine.root_key().warp_id.as_bytes());
        let head = WriterHeadKey {
            worldline_id: id,
            head_id: make_head_id("default"),
        };
        let mut provenance = ProvenanceService::new();
        provenance
            .register_worldline(id, &state)
            .expect("register provenance worldline");
        let mut runtime = WorldlineRuntime::new();
        runtime
            .register_worldline(id, state)
            .expect("register runtime worldline");
        runtime
            .register_writer_head(WriterHead::with_routing(
                head,
                PlaybackMode::Play,
                InboxPolicy::AcceptAll,
                None,
                true,
            ))
            .expect("register default head");
        Self {
            engine,
            runtime,
            provenance,
            wls: vec![WlInfo {
                id,
                label: "wl0".to_owned(),
                heads: vec![head],
                strand: None,
                parent: None,
                prefab: 0,
            }],
            log: BTreeMap::new(),
            provenance_only: Vec::new(),
            epoch: 0,
            checkpoints: BTreeMap::new(),
            intents_ingested: 0,
            commits: 0,
            next_child: 0,
        }
    }

    /// Ingests one fixed intent at the default writer of worldline 0 and ticks.
    pub fn commit_fixed(&mut self, payload: &[u8]) -> usize {
        let id = self.wls[0].id;
        let _ = self.runtime.ingest(IngressEnvelope::local_intent(
            IngressTarget::DefaultWriter { worldline_id: id },
            make_intent_kind("verif-observe/intent-a"),
            payload.to_vec(),
        ));
        self.intents_ingested += 1;
        self.tick()
    }

    /// Builds the runtime: 1–3 worldlines, 1–2 heads each, possibly one
    /// worldline that starts with a harness-built ("prefab") history whose
    /// entries carry recorded truth outputs.
    pub fn new(rng: &mut Rng) -> Self {
        let mut engine = EngineBuilder::new(base_store(None, 0), make_node_id("root"))
            .scheduler(if rng.chance(1, 2) {
                SchedulerKind::Radix
            } else {
                SchedulerKind::Legacy
            })
            .workers(1)
            .build();
        engine.register_rule(fold_rule()).expect("register fold rule");
        crate::observers::install(&mut engine);

        let mut sim = Self {
            engine,
            runtime: WorldlineRuntime::new(),
            provenance: ProvenanceService::new(),
            wls: Vec::new(),
            log: BTreeMap::new(),
            provenance_only: Vec::new(),
            epoch: 0,
            checkpoints: BTreeMap::new(),
            intents_ingested: 0,
            commits: 0,
            next_child: 0,
        };

        let n_wl = rng.range_usize(1, 3);
        let prefab_at = if n_wl > 1 && rng.chance(1, 2) {
            Some(rng.range_usize(1, n_wl - 1))
        } else {
            None
        };
        for k in 0..n_wl {
            let (id, state, label) = if k == 0 {
                let state = WorldlineState::try_from(sim.engine.state().clone())
                    .expect("default worldline state");
                let id = WorldlineId::from_bytes(*sim.engine.root_key().warp_id.as_bytes());
                (id, state, "wl0".to_owned())
            } else {
                let label = format!("verif-observe-wl{k}");
                let state = WorldlineState::from_root_store(
                    base_store(Some(&label), rng.below(3)),
                    make_node_id("root"),
                )
                .expect("worldline state");
                (wl_id(&label), state, format!("wl{k}"))
            };
            let default_head = WriterHeadKey {
                worldline_id: id,
                head_id: make_head_id("default"),
            };
            sim.provenance
                .register_worldline(id, &state)
                .expect("register provenance worldline");
            let mut prefab = 0;
            let state = if prefab_at == Some(k) {
                prefab = rng.range(1, 3);
                sim.prefab_history(rng, id, default_head, state, prefab)
            } else {
                state
            };
            sim.runtime
                .register_worldline(id, state)
                .expect("register runtime worldline");
            let mut heads = vec![default_head];
            let policy = match rng.below(4) {
                0 => InboxPolicy::Budgeted {
                    max_per_tick: rng.range(1, 2) as u32,
                },
                _ => InboxPolicy::AcceptAll,
            };
            sim.runtime
                .register_writer_head(WriterHead::with_routing(
                    default_head,
                    PlaybackMode::Play,
                    policy,
                    None,
                    true,
                ))
                .expect("register default head");
            if rng.chance(1, 3) {
                let aux = WriterHeadKey {
                    worldline_id: id,
                    head_id: make_head_id("aux"),
                };
                sim.runtime
                    .register_writer_head(WriterHead::with_routing(
                        aux,
                        PlaybackMode::Play,
                        InboxPolicy::AcceptAll,
                        None,
                        false,
                    ))
                    .expect("register aux head");
                heads.push(aux);
            }
            sim.wls.push(WlInfo {
                id,
                label,
                heads,
                strand: None,
                parent: None,
                prefab,
            });
        }
        // Move the global tick past the prefab entries' stamps.
        if let Some(k) = prefab_at {
            for _ in 0..sim.wls[k].prefab {
                let _ = SchedulerCoordinator::super_tick(
                    &mut sim.runtime,
                    &mut sim.provenance,
                    &mut sim.engine,
                );
            }
        }
        sim
    }

    /// Appends `n` harness-built local commits (node upserts + recorded truth
    /// outputs) to provenance and returns the state replayed from them.
    fn prefab_history(
        &mut self,
        rng: &mut Rng,
        id: WorldlineId,
        head: WriterHeadKey,
        base: WorldlineState,
        n: u64,
    ) -> WorldlineState {
        let mut scratch = base.clone();
        let root = *base.root();
        let chans = channels();
        for i in 0..n {
            let node = NodeKey {
                warp_id: root.warp_id,
                local_id: make_node_id(&format!("verif-observe/prefab/{i}/{}", rng.below(1000))),
            };
            let edge_id = make_edge_id(&format!("verif-observe/prefab-edge/{i}"));
            let replay_patch = WarpTickPatchV1::new(
                warp_core::POLICY_ID_NO_POLICY_V0,
                warp_core::blake3_empty(),
                TickCommitStatus::Committed,
                vec![SlotId::Node(root)],
                vec![
                    SlotId::Node(node),
                    SlotId::Edge(EdgeKey {
                        warp_id: root.warp_id,
                        local_id: edge_id,
                    }),
                ],
                vec![
                    WarpOp::UpsertNode {
                        node,
                        record: NodeRecord {
                            ty: make_type_id("verif-observe/prefab"),
                        },
                    },
                    WarpOp::UpsertEdge {
                        warp_id: root.warp_id,
                        record: EdgeRecord {
                            id: edge_id,
                            from: root.local_id,
                            to: node.local_id,
                            ty: make_type_id("verif-observe/link"),
                        },
                    },
                ],
            );
            let gt = GlobalTick::from_raw(i + 1);
            let patch = WorldlineTickPatchV1 {
                header: WorldlineTickHeaderV1 {
                    commit_global_tick: gt,
                    policy_id: replay_patch.policy_id(),
                    rule_pack_id: replay_patch.rule_pack_id(),
                    plan_digest: warp_core::blake3_empty(),
                    decision_digest: warp_core::blake3_empty(),
                    rewrites_digest: warp_core::blake3_empty(),
                },
                warp_id: root.warp_id,
                ops: replay_patch.ops().to_vec(),
                in_slots: replay_patch.in_slots().to_vec(),
                out_slots: replay_patch.out_slots().to_vec(),
                patch_digest: replay_patch.digest(),
            };
            patch
                .apply_to_worldline_state(&mut scratch)
                .expect("apply prefab patch");
            let state_root = scratch.state_root();
            let parents: Vec<_> = self
                .provenance
                .tip_ref(id)
                .expect("tip")
                .into_iter()
                .collect();
            let parent_hashes: Vec<Hash> = parents.iter().map(|p| p.commit_hash).collect();
            let commit_hash = compute_commit_hash_v2(
                &state_root,
                &parent_hashes,
                &patch.patch_digest,
                patch.policy_id(),
            );
            // Recorded truth: a tick-dependent subset of channels in id order.
            let mut outputs: Vec<(ChannelId, Vec<u8>)> = Vec::new();
            for (ci, ch) in chans.iter().enumerate() {
                if rng.chance(2, 3) {
                    let mut data = format!("truth:{i}:{ci}:").into_bytes();
                    data.extend_from_slice(&{ let n = rng.range_usize(0, 24); rng.bytes(n) });
                    outputs.push((*ch, data));
                }
            }
            outputs.sort_by(|a, b| a.0.cmp(&b.0));
            let entry = ProvenanceEntry::local_commit(
                id,
                WorldlineTick::from_raw(i),
                gt,
                head,
                parents,
                HashTriplet {
                    state_root,
                    patch_digest: patch.patch_digest,
                    commit_hash,
                },
                patch,
                outputs.clone(),
                Vec::new(),
            );
            self.provenance
                .append_local_commit(entry)
                .expect("append prefab entry");
            self.log.insert(
                (id, i),
                CommitRec {
                    global_tick: gt,
                    live_state_root: live_state_root(&scratch),
                    step_state_root: state_root,
                    commit_hash,
                    outputs,
                    outputs_known: true,
                },
            );
            self.commits += 1;
        }
        self.provenance
            .replay_worldline_state(id, &base)
            .expect("replay prefab history")
    }

    pub fn frontier_len(&self, id: WorldlineId) -> u64 {
        self.runtime
            .worldlines()
            .get(&id)
            .map_or(0, |f| f.frontier_tick().as_u64())
    }

    /// Ingests 1–3 intents at random heads and runs one SuperTick; records
    /// every resulting commit from the live frontier.
    pub fn commit_round(&mut self, rng: &mut Rng) -> usize {
        let n = rng.range_usize(1, 3);
        for _ in 0..n {
            let wi = rng.below_usize(self.wls.len());
            let wl = &self.wls[wi];
            let target = if wl.heads.len() > 1 && rng.chance(1, 2) {
                IngressTarget::ExactHead {
                    key: *rng.pick(&wl.heads),
                }
            } else {
                IngressTarget::DefaultWriter {
                    worldline_id: wl.id,
                }
            };
            let mut payload = vec![rng.below(256) as u8];
            payload.extend_from_slice(&{ let n = rng.range_usize(1, 12); rng.bytes(n) });
            let kind = make_intent_kind(*rng.pick(&[
                "verif-observe/intent-a",
                "verif-observe/intent-b",
            ]));
            if self
                .runtime
                .ingest(IngressEnvelope::local_intent(target, kind, payload))
                .is_ok()
            {
                self.intents_ingested += 1;
            }
        }
        self.tick()
    }

    pub fn tick(&mut self) -> usize {
        let records = SchedulerCoordinator::super_tick(
            &mut self.runtime,
            &mut self.provenance,
            &mut self.engine,
        )
        .expect("super_tick on a lawful workload");
        self.epoch += 1;
        for r in &records {
            let id = r.head_key.worldline_id;
            let frontier = self
                .runtime
                .worldlines()
                .get(&id)
                .expect("frontier of a stepped head");
            let tick = r.worldline_tick_after.as_u64() - 1;
            // Several heads of one worldline may commit in the same pass; the
            // live root is only attributable to the last of them.
            let is_last = frontier.frontier_tick() == r.worldline_tick_after;
            let live = if is_last {
                live_state_root(frontier.state())
            } else {
                r.state_root
            };
            let outputs = if is_last {
                frontier
                    .state()
                    .last_materialization()
                    .iter()
                    .map(|c| (c.channel, c.data.clone()))
                    .collect()
            } else {
                Vec::new()
            };
            self.log.insert(
                (id, tick),
                CommitRec {
                    global_tick: r.commit_global_tick,
                    live_state_root: live,
                    step_state_root: r.state_root,
                    commit_hash: r.commit_hash,
                    outputs,
                    outputs_known: is_last,
                },
            );
            self.commits += 1;
        }
        records.len()
    }

    /// Forks a strand from a random committed coordinate; returns the child's
    /// index in `wls` on success.
    pub fn fork_strand(&mut self, rng: &mut Rng) -> Option<usize> {
        let candidates: Vec<usize> = (0..self.wls.len())
            .filter(|&i| self.frontier_len(self.wls[i].id) > 0)
            .collect();
        if candidates.is_empty() {
            return None;
        }
        let pi = *rng.pick(&candidates);
        let parent = self.wls[pi].clone();
        let len = self.frontier_len(parent.id);
        let fork_tick = rng.below(len);
        self.next_child += 1;
        let label = format!("{}-s{}", parent.label, self.next_child);
        let child_id = wl_id(&format!("strand-child:{label}"));
        let head = WriterHeadKey {
            worldline_id: child_id,
            head_id: make_head_id("strand-head"),
        };
        let strand_id = make_strand_id(&format!("verif-observe:{label}"));
        let req = ForkStrandRequest {
            strand_id,
            source_lane_id: parent.id,
            fork_tick: WorldlineTick::from_raw(fork_tick),
            child_worldline_id: child_id,
            writer_heads: vec![WriterHead::with_routing(
                head,
                PlaybackMode::Play,
                InboxPolicy::AcceptAll,
                None,
                true,
            )],
            retention_posture: retention_posture(),
        };
        match self.runtime.fork_strand(&mut self.provenance, req) {
            Ok(_) => {
                self.epoch += 1;
                for t in 0..=fork_tick {
                    if let Some(rec) = self.log.get(&(parent.id, t)).cloned() {
                        self.log.insert((child_id, t), rec);
                    }
                }
                self.wls.push(WlInfo {
                    id: child_id,
                    label,
                    heads: vec![head],
                    strand: Some(strand_id),
                    parent: Some(pi),
                    prefab: 0,
                });
                Some(self.wls.len() - 1)
            }
            Err(_) => None,
        }
    }

    /// Plain provenance fork (no runtime worldline): the new id stays unknown
    /// to the runtime, so observing it must yield a typed error.
    pub fn provenance_fork(&mut self, rng: &mut Rng) -> Option<WorldlineId> {
        let candidates: Vec<usize> = (0..self.wls.len())
            .filter(|&i| self.frontier_len(self.wls[i].id) > 0)
            .collect();
        if candidates.is_empty() {
            return None;
        }
        let pi = *rng.pick(&candidates);
        let parent = self.wls[pi].id;
        let fork_tick = rng.below(self.frontier_len(parent));
        self.next_child += 1;
        let new_id = wl_id(&format!("prov-fork:{}", self.next_child));
        if self
            .provenance
            .fork(parent, WorldlineTick::from_raw(fork_tick), new_id)
            .is_ok()
        {
            self.epoch += 1;
            self.provenance_only.push(new_id);
            Some(new_id)
        } else {
            None
        }
    }

    /// Checkpoints a random worldline's live frontier state into provenance.
    pub fn checkpoint(&mut self, rng: &mut Rng) -> bool {
        let wi = rng.below_usize(self.wls.len());
        let id = self.wls[wi].id;
        let Some(frontier) = self.runtime.worldlines().get(&id) else {
            return false;
        };
        let state = frontier.state().clone();
        if self.provenance.checkpoint(id, &state).is_ok() {
            self.epoch += 1;
            *self.checkpoints.entry(id).or_insert(0) += 1;
            true
        } else {
            false
        }
    }
}
