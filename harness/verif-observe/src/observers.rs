//! Harness-owned contract query observers, installed through the generated
//! contract *package* boundary (`Engine::register_contract_package`) so that
//! QueryView readings carry contract evidence and retained-evidence postures.
//!
//! The observers are pure functions of the context they are handed; what they
//! return makes the `resolved` coordinate Echo passed to them visible in the
//! payload, so the coordinate-binding oracle also covers the QueryView path.

use std::sync::atomic::{AtomicU64, Ordering};

use echo_registry_api::{
    ContractArtifactVerificationPolicy, EnumDef, ObjectDef, OpDef, OpKind, RegistryInfo,
    RegistryProvider,
};
use warp_core::{
    AuthoredObserverPlan, ContractPackageIdentity, ContractQueryObserver,
    ContractQueryObserverContext, ContractQueryObserverError, ContractQueryObserverResult, Engine,
    InstalledContractPackage, ObservationAt, ObserverPlanId, ResolvedObservationCoordinate,
};

pub const Q_DIGEST: u32 = 7101;
pub const Q_RESIDUAL: u32 = 7102;
pub const Q_STRICT: u32 = 7103;
pub const Q_UNINSTALLED: u32 = 7199;

const SCHEMA: &str = "c16c16c16c16c16c16c16c16c16c16c16c16c16c16c16c16c16c16c16c16c16c1";

/// Number of observer invocations in this process (evidence only).
pub static OBSERVER_CALLS: AtomicU64 = AtomicU64::new(0);

static OPS: &[OpDef] = &[
    OpDef {
        kind: OpKind::Query,
        name: "coordinateDigest",
        op_id: Q_DIGEST,
        args: &[],
        result_ty: "Bytes",
        directives_json: "{}",
        footprint_certificate: None,
    },
    OpDef {
        kind: OpKind::Query,
        name: "residualEcho",
        op_id: Q_RESIDUAL,
        args: &[],
        result_ty: "Bytes",
        directives_json: "{}",
        footprint_certificate: None,
    },
    OpDef {
        kind: OpKind::Query,
        name: "strictVars",
        op_id: Q_STRICT,
        args: &[],
        result_ty: "Bytes",
        directives_json: "{}",
        footprint_certificate: None,
    },
];

struct Registry;

impl RegistryProvider for Registry {
    fn info(&self) -> RegistryInfo {
        RegistryInfo {
            echo_abi_version: 1,
            codec_id: "cbor-canon-v1",
            registry_version: 1,
            schema_sha256_hex: SCHEMA,
            wesley_generator_version: "verif-observe/0",
            helper_api_version: 1,
        }
    }
    fn op_by_id(&self, op_id: u32) -> Option<&'static OpDef> {
        OPS.iter().find(|op| op.op_id == op_id)
    }
    fn all_ops(&self) -> &'static [OpDef] {
        OPS
    }
    fn all_enums(&self) -> &'static [EnumDef] {
        &[]
    }
    fn all_objects(&self) -> &'static [ObjectDef] {
        &[]
    }
}

pub fn plan(seed: u8) -> AuthoredObserverPlan {
    AuthoredObserverPlan {
        plan_id: ObserverPlanId::from_bytes([seed; 32]),
        artifact_hash: [seed.wrapping_add(1); 32],
        schema_hash: [seed.wrapping_add(2); 32],
        state_schema_hash: [seed.wrapping_add(3); 32],
        update_law_hash: [seed.wrapping_add(4); 32],
        emission_law_hash: [seed.wrapping_add(5); 32],
    }
}

/// Payload of the `coordinateDigest` observer for a given resolved coordinate.
/// The oracle recomputes this from the values the *harness* expects.
pub fn digest_payload(
    query_id: u32,
    vars: &[u8],
    resolved: &ResolvedObservationCoordinate,
) -> Vec<u8> {
    let mut out = Vec::new();
    out.extend_from_slice(&query_id.to_le_bytes());
    out.extend_from_slice(&(vars.len() as u32).to_le_bytes());
    out.extend_from_slice(vars);
    out.push(match resolved.requested_at {
        ObservationAt::Frontier => 0,
        ObservationAt::Tick(_) => 1,
    });
    out.extend_from_slice(resolved.worldline_id.as_bytes());
    out.extend_from_slice(&resolved.resolved_worldline_tick.as_u64().to_le_bytes());
    out.extend_from_slice(
        &resolved
            .commit_global_tick
            .map_or(u64::MAX, |t| t.as_u64())
            .to_le_bytes(),
    );
    out.extend_from_slice(&resolved.state_root);
    out.extend_from_slice(&resolved.commit_hash);
    out
}

fn obs_digest(
    ctx: ContractQueryObserverContext<'_>,
) -> Result<ContractQueryObserverResult, ContractQueryObserverError> {
    OBSERVER_CALLS.fetch_add(1, Ordering::Relaxed);
    // Immutable borrows only: `ctx.runtime` / `ctx.provenance` are `&` and the
    // observer merely reads through them.
    let _ = ctx.runtime.global_tick();
    let _ = ctx.provenance.tip_ref(ctx.resolved.worldline_id);
    Ok(ContractQueryObserverResult::complete(digest_payload(
        ctx.query_id,
        ctx.vars_bytes,
        ctx.resolved,
    )))
}

fn obs_residual(
    ctx: ContractQueryObserverContext<'_>,
) -> Result<ContractQueryObserverResult, ContractQueryObserverError> {
    OBSERVER_CALLS.fetch_add(1, Ordering::Relaxed);
    let mut bytes = b"residual:".to_vec();
    bytes.extend_from_slice(ctx.vars_bytes);
    bytes.extend_from_slice(&ctx.resolved.state_root);
    Ok(ContractQueryObserverResult::residual(bytes))
}

fn obs_strict(
    ctx: ContractQueryObserverContext<'_>,
) -> Result<ContractQueryObserverResult, ContractQueryObserverError> {
    OBSERVER_CALLS.fetch_add(1, Ordering::Relaxed);
    if !ctx.vars_bytes.starts_with(b"ok") {
        return Err(ContractQueryObserverError::invalid_vars(
            ctx.query_id,
            "vars must start with 'ok'",
        ));
    }
    Ok(ContractQueryObserverResult::complete(
        ctx.resolved.commit_hash.to_vec(),
    ))
}

pub fn install(engine: &mut Engine) {
    static REGISTRY: Registry = Registry;
    let package = InstalledContractPackage {
        identity: ContractPackageIdentity {
            package_name: "verif-observe-queries",
            package_version: "0.0.0",
            artifact_hash_hex: "c1c1c1c1c1c1c1c1c1c1c1c1c1c1c1c1c1c1c1c1c1c1c1c1c1c1c1c1c1c1c1c1",
        },
        registry: &REGISTRY,
        verification_policy: ContractArtifactVerificationPolicy {
            echo_abi_version: 1,
            codec_id: "cbor-canon-v1",
            registry_version: 1,
            schema_sha256_hex: SCHEMA,
            wesley_generator_version: "verif-observe/0",
            helper_api_version: 1,
            footprint_certificates: &[],
            require_mutation_footprint_certificates: false,
        },
        mutation_handlers: vec![],
        inverse_handlers: vec![],
        query_observers: vec![
            ContractQueryObserver::new(Q_DIGEST, plan(0x10), obs_digest),
            ContractQueryObserver::new(Q_RESIDUAL, plan(0x20), obs_residual),
            ContractQueryObserver::new(Q_STRICT, plan(0x30), obs_strict),
        ],
    };
    if let Err(e) = engine.register_contract_package(package) {
        panic!("harness contract package must install: {e:?}");
    }
}
