//! `warp_wasm::observe_cbor` lane: the same monitors through the byte-level
//! boundary of the natively linked `warp-wasm` kernel (single default
//! worldline, thread-local kernel).
//!
//! The kernel's runtime/provenance/engine are private to `warp-wasm`
//! (`mod warp_kernel` is not exported), so the read-only half can only be
//! observed through the boundary itself here (frontier head bytes and
//! scheduler-visible registry info before/after each read); the fingerprint
//! monitor proper runs in the `ObservationService` lane.

use std::collections::BTreeMap;

use echo_wasm_abi::kernel_port::{
    self as abi, ControlIntentV1, ErrEnvelope, OkEnvelope, SchedulerMode,
};
use verif_core::{h64, json, Args, Budget, Report, Rng};

#[derive(Clone, Debug, PartialEq, Eq)]
struct HeadRec {
    tick: u64,
    gt: Option<u64>,
    root: Vec<u8>,
    commit: Vec<u8>,
}

fn request(
    w: &abi::WorldlineId,
    at: abi::ObservationAt,
    frame: abi::ObservationFrame,
    projection: abi::ObservationProjection,
) -> Vec<u8> {
    use abi::BuiltinObserverPlan as B;
    let plan = match &projection {
        abi::ObservationProjection::Head => B::CommitBoundaryHead,
        abi::ObservationProjection::Snapshot => B::CommitBoundarySnapshot,
        abi::ObservationProjection::TruthChannels { .. } => B::RecordedTruthChannels,
        abi::ObservationProjection::Query { .. } => B::QueryBytes,
    };
    let req = abi::ObservationRequest {
        coordinate: abi::ObservationCoordinate {
            worldline_id: w.clone(),
            at,
        },
        frame,
        projection,
        observer_plan: abi::ReadingObserverPlan::Builtin { plan },
        observer_instance: None,
        budget: abi::ObservationReadBudget::UnboundedOneShot,
        rights: abi::ObservationRights::KernelPublic,
    };
    echo_wasm_abi::encode_cbor(&req).expect("encode abi request")
}

fn decode(bytes: &[u8]) -> Result<abi::ObservationArtifact, ErrEnvelope> {
    match echo_wasm_abi::decode_cbor::<OkEnvelope<abi::ObservationArtifact>>(bytes) {
        Ok(env) => Ok(env.data),
        Err(_) => Err(echo_wasm_abi::decode_cbor::<ErrEnvelope>(bytes)
            .unwrap_or_else(|e| ErrEnvelope::new(u32::MAX, format!("undecodable envelope: {e}")))),
    }
}

fn head_of(a: &abi::ObservationArtifact) -> HeadRec {
    HeadRec {
        tick: a.resolved.resolved_worldline_tick.0,
        gt: a.resolved.commit_global_tick.map(|g| g.0),
        root: a.resolved.state_root.clone(),
        commit: a.resolved.commit_hash.clone(),
    }
}

struct Lane<'a> {
    rep: &'a mut Report,
    seed: u64,
    case: u64,
    verbose: bool,
    w: abi::WorldlineId,
    divergences: u64,
}

impl<'a> Lane<'a> {
    fn violation(&mut self, sig: &str, what: String) {
        self.divergences += 1;
        if self.verbose {
            println!("REPLAY divergence [{sig}]: {what}");
        }
        self.rep.violation(
            sig,
            &what,
            json!({"seed": self.seed as i64, "case": self.case as i64, "lane": "wasm"}),
        );
    }

    fn frontier_bytes(&self) -> Vec<u8> {
        warp_wasm::observe_cbor(&request(
            &self.w,
            abi::ObservationAt::Frontier,
            abi::ObservationFrame::CommitBoundary,
            abi::ObservationProjection::Head,
        ))
    }

    /// One read through the byte boundary, twice, with the boundary-visible
    /// state compared before/after.
    fn read(&mut self, req: &[u8], what: &str) -> Result<abi::ObservationArtifact, ErrEnvelope> {
        let before = (self.frontier_bytes(), warp_wasm::get_registry_info_cbor());
        let r1 = warp_wasm::observe_cbor(req);
        let r2 = warp_wasm::observe_cbor(req);
        let after = (self.frontier_bytes(), warp_wasm::get_registry_info_cbor());
        self.rep.count("wasm_reads", 2);
        if r1 != r2 {
            self.violation(
                "C16:observe-cbor:determinism:identical-requests-differ",
                format!("two identical observe_cbor calls returned different bytes for {what}"),
            );
        }
        if before != after {
            self.violation(
                "C16:observe-cbor:read-only:frontier-changed-across-read",
                format!("the frontier head (as seen through observe_cbor) changed across a read of {what}"),
            );
        }
        decode(&r1)
    }
}

/// Runs one wasm-lane case; returns the number of divergences.
pub fn run_case(rep: &mut Report, seed: u64, case: u64, verbose: bool) -> u64 {
    let mut rng = Rng::for_case(seed, "C16-wasm", case);
    let handle = match warp_wasm::init_embedded() {
        Ok(h) => h,
        Err(e) => {
            rep.inconclusive(&format!("warp_wasm::init_embedded failed: {e:?}"));
            return 0;
        }
    };
    let mut lane = Lane {
        rep,
        seed,
        case,
        verbose,
        w: handle.worldline_id.clone(),
        divergences: 0,
    };
    let mut log: BTreeMap<u64, HeadRec> = BTreeMap::new();
    let mut remembered: Vec<(Vec<u8>, HeadRec, abi::ObservationPayload, String)> = Vec::new();
    let mut n = 0u64;
    let tick_at = |t: u64| abi::ObservationAt::Tick {
        worldline_tick: abi::WorldlineTick(t),
    };

    let phases = rng.range(2, 4);
    for phase in 0..phases {
        // ---- mutate: dispatch + run, recording each commit from the frontier --
        for _ in 0..rng.range(1, 3) {
            for _ in 0..rng.range(1, 2) {
                let op = rng.range(1, 900) as u32;
                if let Ok(bytes) = echo_wasm_abi::pack_intent_v1(op, &{ let n = rng.range_usize(1, 16); rng.bytes(n) }) {
                    let _ = warp_wasm::dispatch_intent_cbor(&bytes);
                }
            }
            let start = echo_wasm_abi::pack_control_intent_v1(&ControlIntentV1::Start {
                mode: SchedulerMode::UntilIdle {
                    cycle_limit: Some(1),
                },
            })
            .expect("pack control intent");
            let _ = warp_wasm::dispatch_control_intent_trusted_cbor(&start);
            if let Ok(a) = decode(&lane.frontier_bytes()) {
                let h = head_of(&a);
                if h.tick == n + 1 {
                    log.insert(n, HeadRec { tick: n, ..h });
                    n += 1;
                } else if h.tick != n {
                    lane.rep.inconclusive("wasm lane: frontier advanced by more than one commit per run");
                    return lane.divergences;
                }
            }
        }
        lane.rep.count("wasm_commits", n);

        // ---- stability: re-ask what was answered in earlier phases ------------
        for (req, was, payload, what) in remembered.clone() {
            match lane.read(&req, &what) {
                Ok(a) => {
                    lane.rep.count("wasm_repeats_after_later_commits", 1);
                    if head_of(&a) != was || a.payload != payload {
                        lane.violation(
                            "C16:observe-cbor:stability:reading-changed-after-later-commits",
                            format!("{what}: {was:?} before, {:?} after further commits", head_of(&a)),
                        );
                    }
                }
                Err(e) => lane.violation(
                    "C16:observe-cbor:stability:reading-became-error-after-later-commits",
                    format!("{what}: now fails with code {} ({})", e.code, e.message),
                ),
            }
        }

        // ---- matrix -------------------------------------------------------------
        let mut coords: Vec<(String, abi::ObservationAt, Option<u64>)> =
            vec![("frontier".into(), abi::ObservationAt::Frontier, None)];
        if n > 0 {
            coords.push(("tick0".into(), tick_at(0), Some(0)));
            coords.push(("tick-last".into(), tick_at(n - 1), Some(n - 1)));
            if n > 2 {
                let m = rng.range(1, n - 2);
                coords.push(("tick-mid".into(), tick_at(m), Some(m)));
            }
        }
        coords.push(("first-future".into(), tick_at(n), Some(n)));
        coords.push(("far-future".into(), tick_at(n + rng.range(1, 9)), Some(u64::MAX)));
        for (cname, at, tick) in coords {
            let projs = vec![
                (abi::ObservationFrame::CommitBoundary, abi::ObservationProjection::Head),
                (abi::ObservationFrame::CommitBoundary, abi::ObservationProjection::Snapshot),
                (
                    abi::ObservationFrame::RecordedTruth,
                    abi::ObservationProjection::TruthChannels { channels: None },
                ),
                (
                    abi::ObservationFrame::QueryView,
                    abi::ObservationProjection::Query {
                        query_id: 7101,
                        vars_bytes: rng.bytes(3),
                    },
                ),
                // invalid pairings
                (abi::ObservationFrame::RecordedTruth, abi::ObservationProjection::Head),
                (
                    abi::ObservationFrame::CommitBoundary,
                    abi::ObservationProjection::TruthChannels { channels: None },
                ),
            ];
            for (frame, proj) in projs {
                let what = format!("{cname} {frame:?} {proj:?}");
                let req = request(&lane.w, at.clone(), frame.clone(), proj.clone());
                let res = lane.read(&req, &what);
                lane.rep.count(&format!("wasm.req.{cname}"), 1);
                let future = tick.is_some_and(|t| t >= n);
                match res {
                    Err(e) => {
                        lane.rep.count(&format!("wasm.errors.code{}", e.code), 1);
                        if future {
                            lane.rep.count("wasm_unavailable_history_typed_errors", 1);
                        }
                    }
                    Ok(a) => {
                        lane.rep.count("wasm_readings", 1);
                        if future {
                            lane.violation(
                                "C16:observe-cbor:future-tick:reading-instead-of-typed-error",
                                format!("{what}: {n} commits exist but a reading at tick {} was returned", a.resolved.resolved_worldline_tick.0),
                            );
                            continue;
                        }
                        let got = head_of(&a);
                        let truth_frontier = matches!(frame, abi::ObservationFrame::RecordedTruth)
                            && matches!(at, abi::ObservationAt::Frontier);
                        let want = match (tick, truth_frontier) {
                            (Some(t), _) => log.get(&t).cloned(),
                            (None, true) => n.checked_sub(1).and_then(|t| log.get(&t).cloned()),
                            (None, false) => n.checked_sub(1).and_then(|t| log.get(&t).cloned()).map(|h| HeadRec { tick: n, ..h }),
                        };
                        if let Some(want) = want {
                            lane.rep.count("wasm_readings_compared_with_commit_log", 1);
                            if got != want {
                                lane.violation(
                                    &format!(
                                        "C16:observe-cbor:{}:reading-differs-from-state-recorded-at-commit-time",
                                        if tick.is_some() { "tick" } else { "frontier" }
                                    ),
                                    format!("{what}: got {got:?}, recorded at commit time {want:?}"),
                                );
                            }
                        }
                        if tick.is_some() && remembered.len() < 64 {
                            remembered.push((req, got, a.payload.clone(), what));
                        }
                    }
                }
            }
        }
        // unknown worldline
        let unknown = abi::WorldlineId::from_bytes(rng.hash32());
        for at in [abi::ObservationAt::Frontier, tick_at(0)] {
            let req = request(
                &unknown,
                at,
                abi::ObservationFrame::CommitBoundary,
                abi::ObservationProjection::Head,
            );
            match lane.read(&req, "unknown worldline") {
                Ok(_) => lane.violation(
                    "C16:observe-cbor:unknown-worldline:reading-instead-of-typed-error",
                    "an unregistered worldline was answered with a reading".into(),
                ),
                Err(e) => {
                    lane.rep.count("wasm_unavailable_history_typed_errors", 1);
                    lane.rep.count(&format!("wasm.errors.code{}", e.code), 1);
                }
            }
        }
        // malformed request bytes must be a typed error too
        let mut junk = request(
            &lane.w,
            abi::ObservationAt::Frontier,
            abi::ObservationFrame::CommitBoundary,
            abi::ObservationProjection::Head,
        );
        junk.truncate(junk.len() / 2);
        if decode(&warp_wasm::observe_cbor(&junk)).is_ok() {
            lane.violation(
                "C16:observe-cbor:malformed-request:reading-instead-of-typed-error",
                "a truncated request was answered with a reading".into(),
            );
        }
        let _ = phase;
    }
    // Counted separately: the distinct-nontrivial floor of the run is about the
    // ObservationService lane only.
    if n >= 2 {
        lane.rep.count("wasm_cases_with_two_or_more_commits", 1);
        lane.rep
            .observe("wasm_history_digests_sample", &format!("{:016x}", h64(format!("{log:?}").as_bytes())));
    }
    lane.divergences
}

pub fn run(rep: &mut Report, args: &Args, parent: &Budget) {
    let _ = parent;
    // A fixed small slice; `VERIF_BUDGET_S` (used for smoke runs) scales it down.
    let secs: f64 = std::env::var("VERIF_BUDGET_S")
        .ok()
        .and_then(|v| v.parse::<f64>().ok())
        .map_or(args.by_tier(6.0, 60.0), |b| (b / 6.0).clamp(1.0, 60.0));
    let budget = Budget::new(secs);
    let n_shards = args.jobs.max(1);
    let seed = args.seed;
    let max_cases = args.by_tier(4_000u64, 100_000u64);
    verif_core::run_shards(rep, args.jobs, n_shards, |shard, rep| {
        let mut case = shard as u64;
        while !budget.expired() && case < max_cases {
            run_case(rep, seed, case, false);
            rep.count("wasm_cases", 1);
            case += n_shards as u64;
        }
    });
}
