//! C16 — observation is read-only and bound to its coordinate.
//!
//! Monitors (DESIGN §3 C16):
//!  * read-only     — fingerprint(runtime, provenance, engine) unchanged across every read;
//!  * determinism   — the same request twice on the same history ⇒ equal results, and the
//!                    whole case executed twice from scratch ⇒ equal transcripts;
//!  * binding       — a reading at `Tick(t)` equals (a) what the harness recorded from the
//!                    live frontier when commit `t` happened and (b) the state replayed by
//!                    `ProvenanceService::replay_worldline_state_at(t+1)`; `Frontier` equals
//!                    the live frontier;
//!  * stability     — the same historical request re-asked after further commits / forks /
//!                    checkpoints returns the same payload, resolved tick, commit tick,
//!                    state root, commit hash (G3: not `observed_after_global_tick`, not
//!                    `artifact_hash`; G4: not the strand parent-basis posture);
//!  * unavailable   — future tick / unknown worldline / foreign provenance coordinate ⇒
//!                    typed error or obstruction, never a reading.

use std::collections::{BTreeMap, HashMap};

use verif_core::{h64, json, Args, Budget, Report, Rng, Value};
use warp_core::materialization::ChannelId;
use warp_core::{
    AttachmentDescentPolicy, AttachmentKey, CoordinateAt, EchoCoordinate, GlobalTick, Hash,
    NodeKey, ObservationArtifact, ObservationAt, ObservationCoordinate, ObservationError,
    ObservationFrame, ObservationPayload, ObservationProjection, ObservationReadBudget,
    ObservationRequest, ObservationRights, ObservationService, ObserveOpticRequest,
    ObserveOpticResult, ObserverInstanceId, ObserverInstanceRef, ObserverPlanId, OpticAperture,
    OpticApertureShape, OpticCapabilityId, OpticFocus, OpticId, OpticReadBudget,
    ProjectionVersion, ProvenanceRef, ReadingObserverPlan, ReadingResidualPosture,
    ReadingWitnessRef, ResolvedObservationCoordinate, WitnessBasis, WorldlineId, WorldlineTick,
};

use crate::fp::{fingerprint, Fingerprint};
use crate::observers::{self, Q_DIGEST, Q_RESIDUAL, Q_STRICT, Q_UNINSTALLED};
use crate::world::{channels, live_state_root, Sim};

const FP_WINDOW: usize = 6;

const RULE: &str = "case = generated runtime (1-3 worldlines, 1-2 heads, optional harness-built prefix with \
recorded truth outputs) driven by SuperTicks with a history-folding native rule, interleaved with strand \
forks, provenance forks and checkpoints; the request matrix (frontier/tick0/mid/last/first-future/far-future \
coordinates, unknown worldlines, every frame x projection incl. invalid pairings, contract query observers, \
request budget/rights/plan/instance variants, optic apertures/budgets/provenance coordinates) is issued \
before and after further mutations. A case is distinct by the digest of its commit history + transcript and \
non-trivial when it compared >=1 historical reading with replay, re-asked >=1 historical request after later \
commits, saw >=1 typed error for unavailable history, and its history contains >=1 commit whose state root differs from its predecessor's.";

// ---------------------------------------------------------------------------
// Per-case context
// ---------------------------------------------------------------------------

#[derive(Clone, Copy, Debug, PartialEq, Eq)]
enum Coord {
    Frontier,
    Tick0,
    TickMid,
    TickLast,
    FirstFuture,
    FarFuture,
    MaxTick,
    UnknownWl,
}

impl Coord {
    fn name(self) -> &'static str {
        match self {
            Self::Frontier => "frontier",
            Self::Tick0 => "tick0",
            Self::TickMid => "tick-mid",
            Self::TickLast => "tick-last",
            Self::FirstFuture => "first-future",
            Self::FarFuture => "far-future",
            Self::MaxTick => "tick-max",
            Self::UnknownWl => "unknown-worldline",
        }
    }
}

fn frame_name(f: ObservationFrame) -> &'static str {
    match f {
        ObservationFrame::CommitBoundary => "commit-boundary",
        ObservationFrame::RecordedTruth => "recorded-truth",
        ObservationFrame::QueryView => "query-view",
    }
}

fn proj_name(p: &ObservationProjection) -> &'static str {
    match p {
        ObservationProjection::Head => "head",
        ObservationProjection::Snapshot => "snapshot",
        ObservationProjection::TruthChannels { channels: None } => "truth-all",
        ObservationProjection::TruthChannels { channels: Some(_) } => "truth-filtered",
        ObservationProjection::Query { .. } => "query",
    }
}

fn err_name(e: &ObservationError) -> &'static str {
    match e {
        ObservationError::InvalidWorldline(_) => "InvalidWorldline",
        ObservationError::InvalidTick { .. } => "InvalidTick",
        ObservationError::UnsupportedFrameProjection { .. } => "UnsupportedFrameProjection",
        ObservationError::UnsupportedQuery { .. } => "UnsupportedQuery",
        ObservationError::ContractQueryObserverFailed { .. } => "ContractQueryObserverFailed",
        ObservationError::UnsupportedObserverPlan(_) => "UnsupportedObserverPlan",
        ObservationError::UnsupportedObserverInstance(_) => "UnsupportedObserverInstance",
        ObservationError::UnsupportedRights(_) => "UnsupportedRights",
        ObservationError::BudgetExceeded { .. } => "BudgetExceeded",
        ObservationError::ObservationUnavailable { .. } => "ObservationUnavailable",
        ObservationError::CodecFailure(_) => "CodecFailure",
    }
}

fn valid_pair(frame: ObservationFrame, p: &ObservationProjection) -> bool {
    matches!(
        (frame, p),
        (
            ObservationFrame::CommitBoundary,
            ObservationProjection::Head | ObservationProjection::Snapshot
        ) | (
            ObservationFrame::RecordedTruth,
            ObservationProjection::TruthChannels { .. }
        ) | (
            ObservationFrame::QueryView,
            ObservationProjection::Query { .. }
        )
    )
}

/// What the harness expects a reading at some coordinate to be bound to.
#[derive(Clone, Debug)]
struct Expect {
    tick: u64,
    gt: Option<GlobalTick>,
    /// From the harness' commit log / live frontier.
    root: Hash,
    /// `None` only for the empty U0 frontier (no commit to name).
    commit: Option<Hash>,
    /// Root/commit recomputed from `replay_worldline_state_at` (historical only).
    replay: Option<(Hash, Option<Hash>)>,
    /// Recorded truth outputs if the harness knows them.
    outputs: Option<Vec<(ChannelId, Vec<u8>)>>,
    /// Tick of the provenance entry that witnesses the reading.
    witness_tick: Option<u64>,
}

#[derive(Clone, Debug, PartialEq, Eq)]
struct StableObs {
    payload: ObservationPayload,
    tick: u64,
    gt: Option<GlobalTick>,
    root: Hash,
    commit: Hash,
    witness: Vec<ReadingWitnessRef>,
    residual: ReadingResidualPosture,
}

#[derive(Clone, Debug, PartialEq, Eq)]
struct StableOptic {
    payload: ObservationPayload,
    witness: Vec<ReadingWitnessRef>,
    coordinate: EchoCoordinate,
    aperture_digest: Hash,
    focus_digest: Hash,
}

enum Remembered {
    Obs {
        req: ObservationRequest,
        was: StableObs,
    },
    Optic {
        req: ObserveOpticRequest,
        was: StableOptic,
        basis: WitnessBasis,
        wl: WorldlineId,
        checkpoints_then: u64,
    },
}

#[derive(Default, Debug, Clone)]
pub struct CaseStats {
    pub reads: u64,
    pub readings: u64,
    pub typed_errors: u64,
    pub historical_vs_replay: u64,
    pub historical_vs_commit_log: u64,
    pub frontier_vs_live: u64,
    pub truth_payloads_nonempty: u64,
    pub query_payloads_checked: u64,
    pub repeats_after_mutation: u64,
    pub unavailable_typed: u64,
    pub fingerprints: u64,
    pub reads_bracketed: u64,
    pub reads_bracketed_alone: u64,
    pub fp_bytes: u64,
    pub determinism_pairs: u64,
    pub optic_reads: u64,
    pub optic_readings: u64,
    pub optic_obstructions: u64,
    pub strand_children: u64,
    pub commits: u64,
    pub checkpoints: u64,
    pub commits_moving_state_root: u64,
}

pub struct Ctx<'a> {
    rep: &'a mut Report,
    quiet: bool,
    verbose: bool,
    seed: u64,
    case: u64,
    pub transcript: Vec<u64>,
    pub stats: CaseStats,
    last_fp: Option<Fingerprint>,
    replay_cache: HashMap<(WorldlineId, u64, u64), Option<(Hash, Option<Hash>)>>,
    hash_to_content: HashMap<Hash, u64>,
    content_to_hash: HashMap<u64, Hash>,
    remembered: Vec<Remembered>,
    violations: u64,
    /// Wall-clock budget of the run: a case stops issuing new requests once it
    /// expires (what was checked until then stays checked).
    deadline: Option<Budget>,
    incomplete: bool,
    window: Vec<String>,
    seen_kinds: std::collections::HashSet<u64>,
}

impl<'a> Ctx<'a> {
    fn violation(&mut self, sig: &str, what: String, detail: Value) {
        if self.rep.is_known(sig) {
            if self.verbose {
                println!("REPLAY known-finding hit [{sig}]: {what}");
            }
        } else {
            self.violations += 1;
            if self.verbose {
                println!("REPLAY divergence [{sig}]: {what}");
            }
        }
        if self.quiet {
            return;
        }
        // A registered finding is reported once per run by the fixed minimal
        // probe on the main thread (one KNOWN-FINDING line); matrix hits of
        // exactly that signature are only counted, so 32 shard reports do not
        // each print the same line. Any other signature is reported in full.
        if self.rep.is_known(sig) {
            self.rep.count("known_finding_matrix_hits", 1);
            return;
        }
        self.rep.violation(
            sig,
            &what,
            json!({"seed": self.seed as i64, "case": self.case as i64, "detail": detail}),
        );
    }

    fn out_of_time(&mut self) -> bool {
        if self.deadline.is_some_and(|b| b.expired()) {
            self.incomplete = true;
            true
        } else {
            false
        }
    }

    fn count(&mut self, key: &str) {
        if !self.quiet {
            self.rep.count(key, 1);
        }
    }

    /// Read-only monitor: called after every read.
    ///
    /// A *full* fingerprint (every field of runtime + provenance + engine) is
    /// taken immediately after a read whenever that read is the first of its
    /// kind in this case (entry point x frame x projection x coordinate kind x
    /// outcome), and otherwise at least after every `FP_WINDOW` reads and at the
    /// end of every pass — so every read lies between two compared
    /// fingerprints, and every distinct code path is bracketed on its own.
    fn check_fp(&mut self, sim: &Sim, path: &str, kind: &str, what: &dyn Fn() -> String) {
        self.window.push(kind.to_owned());
        let first_of_kind = self.seen_kinds.insert(h64(kind.as_bytes()));
        if first_of_kind || self.window.len() >= FP_WINDOW {
            self.full_fp(sim, path, what);
        }
    }

    /// Before the first read of a request kind: close the current window so that
    /// this read gets bracketed on its own.
    fn pre_fp(&mut self, sim: &Sim, path: &str, pre_kind: &str) {
        if self.seen_kinds.insert(h64(format!("pre:{pre_kind}").as_bytes())) {
            self.full_fp(sim, path, &|| format!("reads before the first {pre_kind}"));
        }
    }

    fn full_fp(&mut self, sim: &Sim, path: &str, what: &dyn Fn() -> String) {
        if self.window.is_empty() {
            return;
        }
        let now = fingerprint(&sim.runtime, &sim.provenance, &sim.engine);
        self.stats.fingerprints += 1;
        self.stats.fp_bytes += now.bytes;
        if self.window.len() == 1 {
            self.stats.reads_bracketed_alone += 1;
        }
        self.stats.reads_bracketed += self.window.len() as u64;
        if let Some(before) = &self.last_fp {
            if *before != now {
                let comps = before.diff(&now).join("+");
                let n = self.window.len();
                let kinds = self.window.join(", ");
                self.violation(
                    &format!("C16:{path}:read-only:{comps}-fingerprint-changed"),
                    format!(
                        "serving {n} read(s) [{kinds}] changed the {comps} fingerprint; last request: {}",
                        what()
                    ),
                    json!({"last_request": what(), "components": comps, "reads_in_window": kinds}),
                );
            }
        }
        self.window.clear();
        self.last_fp = Some(now);
    }

    /// New baseline after the harness itself mutated the runtime (not compared).
    fn rebaseline(&mut self, sim: &Sim) {
        debug_assert!(self.window.is_empty(), "reads left unbracketed before a mutation");
        self.window.clear();
        self.last_fp = Some(fingerprint(&sim.runtime, &sim.provenance, &sim.engine));
    }

    /// Replays `(w, t)` (state after commit `t`) through provenance.
    fn replay(&mut self, sim: &Sim, w: WorldlineId, t: u64) -> Option<(Hash, Option<Hash>)> {
        let key = (w, t, sim.epoch);
        if let Some(v) = self.replay_cache.get(&key) {
            return *v;
        }
        let out = sim.runtime.worldlines().get(&w).and_then(|frontier| {
            // G(2): `Tick(t)` names provenance entry t = the state AFTER commit t,
            // i.e. cursor coordinate t+1 of `replay_worldline_state_at`.
            sim.provenance
                .replay_worldline_state_at(w, frontier.state(), WorldlineTick::from_raw(t + 1))
                .ok()
                .map(|st| (live_state_root(&st), st.last_snapshot().map(|s| s.hash)))
        });
        self.replay_cache.insert(key, out);
        out
    }

    fn expect_tick(&mut self, sim: &Sim, w: WorldlineId, t: u64) -> Option<Expect> {
        let rec = sim.log.get(&(w, t))?.clone();
        let replay = self.replay(sim, w, t);
        Some(Expect {
            tick: t,
            gt: Some(rec.global_tick),
            root: rec.live_state_root,
            commit: Some(rec.commit_hash),
            replay,
            outputs: rec.outputs_known.then_some(rec.outputs),
            witness_tick: Some(t),
        })
    }

    fn expect_frontier(&self, sim: &Sim, w: WorldlineId) -> Option<Expect> {
        let frontier = sim.runtime.worldlines().get(&w)?;
        let n = frontier.frontier_tick().as_u64();
        let last = n.checked_sub(1).and_then(|t| sim.log.get(&(w, t)));
        Some(Expect {
            tick: n,
            gt: last.map(|r| r.global_tick),
            root: live_state_root(frontier.state()),
            commit: last.map(|r| r.commit_hash),
            replay: None,
            outputs: None,
            witness_tick: n.checked_sub(1),
        })
    }
}

// ---------------------------------------------------------------------------
// Request matrix
// ---------------------------------------------------------------------------

struct Meta {
    coord: Coord,
    wl: WorldlineId,
    known: bool,
    n: u64,
    plain: bool,
    strand_child: bool,
}

fn projections(rng: &mut Rng) -> Vec<ObservationProjection> {
    let chans = channels();
    let mut filter: Vec<ChannelId> = chans
        .iter()
        .copied()
        .filter(|_| rng.chance(1, 2))
        .collect();
    if rng.chance(1, 4) {
        filter.push(warp_core::materialization::make_channel_id(
            "verif-observe:absent",
        ));
    }
    let vars = { let n = rng.range_usize(0, 9); rng.bytes(n) };
    let mut ok_vars = b"ok".to_vec();
    ok_vars.extend_from_slice(&{ let n = rng.range_usize(0, 4); rng.bytes(n) });
    vec![
        ObservationProjection::Head,
        ObservationProjection::Snapshot,
        ObservationProjection::TruthChannels { channels: None },
        ObservationProjection::TruthChannels {
            channels: Some(filter),
        },
        ObservationProjection::Query {
            query_id: Q_DIGEST,
            vars_bytes: vars.clone(),
        },
        ObservationProjection::Query {
            query_id: Q_RESIDUAL,
            vars_bytes: vars.clone(),
        },
        ObservationProjection::Query {
            query_id: Q_STRICT,
            vars_bytes: if rng.chance(2, 3) { ok_vars } else { vars.clone() },
        },
        ObservationProjection::Query {
            query_id: Q_UNINSTALLED,
            vars_bytes: vars,
        },
    ]
}

const FRAMES: [ObservationFrame; 3] = [
    ObservationFrame::CommitBoundary,
    ObservationFrame::RecordedTruth,
    ObservationFrame::QueryView,
];

fn builtin_plan_for(frame: ObservationFrame, p: &ObservationProjection) -> ReadingObserverPlan {
    use warp_core::BuiltinObserverPlan as B;
    let plan = match (frame, p) {
        (_, ObservationProjection::Head) => B::CommitBoundaryHead,
        (_, ObservationProjection::Snapshot) => B::CommitBoundarySnapshot,
        (_, ObservationProjection::TruthChannels { .. }) => B::RecordedTruthChannels,
        (_, ObservationProjection::Query { .. }) => B::QueryBytes,
    };
    ReadingObserverPlan::Builtin { plan }
}

/// Builds the request (valid or not) directly — `builtin_one_shot` would
/// refuse to construct invalid pairings, and those are part of the matrix.
fn make_request(
    rng: &mut Rng,
    w: WorldlineId,
    at: ObservationAt,
    frame: ObservationFrame,
    projection: ObservationProjection,
    vary: bool,
) -> (ObservationRequest, bool) {
    let mut req = ObservationRequest {
        coordinate: ObservationCoordinate {
            worldline_id: w,
            at,
        },
        frame,
        observer_plan: builtin_plan_for(frame, &projection),
        projection,
        observer_instance: None,
        budget: ObservationReadBudget::UnboundedOneShot,
        rights: ObservationRights::KernelPublic,
    };
    let mut plain = true;
    if vary {
        match rng.below(8) {
            0 => {
                req.budget = ObservationReadBudget::Bounded {
                    max_payload_bytes: *rng.pick(&[0u64, 16, 4096, u64::MAX]),
                    max_witness_refs: *rng.pick(&[0u64, 1, 8]),
                };
                plain = false;
            }
            1 => {
                req.rights = ObservationRights::CapabilityScoped {
                    capability: OpticCapabilityId::from_bytes([0x7c; 32]),
                };
                plain = false;
            }
            2 => {
                req.observer_plan = ReadingObserverPlan::Authored {
                    plan: Box::new(observers::plan(*rng.pick(&[0x10u8, 0x20, 0x30, 0x44]))),
                };
                plain = false;
            }
            3 => {
                req.observer_plan = ReadingObserverPlan::Builtin {
                    plan: *rng.pick(&[
                        warp_core::BuiltinObserverPlan::CommitBoundaryHead,
                        warp_core::BuiltinObserverPlan::QueryBytes,
                        warp_core::BuiltinObserverPlan::RecordedTruthChannels,
                    ]),
                };
                plain = false;
            }
            4 => {
                req.observer_instance = Some(ObserverInstanceRef {
                    instance_id: ObserverInstanceId::from_bytes([0x51; 32]),
                    plan_id: ObserverPlanId::from_bytes([0x10; 32]),
                    state_hash: [0x52; 32],
                });
                plain = false;
            }
            _ => {}
        }
    }
    (req, plain)
}

fn coords_for(rng: &mut Rng, n: u64) -> Vec<(Coord, ObservationAt)> {
    let t = |x: u64| ObservationAt::Tick(WorldlineTick::from_raw(x));
    let mut out = vec![(Coord::Frontier, ObservationAt::Frontier)];
    if n > 0 {
        out.push((Coord::Tick0, t(0)));
        out.push((Coord::TickLast, t(n - 1)));
        if n > 2 {
            out.push((Coord::TickMid, t(rng.range(1, n - 2))));
        }
    }
    out.push((Coord::FirstFuture, t(n)));
    out.push((Coord::FarFuture, t(n + rng.range(1, 6))));
    if rng.chance(1, 3) {
        out.push((Coord::MaxTick, t(u64::MAX)));
    }
    out
}

fn unknown_worldline(rng: &mut Rng) -> WorldlineId {
    WorldlineId::from_bytes(rng.hash32())
}

// ---------------------------------------------------------------------------
// observe() path
// ---------------------------------------------------------------------------

fn content_digest(a: &ObservationArtifact) -> u64 {
    // Everything the artifact hash claims to bind, in ABI form.
    let abi = a.to_abi();
    let input = echo_wasm_abi::kernel_port::ObservationHashInput {
        resolved: abi.resolved,
        reading: abi.reading,
        frame: abi.frame,
        projection: abi.projection,
        payload: abi.payload,
    };
    echo_wasm_abi::encode_cbor(&input).map_or(0, |b| h64(&b))
}

fn stable_of(a: &ObservationArtifact) -> StableObs {
    StableObs {
        payload: a.payload.clone(),
        tick: a.resolved.resolved_worldline_tick.as_u64(),
        gt: a.resolved.commit_global_tick,
        root: a.resolved.state_root,
        commit: a.resolved.commit_hash,
        witness: a.reading.witness_refs.clone(),
        residual: a.reading.residual_posture,
    }
}

fn hx(h: &Hash) -> String {
    verif_core::hex(&h[..8])
}

impl<'a> Ctx<'a> {
    fn issue_obs(
        &mut self,
        sim: &Sim,
        req: &ObservationRequest,
        meta: &Meta,
        remember: bool,
    ) -> Result<ObservationArtifact, ObservationError> {
        let desc = || format!("{req:?}");
        let pre_kind = format!(
            "observe/{}/{}/{}",
            meta.coord.name(),
            frame_name(req.frame),
            proj_name(&req.projection)
        );
        self.pre_fp(sim, "observe", &pre_kind);
        let r1 = ObservationService::observe(&sim.runtime, &sim.provenance, &sim.engine, req.clone());
        let kind = format!(
            "{pre_kind}/{}",
            match &r1 {
                Ok(_) => "reading",
                Err(e) => err_name(e),
            }
        );
        self.check_fp(sim, "observe", &kind, &desc);
        let r2 = ObservationService::observe(&sim.runtime, &sim.provenance, &sim.engine, req.clone());
        self.check_fp(sim, "observe", &kind, &desc);
        self.stats.reads += 2;
        self.stats.determinism_pairs += 1;
        self.count(&format!(
            "req.{}.{}.{}",
            meta.coord.name(),
            frame_name(req.frame),
            proj_name(&req.projection)
        ));

        // Determinism on identical history.
        if r1 != r2 {
            self.violation(
                "C16:observe:determinism:identical-requests-differ",
                format!("two identical requests on unchanged history differ: {r1:?} vs {r2:?}"),
                json!({"request": desc()}),
            );
        } else if let (Ok(a), Ok(b)) = (&r1, &r2) {
            let ea = echo_wasm_abi::encode_cbor(&a.to_abi()).ok();
            let eb = echo_wasm_abi::encode_cbor(&b.to_abi()).ok();
            if ea != eb || ea.is_none() {
                self.violation(
                    "C16:observe:determinism:abi-bytes-differ",
                    "equal artifacts encode to different ABI bytes".to_owned(),
                    json!({"request": desc()}),
                );
            }
        }

        match &r1 {
            Ok(a) => {
                self.transcript.push(h64(&a.artifact_hash));
                self.stats.readings += 1;
                self.count("readings");
                // artifact identity <-> content, both directions, within the case.
                let cd = content_digest(a);
                if let Some(prev) = self.hash_to_content.insert(a.artifact_hash, cd) {
                    if prev != cd {
                        self.violation(
                            "C16:observe:determinism:artifact-hash-collides-across-content",
                            "one artifact_hash was issued for two different artifact contents".into(),
                            json!({"request": desc()}),
                        );
                    }
                }
                if let Some(prev) = self.content_to_hash.insert(cd, a.artifact_hash) {
                    if prev != a.artifact_hash {
                        self.violation(
                            "C16:observe:determinism:same-content-two-artifact-hashes",
                            "identical artifact content received two different artifact hashes".into(),
                            json!({"request": desc()}),
                        );
                    }
                }
            }
            Err(e) => {
                self.transcript.push(h64(format!("{e:?}").as_bytes()));
                self.stats.typed_errors += 1;
                self.count(&format!("errors.{}", err_name(e)));
            }
        }

        self.judge_obs(sim, req, meta, &r1, remember);
        r1
    }

    fn judge_obs(
        &mut self,
        sim: &Sim,
        req: &ObservationRequest,
        meta: &Meta,
        res: &Result<ObservationArtifact, ObservationError>,
        remember: bool,
    ) {
        let w = meta.wl;
        let at = req.coordinate.at;
        let desc = format!("{req:?}");
        let pair_ok = valid_pair(req.frame, &req.projection);

        // ---- unavailable history must be a typed error -------------------
        let unavailable: Option<&str> = if !meta.known {
            Some("unknown-worldline")
        } else {
            match (req.frame, at) {
                (_, ObservationAt::Tick(t)) if t.as_u64() >= meta.n => Some("future-tick"),
                (ObservationFrame::RecordedTruth, ObservationAt::Frontier) if meta.n == 0 => {
                    Some("empty-frontier-truth")
                }
                _ => None,
            }
        };
        if let Some(kind) = unavailable {
            match res {
                Ok(a) => self.violation(
                    &format!("C16:observe:{kind}:reading-instead-of-typed-error"),
                    format!(
                        "history unavailable ({kind}; worldline has {} commits) but a reading was returned: resolved tick {} root {}",
                        meta.n,
                        a.resolved.resolved_worldline_tick.as_u64(),
                        hx(&a.resolved.state_root)
                    ),
                    json!({"request": desc, "commits": meta.n}),
                ),
                Err(e) => {
                    self.stats.unavailable_typed += 1;
                    self.count(&format!("unavailable.{kind}.{}", err_name(e)));
                }
            }
            return;
        }
        if !pair_ok {
            if res.is_ok() && !self.quiet {
                self.rep.inconclusive(
                    "an invalid frame/projection pairing produced a reading (outside the C16 statement; not judged)",
                );
            }
            return;
        }

        let a = match res {
            Ok(a) => a,
            Err(e) => {
                if meta.plain
                    && !matches!(
                        e,
                        ObservationError::UnsupportedQuery { .. }
                            | ObservationError::ContractQueryObserverFailed { .. }
                    )
                {
                    self.count(&format!("available-but-error.{}", err_name(e)));
                }
                return;
            }
        };

        // ---- echo of the request --------------------------------------------
        if a.resolved.worldline_id != w
            || a.resolved.requested_at != at
            || a.frame != req.frame
            || a.projection != req.projection
        {
            self.violation(
                "C16:observe:binding:artifact-names-other-request",
                format!(
                    "artifact names worldline {:?} at {:?} / {:?}, request was {:?} at {:?} / {:?}",
                    a.resolved.worldline_id, a.resolved.requested_at, a.frame, w, at, req.frame
                ),
                json!({"request": desc}),
            );
        }

        // ---- what should this coordinate be bound to? -----------------------
        let (exp, kind) = match (req.frame, at) {
            (ObservationFrame::RecordedTruth, ObservationAt::Frontier) => {
                (self.expect_tick(sim, w, meta.n - 1), "truth-frontier")
            }
            (_, ObservationAt::Frontier) => (self.expect_frontier(sim, w), "frontier"),
            (_, ObservationAt::Tick(t)) => (self.expect_tick(sim, w, t.as_u64()), "tick"),
        };
        let Some(exp) = exp else {
            if !self.quiet {
                self.rep
                    .inconclusive("harness has no commit record for an available coordinate");
            }
            return;
        };
        self.check_resolved(&a.resolved, &exp, w, kind, "observe", &desc, sim);

        // ---- payload ---------------------------------------------------------
        let r = &a.resolved;
        match (&a.payload, &req.projection) {
            (ObservationPayload::Head(h), ObservationProjection::Head) => {
                if h.worldline_tick != r.resolved_worldline_tick
                    || h.commit_global_tick != r.commit_global_tick
                    || h.state_root != r.state_root
                    || h.commit_hash != r.commit_hash
                {
                    self.violation(
                        &format!("C16:observe:{kind}:head-payload-differs-from-resolved-coordinate"),
                        format!("head payload {h:?} vs resolved {r:?}"),
                        json!({"request": desc}),
                    );
                }
            }
            (ObservationPayload::Snapshot(s), ObservationProjection::Snapshot) => {
                if s.worldline_tick != r.resolved_worldline_tick
                    || s.commit_global_tick != r.commit_global_tick
                    || s.state_root != r.state_root
                    || s.commit_hash != r.commit_hash
                {
                    self.violation(
                        &format!("C16:observe:{kind}:snapshot-payload-differs-from-resolved-coordinate"),
                        format!("snapshot payload {s:?} vs resolved {r:?}"),
                        json!({"request": desc}),
                    );
                }
            }
            (
                ObservationPayload::TruthChannels(got),
                ObservationProjection::TruthChannels { channels },
            ) => {
                if let Some(all) = &exp.outputs {
                    let want: Vec<(ChannelId, Vec<u8>)> = match channels {
                        None => all.clone(),
                        Some(f) => all.iter().filter(|(c, _)| f.contains(c)).cloned().collect(),
                    };
                    if !want.is_empty() {
                        self.stats.truth_payloads_nonempty += 1;
                    }
                    if *got != want {
                        self.violation(
                            &format!("C16:observe:{kind}:truth-payload-differs-from-recorded-outputs"),
                            format!(
                                "recorded truth at tick {} has {} channel(s), reading returned {}: want {:?} got {:?}",
                                exp.tick,
                                want.len(),
                                got.len(),
                                want.iter().map(|(c, d)| (hx(&c.0), d.len())).collect::<Vec<_>>(),
                                got.iter().map(|(c, d)| (hx(&c.0), d.len())).collect::<Vec<_>>()
                            ),
                            json!({"request": desc}),
                        );
                    }
                }
            }
            (
                ObservationPayload::QueryBytes(got),
                ObservationProjection::Query {
                    query_id,
                    vars_bytes,
                },
            ) => {
                if let Some(commit) = exp.commit.or(Some(r.commit_hash)) {
                    let want_resolved = ResolvedObservationCoordinate {
                        observation_version: r.observation_version,
                        worldline_id: w,
                        requested_at: at,
                        resolved_worldline_tick: WorldlineTick::from_raw(exp.tick),
                        commit_global_tick: exp.gt,
                        observed_after_global_tick: None,
                        state_root: exp.root,
                        commit_hash: commit,
                    };
                    let want = match *query_id {
                        Q_DIGEST => Some(observers::digest_payload(
                            *query_id,
                            vars_bytes,
                            &want_resolved,
                        )),
                        Q_RESIDUAL => {
                            let mut b = b"residual:".to_vec();
                            b.extend_from_slice(vars_bytes);
                            b.extend_from_slice(&exp.root);
                            Some(b)
                        }
                        Q_STRICT => Some(commit.to_vec()),
                        _ => None,
                    };
                    if let Some(want) = want {
                        self.stats.query_payloads_checked += 1;
                        if *got != want {
                            self.violation(
                                &format!("C16:observe:{kind}:query-observer-was-handed-another-coordinate"),
                                format!(
                                    "query {query_id} payload is not the one computed from the expected coordinate (tick {} root {})",
                                    exp.tick,
                                    hx(&exp.root)
                                ),
                                json!({"request": desc}),
                            );
                        }
                    }
                }
            }
            (p, _) => {
                self.violation(
                    "C16:observe:binding:payload-kind-differs-from-projection",
                    format!("payload {p:?} for projection {:?}", req.projection),
                    json!({"request": desc}),
                );
            }
        }

        // ---- witness refs ------------------------------------------------------
        let want_witness = match (exp.witness_tick, exp.gt) {
            (Some(t), Some(_)) => Some(vec![ReadingWitnessRef::ResolvedCommit {
                reference: ProvenanceRef {
                    worldline_id: w,
                    worldline_tick: WorldlineTick::from_raw(t),
                    commit_hash: exp.commit.unwrap_or(r.commit_hash),
                },
            }]),
            _ => None,
        };
        if let Some(ww) = want_witness {
            if a.reading.witness_refs != ww {
                self.violation(
                    &format!("C16:observe:{kind}:witness-ref-names-other-commit"),
                    format!("witness refs {:?}, expected {ww:?}", a.reading.witness_refs),
                    json!({"request": desc}),
                );
            }
        }

        // ---- remember explicit historical coordinates --------------------------
        if remember && matches!(at, ObservationAt::Tick(_)) {
            let _ = meta.strand_child; // G(4): posture is never part of StableObs.
            self.remembered.push(Remembered::Obs {
                req: req.clone(),
                was: stable_of(a),
            });
        }
    }

    #[allow(clippy::too_many_arguments)]
    fn check_resolved(
        &mut self,
        r: &ResolvedObservationCoordinate,
        exp: &Expect,
        w: WorldlineId,
        kind: &str,
        path: &str,
        desc: &str,
        sim: &Sim,
    ) {
        let _ = w;
        if r.resolved_worldline_tick.as_u64() != exp.tick {
            self.violation(
                &format!("C16:{path}:{kind}:resolved-tick-differs"),
                format!(
                    "resolved worldline tick {} but the coordinate denotes tick {}",
                    r.resolved_worldline_tick.as_u64(),
                    exp.tick
                ),
                json!({"request": desc}),
            );
        }
        if r.commit_global_tick != exp.gt {
            self.violation(
                &format!("C16:{path}:{kind}:commit-global-tick-differs"),
                format!(
                    "commit_global_tick {:?}, the commit was made at {:?}",
                    r.commit_global_tick, exp.gt
                ),
                json!({"request": desc}),
            );
        }
        let now = sim.runtime.global_tick();
        let want_after = (now != GlobalTick::ZERO).then_some(now);
        if r.observed_after_global_tick != want_after {
            self.violation(
                &format!("C16:{path}:{kind}:observed-after-global-tick-differs"),
                format!(
                    "observed_after_global_tick {:?}, runtime global tick is {:?}",
                    r.observed_after_global_tick, want_after
                ),
                json!({"request": desc}),
            );
        }
        let live_label = if kind == "frontier" {
            self.stats.frontier_vs_live += 1;
            "live-frontier-state"
        } else {
            self.stats.historical_vs_commit_log += 1;
            "state-recorded-at-commit-time"
        };
        if r.state_root != exp.root {
            self.violation(
                &format!("C16:{path}:{kind}:state-root-differs-from-{live_label}"),
                format!(
                    "state_root {} but {live_label} at tick {} has root {}",
                    hx(&r.state_root),
                    exp.tick,
                    hx(&exp.root)
                ),
                json!({"request": desc}),
            );
        }
        if let Some(c) = exp.commit {
            if r.commit_hash != c {
                self.violation(
                    &format!("C16:{path}:{kind}:commit-hash-differs-from-{live_label}"),
                    format!("commit_hash {} expected {}", hx(&r.commit_hash), hx(&c)),
                    json!({"request": desc}),
                );
            }
        }
        if kind != "frontier" {
            match exp.replay {
                Some((root, commit)) => {
                    self.stats.historical_vs_replay += 1;
                    if r.state_root != root {
                        self.violation(
                            &format!("C16:{path}:{kind}:state-root-differs-from-replay"),
                            format!(
                                "state_root {} but replay_worldline_state_at({}) has root {}",
                                hx(&r.state_root),
                                exp.tick + 1,
                                hx(&root)
                            ),
                            json!({"request": desc}),
                        );
                    }
                    if let Some(c) = commit {
                        if r.commit_hash != c {
                            self.violation(
                                &format!("C16:{path}:{kind}:commit-hash-differs-from-replay"),
                                format!(
                                    "commit_hash {} but the replayed state's last snapshot is {}",
                                    hx(&r.commit_hash),
                                    hx(&c)
                                ),
                                json!({"request": desc}),
                            );
                        }
                    }
                }
                None => {
                    if !self.quiet {
                        self.rep.inconclusive(
                            "replay_worldline_state_at failed for a committed coordinate (oracle unavailable)",
                        );
                    }
                }
            }
        }
    }

    // -----------------------------------------------------------------------
    // observe_optic() path
    // -----------------------------------------------------------------------

    fn issue_optic(&mut self, sim: &Sim, req: &ObserveOpticRequest, n: u64, known: bool, remember: bool) {
        let desc = || format!("{req:?}");
        let pre_kind = format!(
            "observe-optic/{}/{}",
            match &req.coordinate {
                EchoCoordinate::Worldline { at: CoordinateAt::Frontier, .. } => "frontier",
                EchoCoordinate::Worldline { at: CoordinateAt::Tick(_), .. } => "tick",
                EchoCoordinate::Worldline { at: CoordinateAt::Provenance(_), .. } => "provenance",
                _ => "non-worldline",
            },
            match &req.aperture.shape {
                OpticApertureShape::Head => "head",
                OpticApertureShape::SnapshotMetadata => "snapshot-metadata",
                OpticApertureShape::TruthChannels { .. } => "truth-channels",
                OpticApertureShape::QueryBytes { .. } => "query-bytes",
                OpticApertureShape::ByteRange { .. } => "byte-range",
                OpticApertureShape::AttachmentBoundary => "attachment-boundary",
            }
        );
        self.pre_fp(sim, "observe-optic", &pre_kind);
        let r1 = ObservationService::observe_optic(&sim.runtime, &sim.provenance, &sim.engine, req.clone());
        let kind = format!(
            "{pre_kind}/{}",
            match &r1 {
                ObserveOpticResult::Reading(_) => "reading".to_owned(),
                ObserveOpticResult::Obstructed(o) => format!("{:?}", o.kind),
            }
        );
        self.check_fp(sim, "observe-optic", &kind, &desc);
        let r2 = ObservationService::observe_optic(&sim.runtime, &sim.provenance, &sim.engine, req.clone());
        self.check_fp(sim, "observe-optic", &kind, &desc);
        self.stats.optic_reads += 2;
        self.stats.reads += 2;
        self.stats.determinism_pairs += 1;
        if r1 != r2 {
            self.violation(
                "C16:observe-optic:determinism:identical-requests-differ",
                format!("two identical optic requests differ: {r1:?} vs {r2:?}"),
                json!({"request": desc()}),
            );
        }
        let shape = match &req.aperture.shape {
            OpticApertureShape::Head => "head",
            OpticApertureShape::SnapshotMetadata => "snapshot-metadata",
            OpticApertureShape::TruthChannels { .. } => "truth-channels",
            OpticApertureShape::QueryBytes { .. } => "query-bytes",
            OpticApertureShape::ByteRange { .. } => "byte-range",
            OpticApertureShape::AttachmentBoundary => "attachment-boundary",
        };
        let (cw, cat) = match &req.coordinate {
            EchoCoordinate::Worldline { worldline_id, at } => (Some(*worldline_id), Some(*at)),
            _ => (None, None),
        };
        let at_name = match cat {
            Some(CoordinateAt::Frontier) => "frontier",
            Some(CoordinateAt::Tick(_)) => "tick",
            Some(CoordinateAt::Provenance(_)) => "provenance",
            None => "non-worldline",
        };
        self.count(&format!("optic.req.{at_name}.{shape}"));

        // Which commit does the coordinate denote, if any?
        let denoted: Option<(u64, Option<Hash>)> = match cat {
            Some(CoordinateAt::Tick(t)) => Some((t.as_u64(), None)),
            Some(CoordinateAt::Provenance(p)) => Some((p.worldline_tick.as_u64(), Some(p.commit_hash))),
            _ => None,
        };
        let focus_matches = matches!(
            (&req.focus, cw),
            (OpticFocus::Worldline { worldline_id }, Some(c)) if *worldline_id == c
        );
        let foreign_ref = matches!(
            (cat, cw),
            (Some(CoordinateAt::Provenance(p)), Some(c)) if p.worldline_id != c
        );

        match &r1 {
            ObserveOpticResult::Obstructed(o) => {
                self.transcript.push(h64(format!("{o:?}").as_bytes()));
                self.stats.optic_obstructions += 1;
                let k = format!("{:?}", o.kind);
                self.count(&format!("optic.obstructed.{k}"));
                if !known || denoted.is_some_and(|(t, _)| t >= n) || foreign_ref {
                    self.stats.unavailable_typed += 1;
                }
            }
            ObserveOpticResult::Reading(rd) => {
                self.transcript.push(h64(&rd.read_identity.read_identity_hash));
                self.stats.optic_readings += 1;
                self.count("optic.readings");
                let Some(w) = cw else {
                    self.violation(
                        "C16:observe-optic:binding:reading-for-non-worldline-coordinate",
                        "a reading was produced for a non-worldline coordinate".into(),
                        json!({"request": desc()}),
                    );
                    return;
                };
                if !known {
                    self.violation(
                        "C16:observe-optic:unknown-worldline:reading-instead-of-obstruction",
                        "unknown worldline answered with a reading".into(),
                        json!({"request": desc()}),
                    );
                    return;
                }
                if !focus_matches || foreign_ref {
                    self.violation(
                        "C16:observe-optic:binding:reading-for-mismatched-focus-or-foreign-coordinate",
                        "focus/coordinate disagree (or the provenance ref belongs to another worldline) but a reading was produced".into(),
                        json!({"request": desc()}),
                    );
                    return;
                }
                if rd.read_identity.coordinate != req.coordinate {
                    self.violation(
                        "C16:observe-optic:binding:read-identity-names-other-coordinate",
                        format!(
                            "read identity coordinate {:?} != requested {:?}",
                            rd.read_identity.coordinate, req.coordinate
                        ),
                        json!({"request": desc()}),
                    );
                }
                let exp = match denoted {
                    None => self.expect_frontier(sim, w),
                    Some((t, _)) if t >= n => {
                        self.violation(
                            "C16:observe-optic:future-tick:reading-instead-of-obstruction",
                            format!("tick {t} is not committed ({n} commits) but a reading was returned"),
                            json!({"request": desc(), "commits": n}),
                        );
                        return;
                    }
                    Some((t, _)) => self.expect_tick(sim, w, t),
                };
                let Some(exp) = exp else { return };
                let kind = if denoted.is_some() { "tick" } else { "frontier" };
                // A full provenance coordinate names (worldline, tick, commit hash).
                if let Some((t, Some(named))) = denoted {
                    if exp.commit.is_some_and(|c| c != named) {
                        self.violation(
                            "C16:observe-optic:provenance-coordinate:commit-hash-not-in-history-answered-with-reading",
                            format!(
                                "coordinate names commit {} at tick {t}, history holds {} there, yet a reading (of the other commit) was returned",
                                hx(&named),
                                exp.commit.map(|c| hx(&c)).unwrap_or_default()
                            ),
                            json!({"request": desc(), "tick": t}),
                        );
                        return;
                    }
                }
                let (ptick, pgt, proot, pcommit) = match &rd.payload {
                    ObservationPayload::Head(h) => {
                        (h.worldline_tick, h.commit_global_tick, h.state_root, h.commit_hash)
                    }
                    ObservationPayload::Snapshot(s) => {
                        (s.worldline_tick, s.commit_global_tick, s.state_root, s.commit_hash)
                    }
                    other => {
                        self.violation(
                            "C16:observe-optic:binding:unexpected-payload-kind",
                            format!("optic reading carries {other:?}"),
                            json!({"request": desc()}),
                        );
                        return;
                    }
                };
                let fake = ResolvedObservationCoordinate {
                    observation_version: 0,
                    worldline_id: w,
                    requested_at: ObservationAt::Frontier,
                    resolved_worldline_tick: ptick,
                    commit_global_tick: pgt,
                    observed_after_global_tick: {
                        let now = sim.runtime.global_tick();
                        (now != GlobalTick::ZERO).then_some(now)
                    },
                    state_root: proot,
                    commit_hash: pcommit,
                };
                self.check_resolved(&fake, &exp, w, kind, "observe-optic", &desc(), sim);
                if let (Some(t), Some(_)) = (exp.witness_tick, exp.gt) {
                    let ww = vec![ReadingWitnessRef::ResolvedCommit {
                        reference: ProvenanceRef {
                            worldline_id: w,
                            worldline_tick: WorldlineTick::from_raw(t),
                            commit_hash: exp.commit.unwrap_or(pcommit),
                        },
                    }];
                    if rd.envelope.witness_refs != ww {
                        self.violation(
                            &format!("C16:observe-optic:{kind}:witness-ref-names-other-commit"),
                            format!("witness refs {:?}, expected {ww:?}", rd.envelope.witness_refs),
                            json!({"request": desc()}),
                        );
                    }
                }
                // Observation lane (not judged): does a checkpoint-plus-tail witness
                // basis of a historical read cover the commit the payload describes?
                if let (Some((t, _)), WitnessBasis::CheckpointPlusTail { tail_witness_refs, .. }) =
                    (denoted, &rd.read_identity.witness_basis)
                {
                    let covers = tail_witness_refs
                        .last()
                        .is_some_and(|r| r.worldline_tick.as_u64() == t);
                    self.count(if covers {
                        "optic.tick.checkpoint-tail-covers-read-commit"
                    } else {
                        "optic.tick.checkpoint-tail-ends-before-read-commit"
                    });
                }
                if remember && denoted.is_some() {
                    self.remembered.push(Remembered::Optic {
                        req: req.clone(),
                        was: StableOptic {
                            payload: rd.payload.clone(),
                            witness: rd.envelope.witness_refs.clone(),
                            coordinate: rd.read_identity.coordinate.clone(),
                            aperture_digest: rd.read_identity.aperture_digest,
                            focus_digest: rd.read_identity.focus_digest,
                        },
                        basis: rd.read_identity.witness_basis.clone(),
                        wl: w,
                        checkpoints_then: sim.checkpoints.get(&w).copied().unwrap_or(0),
                    });
                }
            }
        }
    }

    // -----------------------------------------------------------------------
    // Stability: re-ask remembered historical requests
    // -----------------------------------------------------------------------

    fn recheck(&mut self, sim: &Sim) {
        let items = std::mem::take(&mut self.remembered);
        for item in &items {
            if self.out_of_time() {
                break;
            }
            match item {
                Remembered::Obs { req, was } => {
                    let desc = || format!("{req:?}");
                    let r = ObservationService::observe(&sim.runtime, &sim.provenance, &sim.engine, req.clone());
                    self.check_fp(sim, "observe", "observe/repeat-after-mutation", &desc);
                    self.stats.reads += 1;
                    self.stats.repeats_after_mutation += 1;
                    match r {
                        Ok(a) => {
                            self.transcript.push(h64(&a.artifact_hash));
                            let now = stable_of(&a);
                            if now != *was {
                                let what = if now.payload != was.payload {
                                    "payload"
                                } else if now.root != was.root {
                                    "state-root"
                                } else if now.commit != was.commit {
                                    "commit-hash"
                                } else if now.tick != was.tick {
                                    "resolved-tick"
                                } else if now.gt != was.gt {
                                    "commit-global-tick"
                                } else {
                                    "envelope"
                                };
                                self.violation(
                                    &format!("C16:observe:stability:{what}-changed-after-later-commits"),
                                    format!("historical request answered {was:?} before and {now:?} after further commits/forks"),
                                    json!({"request": desc()}),
                                );
                            }
                        }
                        Err(e) => {
                            self.transcript.push(h64(format!("{e:?}").as_bytes()));
                            self.violation(
                                "C16:observe:stability:reading-became-error-after-later-commits",
                                format!("historical request that was answered before now fails with {e:?}"),
                                json!({"request": desc()}),
                            );
                        }
                    }
                }
                Remembered::Optic {
                    req,
                    was,
                    basis,
                    wl,
                    checkpoints_then,
                } => {
                    let desc = || format!("{req:?}");
                    let r = ObservationService::observe_optic(&sim.runtime, &sim.provenance, &sim.engine, req.clone());
                    self.check_fp(sim, "observe-optic", "observe-optic/repeat-after-mutation", &desc);
                    self.stats.reads += 1;
                    self.stats.optic_reads += 1;
                    self.stats.repeats_after_mutation += 1;
                    match r {
                        ObserveOpticResult::Reading(rd) => {
                            self.transcript.push(h64(&rd.read_identity.read_identity_hash));
                            let now = StableOptic {
                                payload: rd.payload.clone(),
                                witness: rd.envelope.witness_refs.clone(),
                                coordinate: rd.read_identity.coordinate.clone(),
                                aperture_digest: rd.read_identity.aperture_digest,
                                focus_digest: rd.read_identity.focus_digest,
                            };
                            if now != *was {
                                self.violation(
                                    "C16:observe-optic:stability:reading-changed-after-later-commits",
                                    format!("historical optic request answered {was:?} before and {now:?} after"),
                                    json!({"request": desc()}),
                                );
                            }
                            // The witness basis may legitimately change when a
                            // checkpoint was added to that worldline in between.
                            let cps = sim.checkpoints.get(wl).copied().unwrap_or(0);
                            if cps == *checkpoints_then && rd.read_identity.witness_basis != *basis {
                                self.violation(
                                    "C16:observe-optic:stability:witness-basis-changed-after-later-commits",
                                    format!(
                                        "witness basis was {basis:?}, now {:?} (no checkpoint added in between)",
                                        rd.read_identity.witness_basis
                                    ),
                                    json!({"request": desc()}),
                                );
                            }
                        }
                        ObserveOpticResult::Obstructed(o) => {
                            self.transcript.push(h64(format!("{o:?}").as_bytes()));
                            // A tighter tick budget can start to obstruct once a
                            // checkpoint creates a live-tail; anything else is a change.
                            let cps = sim.checkpoints.get(wl).copied().unwrap_or(0);
                            if cps == *checkpoints_then {
                                self.violation(
                                    "C16:observe-optic:stability:reading-became-obstruction-after-later-commits",
                                    format!("historical optic request now obstructed: {o:?}"),
                                    json!({"request": desc()}),
                                );
                            }
                        }
                    }
                }
            }
        }
        self.remembered = items;
        // Bound memory/cost: keep a rotating window.
        if self.remembered.len() > 160 {
            let drop = self.remembered.len() - 160;
            self.remembered.drain(0..drop);
        }
    }
}

// ---------------------------------------------------------------------------
// One pass of the request matrix
// ---------------------------------------------------------------------------

fn optic_budget(rng: &mut Rng) -> OpticReadBudget {
    OpticReadBudget {
        max_bytes: *rng.pick(&[
            None,
            Some(0),
            Some(127),
            Some(128),
            Some(1024),
            Some(1024),
            Some(1024),
            Some(4096),
            Some(4096),
            Some(u64::MAX),
        ]),
        max_nodes: *rng.pick(&[None, Some(0), Some(8)]),
        max_ticks: *rng.pick(&[None, None, Some(0), Some(1), Some(4), Some(64), Some(64), Some(64)]),
        max_attachments: *rng.pick(&[None, Some(0), Some(2)]),
    }
}

fn pass(ctx: &mut Ctx<'_>, sim: &Sim, rng: &mut Rng, remember: bool) {
    // Worldlines covered in this pass (all if <= 3, otherwise a sample that
    // always contains the newest one).
    let mut idx: Vec<usize> = (0..sim.wls.len()).collect();
    if idx.len() > 3 {
        let newest = idx.pop().unwrap_or(0);
        rng.shuffle(&mut idx);
        idx.truncate(2);
        idx.push(newest);
    }
    for &wi in &idx {
        let wl = sim.wls[wi].clone();
        let n = sim.frontier_len(wl.id);
        let projs = projections(rng);
        for (coord, at) in coords_for(rng, n) {
            if ctx.out_of_time() {
                return;
            }
            // every valid pairing (a sample of them at unavailable coordinates)
            let unavailable_coord = matches!(
                coord,
                Coord::FirstFuture | Coord::FarFuture | Coord::MaxTick
            );
            for (pi, p) in projs.iter().enumerate() {
                // Head is always asked; the other projections are sampled (5 of 8
                // on average at available coordinates, 3 of 8 at unavailable ones).
                let keep = if unavailable_coord {
                    rng.chance(3, 8)
                } else {
                    pi == 0 || rng.chance(4, 7)
                };
                if !keep {
                    continue;
                }
                let frame = match p {
                    ObservationProjection::Head | ObservationProjection::Snapshot => {
                        ObservationFrame::CommitBoundary
                    }
                    ObservationProjection::TruthChannels { .. } => ObservationFrame::RecordedTruth,
                    ObservationProjection::Query { .. } => ObservationFrame::QueryView,
                };
                let vary = rng.chance(1, 4);
                let (req, plain) = make_request(rng, wl.id, at, frame, p.clone(), vary);
                let meta = Meta {
                    coord,
                    wl: wl.id,
                    known: true,
                    n,
                    plain,
                    strand_child: wl.strand.is_some(),
                };
                let _ = ctx.issue_obs(sim, &req, &meta, remember);
            }
            // one or two invalid pairings per coordinate
            for _ in 0..rng.range(1, 2) {
                let frame = *rng.pick(&FRAMES);
                let p = rng.pick(&projs).clone();
                if valid_pair(frame, &p) {
                    continue;
                }
                let (req, plain) = make_request(rng, wl.id, at, frame, p, false);
                let meta = Meta {
                    coord,
                    wl: wl.id,
                    known: true,
                    n,
                    plain,
                    strand_child: wl.strand.is_some(),
                };
                let _ = ctx.issue_obs(sim, &req, &meta, false);
            }
            // optic reads at this coordinate
            let cat = match at {
                ObservationAt::Frontier => CoordinateAt::Frontier,
                ObservationAt::Tick(t) => CoordinateAt::Tick(t),
            };
            let mut ats = vec![cat];
            if let ObservationAt::Tick(t) = at {
                let real = sim.log.get(&(wl.id, t.as_u64())).map(|r| r.commit_hash);
                // full provenance coordinate: the real one, one naming a commit
                // that is not in this history, one from another worldline
                if let Some(c) = real {
                    ats.push(CoordinateAt::Provenance(ProvenanceRef {
                        worldline_id: wl.id,
                        worldline_tick: t,
                        commit_hash: c,
                    }));
                }
                if rng.chance(1, 2) {
                    ats.push(CoordinateAt::Provenance(ProvenanceRef {
                        worldline_id: wl.id,
                        worldline_tick: t,
                        commit_hash: rng.hash32(),
                    }));
                }
                if rng.chance(1, 3) {
                    ats.push(CoordinateAt::Provenance(ProvenanceRef {
                        worldline_id: unknown_worldline(rng),
                        worldline_tick: t,
                        commit_hash: real.unwrap_or([0; 32]),
                    }));
                }
            }
            for cat in ats {
                let shapes = [
                    OpticApertureShape::Head,
                    OpticApertureShape::SnapshotMetadata,
                    OpticApertureShape::Head,
                    OpticApertureShape::SnapshotMetadata,
                    OpticApertureShape::Head,
                    OpticApertureShape::TruthChannels { channels: None },
                    OpticApertureShape::QueryBytes {
                        query_id: Q_DIGEST,
                        vars_digest: rng.hash32(),
                    },
                    OpticApertureShape::ByteRange {
                        start: rng.below(8),
                        len: rng.below(2048),
                    },
                    OpticApertureShape::AttachmentBoundary,
                ];
                for _ in 0..rng.range(1, 2) {
                    let shape = rng.pick(&shapes).clone();
                    let focus = match rng.below(10) {
                        0 => OpticFocus::Worldline {
                            worldline_id: unknown_worldline(rng),
                        },
                        1 => OpticFocus::AttachmentBoundary {
                            key: AttachmentKey::node_alpha(NodeKey {
                                warp_id: warp_core::make_warp_id("root"),
                                local_id: warp_core::make_node_id("root"),
                            }),
                        },
                        _ => OpticFocus::Worldline {
                            worldline_id: wl.id,
                        },
                    };
                    let req = ObserveOpticRequest {
                        optic_id: OpticId::from_bytes([0x70; 32]),
                        focus,
                        coordinate: EchoCoordinate::Worldline {
                            worldline_id: wl.id,
                            at: cat,
                        },
                        aperture: OpticAperture {
                            shape,
                            budget: optic_budget(rng),
                            attachment_descent: if rng.chance(1, 5) {
                                AttachmentDescentPolicy::Explicit
                            } else {
                                AttachmentDescentPolicy::BoundaryOnly
                            },
                        },
                        projection_version: ProjectionVersion::from_raw(1),
                        reducer_version: None,
                        capability: OpticCapabilityId::from_bytes([0x71; 32]),
                    };
                    ctx.issue_optic(sim, &req, n, true, remember);
                }
            }
        }
    }
    // Unknown worldlines (never registered, and provenance-only forks).
    let mut unknown = vec![unknown_worldline(rng)];
    unknown.extend(sim.provenance_only.iter().copied());
    let projs = projections(rng);
    for u in unknown {
        for at in [
            ObservationAt::Frontier,
            ObservationAt::Tick(WorldlineTick::from_raw(0)),
        ] {
            for _ in 0..3 {
                let frame = *rng.pick(&FRAMES);
                let p = rng.pick(&projs).clone();
                let (req, plain) = make_request(rng, u, at, frame, p, false);
                let meta = Meta {
                    coord: Coord::UnknownWl,
                    wl: u,
                    known: false,
                    n: 0,
                    plain,
                    strand_child: false,
                };
                let _ = ctx.issue_obs(sim, &req, &meta, false);
            }
            let req = ObserveOpticRequest {
                optic_id: OpticId::from_bytes([0x70; 32]),
                focus: OpticFocus::Worldline { worldline_id: u },
                coordinate: EchoCoordinate::Worldline {
                    worldline_id: u,
                    at: match at {
                        ObservationAt::Frontier => CoordinateAt::Frontier,
                        ObservationAt::Tick(t) => CoordinateAt::Tick(t),
                    },
                },
                aperture: OpticAperture {
                    shape: OpticApertureShape::Head,
                    budget: OpticReadBudget {
                        max_bytes: Some(1024),
                        max_nodes: Some(8),
                        max_ticks: Some(8),
                        max_attachments: Some(0),
                    },
                    attachment_descent: AttachmentDescentPolicy::BoundaryOnly,
                },
                projection_version: ProjectionVersion::from_raw(1),
                reducer_version: None,
                capability: OpticCapabilityId::from_bytes([0x71; 32]),
            };
            ctx.issue_optic(sim, &req, 0, false, false);
        }
    }
}

// ---------------------------------------------------------------------------
// One case
// ---------------------------------------------------------------------------

pub struct CaseResult {
    pub transcript: Vec<u64>,
    pub stats: CaseStats,
    pub history_digest: u64,
    pub violations: u64,
    pub sample: Value,
    pub complete: bool,
}

pub fn run_case(
    rep: &mut Report,
    seed: u64,
    case: u64,
    quiet: bool,
    verbose: bool,
    self_test: bool,
    deadline: Option<Budget>,
) -> CaseResult {
    let mut rng = Rng::for_case(seed, "C16", case);
    let mut sim = Sim::new(&mut rng);
    let mut ctx = Ctx {
        rep,
        quiet,
        verbose,
        seed,
        case,
        transcript: Vec::new(),
        stats: CaseStats::default(),
        last_fp: None,
        replay_cache: HashMap::new(),
        hash_to_content: HashMap::new(),
        content_to_hash: HashMap::new(),
        remembered: Vec::new(),
        violations: 0,
        deadline,
        incomplete: false,
        window: Vec::new(),
        seen_kinds: std::collections::HashSet::new(),
    };

    for _ in 0..rng.range(1, 4) {
        sim.commit_round(&mut rng);
    }
    if rng.chance(1, 3) && sim.checkpoint(&mut rng) {
        ctx.stats.checkpoints += 1;
    }
    if self_test && !quiet {
        if let Err(reason) =
            crate::fp::projection_self_test(&sim.runtime, &sim.provenance, &sim.engine)
        {
            ctx.rep.inconclusive(&format!("G(1) projection self-test: {reason}"));
        } else {
            ctx.rep.count("g1_projection_self_tests_passed", 1);
        }
    }
    ctx.rebaseline(&sim);
    pass(&mut ctx, &sim, &mut rng, true);
    ctx.full_fp(&sim, "observe", &|| "end of pass".to_owned());

    let phases = rng.range(1, 3);
    for _ in 0..phases {
        if ctx.out_of_time() {
            break;
        }
        for _ in 0..rng.range(1, 3) {
            match rng.below(9) {
                0..=4 => {
                    sim.commit_round(&mut rng);
                }
                5 | 6 => {
                    if sim.fork_strand(&mut rng).is_some() {
                        ctx.stats.strand_children += 1;
                        // give the child (and so the parent-basis posture) some life
                        if rng.chance(2, 3) {
                            sim.commit_round(&mut rng);
                        }
                    }
                }
                7 => {
                    if sim.checkpoint(&mut rng) {
                        ctx.stats.checkpoints += 1;
                    }
                }
                _ => {
                    let _ = sim.provenance_fork(&mut rng);
                }
            }
        }
        ctx.rebaseline(&sim);
        ctx.recheck(&sim);
        ctx.full_fp(&sim, "observe", &|| "end of stability re-asks".to_owned());
        pass(&mut ctx, &sim, &mut rng, true);
        ctx.full_fp(&sim, "observe", &|| "end of pass".to_owned());
    }

    ctx.stats.commits = sim.commits;
    // Non-vacuity of the state-root half: how many commits moved the root.
    let mut prev: Option<(WorldlineId, Hash)> = None;
    for ((w, _), rec) in &sim.log {
        if let Some((pw, pr)) = prev {
            if pw == *w && pr != rec.live_state_root {
                ctx.stats.commits_moving_state_root += 1;
            }
        }
        prev = Some((*w, rec.live_state_root));
    }
    let mut hd = blake3::Hasher::new();
    for ((w, t), rec) in &sim.log {
        hd.update(w.as_bytes());
        hd.update(&t.to_le_bytes());
        hd.update(&rec.commit_hash);
    }
    for t in &ctx.transcript {
        hd.update(&t.to_le_bytes());
    }
    let history_digest = h64(hd.finalize().as_bytes());
    let lens: BTreeMap<String, u64> = sim
        .wls
        .iter()
        .map(|w| (w.label.clone(), sim.frontier_len(w.id)))
        .collect();
    let sample = json!({
        "case": case as i64,
        "worldlines": lens,
        "strand_children": ctx.stats.strand_children,
        "prefab_entries": sim.wls.iter().map(|w| w.prefab).sum::<u64>(),
        "commits": sim.commits,
        "reads": ctx.stats.reads,
        "readings": ctx.stats.readings + ctx.stats.optic_readings,
        "typed_errors": ctx.stats.typed_errors + ctx.stats.optic_obstructions,
        "historical_vs_replay": ctx.stats.historical_vs_replay,
        "repeats_after_mutation": ctx.stats.repeats_after_mutation,
    });
    CaseResult {
        transcript: std::mem::take(&mut ctx.transcript),
        stats: ctx.stats.clone(),
        history_digest,
        violations: ctx.violations,
        sample,
        complete: !ctx.incomplete,
    }
}

fn fold_stats(rep: &mut Report, s: &CaseStats) {
    rep.count("reads_total", s.reads);
    rep.count("readings_observe", s.readings);
    rep.count("typed_errors_observe", s.typed_errors);
    rep.count("historical_readings_compared_with_replay", s.historical_vs_replay);
    rep.count("historical_readings_compared_with_commit_log", s.historical_vs_commit_log);
    rep.count("frontier_readings_compared_with_live_state", s.frontier_vs_live);
    rep.count("truth_payloads_nonempty_checked", s.truth_payloads_nonempty);
    rep.count("query_payloads_checked", s.query_payloads_checked);
    rep.count("repeats_after_later_commits", s.repeats_after_mutation);
    rep.count("unavailable_history_typed_errors", s.unavailable_typed);
    rep.count("fingerprints_compared", s.fingerprints);
    rep.count("reads_bracketed_by_fingerprints", s.reads_bracketed);
    rep.count("reads_bracketed_individually", s.reads_bracketed_alone);
    rep.count("fingerprint_bytes_hashed", s.fp_bytes);
    rep.count("determinism_pairs", s.determinism_pairs);
    rep.count("optic_reads", s.optic_reads);
    rep.count("optic_readings", s.optic_readings);
    rep.count("optic_obstructions", s.optic_obstructions);
    rep.count("strand_children_forked", s.strand_children);
    rep.count("commits", s.commits);
    rep.count("checkpoints", s.checkpoints);
    rep.count("consecutive_commits_with_different_state_root", s.commits_moving_state_root);
}

fn nontrivial(s: &CaseStats) -> bool {
    s.historical_vs_replay >= 1
        && s.repeats_after_mutation >= 1
        && s.unavailable_typed >= 1
        && s.commits_moving_state_root >= 1
}

/// Fixed minimal probe: one worldline, one commit, one optic head read at a
/// full provenance coordinate whose commit hash is not in the history.
/// Returns the number of divergences.
pub fn probe_provenance_coordinate(rep: &mut Report, verbose: bool) -> u64 {
    let mut sim = Sim::minimal();
    sim.commit_fixed(b"\x01minimal");
    let w = sim.wls[0].id;
    let Some(rec) = sim.log.get(&(w, 0)).cloned() else {
        rep.inconclusive("minimal probe: the single commit did not happen");
        return 0;
    };
    let named = [0xAB_u8; 32];
    let req = ObserveOpticRequest {
        optic_id: OpticId::from_bytes([0x70; 32]),
        focus: OpticFocus::Worldline { worldline_id: w },
        coordinate: EchoCoordinate::Worldline {
            worldline_id: w,
            at: CoordinateAt::Provenance(ProvenanceRef {
                worldline_id: w,
                worldline_tick: WorldlineTick::from_raw(0),
                commit_hash: named,
            }),
        },
        aperture: OpticAperture {
            shape: OpticApertureShape::Head,
            budget: OpticReadBudget {
                max_bytes: Some(1024),
                max_nodes: Some(8),
                max_ticks: Some(8),
                max_attachments: Some(0),
            },
            attachment_descent: AttachmentDescentPolicy::BoundaryOnly,
        },
        projection_version: ProjectionVersion::from_raw(1),
        reducer_version: None,
        capability: OpticCapabilityId::from_bytes([0x71; 32]),
    };
    rep.count("minimal_probes", 1);
    match ObservationService::observe_optic(&sim.runtime, &sim.provenance, &sim.engine, req) {
        ObserveOpticResult::Obstructed(o) => {
            if verbose {
                println!("REPLAY minimal probe: obstructed ({:?}) - no divergence", o.kind);
            }
            0
        }
        ObserveOpticResult::Reading(rd) => {
            let what = format!(
                "minimal: worldline with ONE commit {} at tick 0; observe_optic(Head) at CoordinateAt::Provenance{{tick 0, commit_hash abab..}} returned a reading {:?} whose read identity names the abab.. coordinate",
                hx(&rec.commit_hash),
                match &rd.payload {
                    ObservationPayload::Head(h) => hx(&h.commit_hash),
                    _ => String::new(),
                }
            );
            if verbose {
                println!("REPLAY divergence [minimal]: {what}");
            }
            rep.violation(
                "C16:observe-optic:provenance-coordinate:commit-hash-not-in-history-answered-with-reading",
                &what,
                json!({"minimal": "provenance-coordinate", "seed": 0, "case": -1}),
            );
            1
        }
    }
}

pub fn run(args: &Args) -> i32 {
    let mut rep = Report::new(args, "exploration", RULE);
    rep.assumption("observe takes & references and warp-core forbids unsafe: most mutation is excluded by the type system; the read-only monitor can only see interior mutability / thread-locals / statics reachable from Debug output, state roots and Engine::verif_fingerprint_parts");
    rep.assumption("G(1): receipt_correlation_full_scan_count (Cell statistics counter under host_test) is projected out of the fingerprint; the projection is self-tested each shard");
    rep.assumption("the contract query observers are harness code; what is judged is the coordinate Echo hands to them");
    rep.assumption("pruned/unretained history is not reachable through any public API of ProvenanceService in this tree, so 'unavailable' is exercised as future ticks, unknown worldlines, provenance-only worldlines and foreign/unknown provenance coordinates");

    if let Some(path) = &args.replay {
        return replay(args, path, rep);
    }

    probe_provenance_coordinate(&mut rep, false);
    let budget = Budget::for_tier(args.tier, 45.0, 600.0);
    let max_cases = args.by_tier(4_000u64, 200_000u64);
    // One shard per worker: every shard runs until the budget expires.
    let n_shards = args.jobs.max(1);
    let seed = args.seed;
    verif_core::run_shards(&mut rep, args.jobs, n_shards, |shard, rep| {
        let mut case = shard as u64;
        let mut first = true;
        while !budget.expired() && case < max_cases {
            rep.eval();
            let res = run_case(rep, seed, case, false, false, first, Some(budget));
            first = false;
            fold_stats(rep, &res.stats);
            if !res.complete {
                rep.count("cases_cut_short_by_budget", 1);
            }
            if nontrivial(&res.stats) {
                rep.nontrivial_hash(res.history_digest);
            }
            if rep.wants_sample() && nontrivial(&res.stats) {
                rep.sample(res.sample.clone());
            }
            // Whole-case determinism: every 4th case is executed a second time
            // from scratch; transcripts (artifact hashes / error digests in
            // issue order) must be identical.
            if (case ^ (case >> 5)) % 4 == 0 && res.complete && !budget.expired() {
                let again = run_case(rep, seed, case, true, false, false, Some(budget));
                if again.complete && res.complete {
                    rep.count("whole_case_reexecutions", 1);
                }
                if again.complete && res.complete && again.transcript != res.transcript {
                    let at = again
                        .transcript
                        .iter()
                        .zip(res.transcript.iter())
                        .position(|(a, b)| a != b)
                        .unwrap_or_else(|| again.transcript.len().min(res.transcript.len()));
                    rep.violation(
                        "C16:observe:determinism:identical-history-rebuilt-gives-different-artifacts",
                        &format!(
                            "case {case} executed twice from scratch: transcripts diverge at read #{at} ({} vs {} entries)",
                            res.transcript.len(),
                            again.transcript.len()
                        ),
                        json!({"seed": seed as i64, "case": case as i64, "detail": {"first_divergence": at}}),
                    );
                }
            }
            case += n_shards as u64;
        }
    });
    crate::wasm_lane::run(&mut rep, args, &budget);
    rep.count(
        "query_observer_invocations",
        observers::OBSERVER_CALLS.load(std::sync::atomic::Ordering::Relaxed),
    );
    rep.finish(args.by_tier(10, 100))
}

fn replay(args: &Args, path: &std::path::Path, mut rep: Report) -> i32 {
    let text = match std::fs::read_to_string(path) {
        Ok(t) => t,
        Err(e) => {
            println!("HARNESS-ERROR cannot read replay file {}: {e}", path.display());
            return 2;
        }
    };
    let v: Value = match serde_json::from_str(&text) {
        Ok(v) => v,
        Err(e) => {
            println!("HARNESS-ERROR replay file is not JSON: {e}");
            return 2;
        }
    };
    let r = &v["replay"];
    if r["minimal"].as_str() == Some("provenance-coordinate") {
        let n = probe_provenance_coordinate(&mut rep, true);
        return i32::from(n > 0 && !rep.is_known(v["signature"].as_str().unwrap_or("")));
    }
    let seed = r["seed"].as_i64().map_or(args.seed, |s| s as u64);
    let Some(case) = r["case"].as_i64() else {
        println!("HARNESS-ERROR replay file has no case index");
        return 2;
    };
    println!(
        "REPLAY property=C16 seed={seed} case={case} signature={}",
        v["signature"].as_str().unwrap_or("?")
    );
    if r["lane"].as_str() == Some("wasm") {
        let n = crate::wasm_lane::run_case(&mut rep, seed, case as u64, true);
        println!("REPLAY wasm lane case {case}: {n} divergence(s)");
        return i32::from(n > 0);
    }
    let res = run_case(&mut rep, seed, case as u64, true, true, false, None);
    let again = run_case(&mut rep, seed, case as u64, true, false, false, None);
    if again.transcript != res.transcript {
        println!("REPLAY divergence [whole-case determinism]: transcripts differ");
    }
    println!(
        "REPLAY case {case}: {} reads, {} divergence(s)",
        res.stats.reads, res.violations
    );
    i32::from(res.violations > 0 || again.transcript != res.transcript)
}
