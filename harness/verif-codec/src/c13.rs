//! C13 — decoders and byte-level entry points are total.
//!
//! Parent side: builds the input corpus per decoder, runs batches in isolated
//! children of this same binary, classifies how each child ended, pins a crash
//! to the single input and applies the allocation-proportionality oracle.

use std::path::{Path, PathBuf};
use std::process::{Command, Stdio};
use std::time::{Duration, Instant};

use verif_core::{h64, hex, json, run_shards, unhex, Args, Budget, Report, Rng, Scratch};

use crate::child;
use crate::codec::{Codec, Family};
use crate::{cborx, mutate, stats};

// 4 MiB of slack: several decoders cap a declared element count at a documented constant and
// pre-allocate up to that cap (scene delta: MAX_OPS = 10 000 ops = 1.2 MB for a 76-byte input).
// That is bounded allocation, not allocation in proportion to a declared length; the defects this
// monitor is after (2^32-element reservations, 10 MiB frames from 4 bytes) are far above it.
const ALLOC_BASE: u64 = 4 << 20;
const ALLOC_SLOPE: u64 = 256;
const MAX_INPUT: usize = 1 << 20;

#[derive(Clone)]
struct Input {
    origin: &'static str,
    /// what the input is (crafted inputs carry their recipe); the class of binary inputs in signatures
    kind: &'static str,
    bytes: Vec<u8>,
}

#[derive(Debug, Clone, PartialEq)]
enum Failure {
    Panic(String),
    StackOverflow,
    AllocAbort(u64),
    Abort(String),
    Signal(i32),
    Watchdog,
    Harness(String),
}

#[derive(Debug, Clone)]
struct Done {
    ok: bool,
    label: String,
    peak: u64,
    micros: u64,
}

struct ChildRun {
    done: Vec<Option<Done>>,
    /// index (relative to the batch) that was in flight when the child died
    crashed_at: Option<usize>,
    failure: Option<Failure>,
    stderr_tail: String,
}

fn case_rng(seed: u64, codec: &str, what: &str, idx: u64) -> Rng {
    Rng::for_case(seed, "C13", h64(format!("{codec}/{what}/{idx}").as_bytes()))
}

fn is_cborish(c: &Codec) -> bool {
    matches!(c.family, Family::CborAbi | Family::CborTyped | Family::CborEdict | Family::CborScene) || c.cbor_offset == 12
}

// ---------------------------------------------------------------------------
// corpus
// ---------------------------------------------------------------------------

fn eint_wrap(header12: &[u8], payload: &[u8]) -> Vec<u8> {
    let mut v = header12.to_vec();
    if v.len() == 12 {
        v[8..12].copy_from_slice(&(payload.len() as u32).to_le_bytes());
    }
    v.extend_from_slice(payload);
    v
}

fn nest(open: &[u8], depth: usize, leaf: &[u8]) -> Vec<u8> {
    let mut v = Vec::with_capacity(open.len() * depth + leaf.len());
    for _ in 0..depth {
        if v.len() + open.len() + leaf.len() > MAX_INPUT {
            break;
        }
        v.extend_from_slice(open);
    }
    v.extend_from_slice(leaf);
    v
}

fn crafted_cbor() -> Vec<Vec<u8>> {
    let mut out = Vec::new();
    for major in 2u8..=5 {
        for len in [1u64 << 31, 1 << 32, 1 << 63, u64::MAX, (1 << 32) - 1, 1 << 20, 1 << 24, (1 << 27) + 1, u64::MAX / 32, u64::MAX / 32 + 1] {
            let h = cborx::min_head(major, len);
            out.push(h.clone());
            let mut v = h.clone();
            v.extend_from_slice(&[0x00, 0x01, 0x02]);
            out.push(v);
            // inside a valid-looking wrapper: [1, <huge>]
            let mut v = vec![0x82, 0x01];
            v.extend_from_slice(&h);
            out.push(v);
            // as a map value under a text key
            let mut v = vec![0xa1, 0x61, b'k'];
            v.extend_from_slice(&h);
            out.push(v);
        }
    }
    for depth in [10usize, 1000, 1_000_000] {
        out.push(nest(&[0x81], depth, &[0x00]));
        out.push(nest(&[0x81], depth, &[]));
        out.push(nest(&[0xa1, 0x00], depth, &[0x00]));
        out.push(nest(&[0xa1, 0x61, b'k'], depth, &[0xf6]));
        out.push(nest(&[0xc0], depth, &[0x00]));
        out.push(nest(&[0x9f], depth, &[0x00]));
        out.push(nest(&[0x82, 0x00], depth, &[0x00]));
        // nesting through map KEY position (a container as the key of the enclosing map),
        // truncated and well-formed; arrays as keys; alternating array/map-key levels
        out.push(nest(&[0xa1], depth, &[0x00]));
        let mut wf = nest(&[0xa1], depth.min(MAX_INPUT / 2 - 2), &[0x00]);
        let levels = wf.len() - 1;
        wf.extend(std::iter::repeat(0x00).take(levels));
        out.push(wf);
        out.push(nest(&[0xa1, 0x81], depth, &[0x00]));
        out.push(nest(&[0x81, 0xa1], depth, &[0x00]));
        out.push(nest(&[0xa2, 0x00, 0x00], depth, &[0x01]));
        out.push(nest(&[0xbf], depth, &[0x00]));
        out.push(nest(&[0xa1, 0xc1], depth, &[0x00]));
    }
    out.push(vec![0xa1; MAX_INPUT]);
    out.push(vec![0x81; MAX_INPUT]);
    out.push(vec![0x00; MAX_INPUT]);
    out.push(vec![0xff; MAX_INPUT]);
    // a wide flat array of 1 MiB-ish
    let mut v = cborx::min_head(4, (MAX_INPUT - 5) as u64);
    v.resize(MAX_INPUT, 0x00);
    out.push(v);
    // 1 MiB text / bytes
    let mut v = cborx::min_head(3, (MAX_INPUT - 5) as u64);
    v.resize(MAX_INPUT, b'a');
    out.push(v);
    out
}

fn crafted_binary(valid: &[Vec<u8>]) -> Vec<Vec<u8>> {
    // every candidate little-endian length/offset/count field × every hostile value
    let mut out = Vec::new();
    for v in valid.iter().take(2) {
        let mut fields = 0;
        let step = if v.len() > 4096 { 8 } else { 1 };
        let mut off = 0;
        while off + 8 <= v.len() && fields < 260 {
            let x = u64::from_le_bytes(v[off..off + 8].try_into().unwrap_or([0; 8]));
            if x <= v.len() as u64 + 16 {
                fields += 1;
                for val in [1u64 << 31, 1 << 32, 1 << 63, u64::MAX, u64::MAX - 7, v.len() as u64, v.len() as u64 + 1, (v.len() as u64).wrapping_sub(1), u64::MAX / 16, (1 << 61) + 1] {
                    let mut m = v.clone();
                    m[off..off + 8].copy_from_slice(&val.to_le_bytes());
                    out.push(m);
                }
            }
            let y = u32::from_le_bytes(v[off..off + 4].try_into().unwrap_or([0; 4]));
            if u64::from(y) <= v.len() as u64 + 16 && step == 1 {
                for val in [1u32 << 31, u32::MAX, u32::MAX - 11, (10 << 20) + 1, 10 << 20] {
                    let mut m = v.clone();
                    m[off..off + 4].copy_from_slice(&val.to_le_bytes());
                    out.push(m);
                }
            }
            off += step;
        }
    }
    out.push(vec![0u8; MAX_INPUT]);
    out.push(vec![0xffu8; MAX_INPUT]);
    out
}

fn crafted_wsc(valid: &[Vec<u8>]) -> Vec<Vec<u8>> {
    // lying section offsets / counts / index ranges / blob ranges: pairs that overflow when added
    let mut out = Vec::new();
    for v in valid.iter().filter(|v| v.len() > 128 + 184).take(3) {
        let n = v.len() as u64;
        // header: tick@40, warp_count@48, warp_dir_off@56 ; dir entry u64 fields from 128+64
        let mut offs: Vec<usize> = vec![48, 56];
        offs.extend((0..17).map(|i| 128 + 64 + 8 * i));
        for &o in &offs {
            for val in [0u64, 1, 7, n - 1, n, n + 1, 1 << 31, 1 << 32, 1 << 63, u64::MAX, u64::MAX - 7, u64::MAX / 64, u64::MAX / 128 + 1, u64::MAX / 56] {
                let mut m = v.clone();
                m[o..o + 8].copy_from_slice(&val.to_le_bytes());
                out.push(m);
            }
        }
        // index tables and attachment rows: every 8-aligned u64 after the directory, two hostile values,
        // and (start,len) pairs whose sum wraps
        let mut o = 128 + 184;
        let mut count = 0;
        while o + 16 <= v.len() && count < 400 {
            let a = u64::from_le_bytes(v[o..o + 8].try_into().unwrap_or([0; 8]));
            if a <= n {
                count += 1;
                for (x, y) in [(u64::MAX, 1u64), (u64::MAX, u64::MAX), (1 << 63, 1 << 63), (u64::MAX - 1, 2), (0, u64::MAX), (1, u64::MAX)] {
                    let mut m = v.clone();
                    m[o..o + 8].copy_from_slice(&x.to_le_bytes());
                    m[o + 8..o + 16].copy_from_slice(&y.to_le_bytes());
                    out.push(m);
                }
            }
            o += 8;
        }
    }
    out
}

fn crafted_elog(valid: &[Vec<u8>]) -> Vec<Vec<u8>> {
    let mut out = Vec::new();
    if let Some(v) = valid.first() {
        let hdr = &v[..v.len().min(48)];
        for len in [10u32 << 20, (10 << 20) + 1, (10 << 20) - 1, 1 << 20, u32::MAX, 1 << 31] {
            let mut m = hdr.to_vec();
            m.extend_from_slice(&len.to_le_bytes());
            out.push(m.clone());
            m.extend_from_slice(&[1, 2, 3]);
            out.push(m);
        }
        for tail in 1..4 {
            let mut m = v.clone();
            m.extend_from_slice(&vec![0xee; tail]);
            out.push(m);
        }
    }
    out
}

fn crafted_segment(valid: &[Vec<u8>], rng: &mut Rng, n: usize) -> Vec<Vec<u8>> {
    // mutate record payloads *behind* the disk-record digest and re-seal them
    let mut out = Vec::new();
    for seg in valid.iter().take(3) {
        if !crate::wsc::self_check_reseal(seg) {
            continue;
        }
        let Some(recs) = crate::wsc::split_records(seg) else { continue };
        for _ in 0..n {
            let mut r2 = recs.clone();
            let i = rng.below_usize(r2.len());
            let kind = *rng.pick(mutate::BINARY_KINDS);
            if let Some(m) = mutate::mutate_binary(&r2[i].1, &[8, 32], kind, rng) {
                r2[i].1 = m;
                if rng.chance(1, 6) {
                    r2[i].0 = rng.next_u32() as u8;
                }
                out.push(crate::wsc::seal_records(&r2));
            }
        }
        // record-level edits
        for i in 0..recs.len() {
            let mut r2 = recs.clone();
            r2.remove(i);
            out.push(crate::wsc::seal_records(&r2));
            let mut r2 = recs.clone();
            let d = r2[i].clone();
            r2.insert(i, d);
            out.push(crate::wsc::seal_records(&r2));
            if i + 1 < recs.len() {
                let mut r2 = recs.clone();
                r2.swap(i, i + 1);
                out.push(crate::wsc::seal_records(&r2));
            }
        }
    }
    out
}

fn build_corpus(codec: &Codec, args: &Args) -> (Vec<Input>, u64) {
    let seed = args.seed;
    let mut inputs: Vec<Input> = Vec::new();
    let mut harness_refusals = 0u64;
    // 1. valid encodings
    let n_valid = if codec.name == "wal.segment" { args.by_tier(4u64, 30) } else { args.by_tier(40u64, 400) };
    let mut valid: Vec<Vec<u8>> = Vec::new();
    for i in 0..n_valid * 2 {
        if valid.len() as u64 >= n_valid {
            break;
        }
        let mut rng = case_rng(seed, codec.name, "valid", i);
        let rt = (codec.roundtrip)(&mut rng);
        if rt.refused.is_some() {
            harness_refusals += 1;
            continue;
        }
        if !rt.bytes.is_empty() && rt.bytes.len() <= MAX_INPUT {
            valid.push(rt.bytes);
        }
    }
    for v in &valid {
        inputs.push(Input { origin: "valid", kind: "valid", bytes: v.clone() });
    }
    let mut small: Vec<Vec<u8>> = valid.iter().filter(|v| v.len() <= 4096).cloned().collect();
    small.sort_by_key(Vec::len);
    // 2. truncation at every offset
    for v in small.iter().rev().take(args.by_tier(2, 8)).chain(small.iter().take(1)) {
        let step = (v.len() / args.by_tier(300, 1500)).max(1);
        for cut in (0..v.len()).step_by(step) {
            inputs.push(Input { origin: "truncated", kind: "truncated", bytes: v[..cut].to_vec() });
        }
    }
    // 3. structure-aware mutations
    let n_mut = if codec.name == "wal.segment" { args.by_tier(40u64, 400) } else { args.by_tier(400u64, 6000) };
    if !valid.is_empty() {
        for i in 0..n_mut {
            let mut rng = case_rng(seed, codec.name, "mut", i);
            let v = &valid[rng.below_usize(valid.len())];
            if v.len() > 64 * 1024 && rng.chance(7, 8) {
                continue;
            }
            if let Some((_, m)) = mutate::mutate(codec, v, &mut rng) {
                if m.len() <= MAX_INPUT {
                    inputs.push(Input { origin: "mutated", kind: "mutated", bytes: m });
                }
            }
        }
    }
    // 4. random (with valid prefixes so that magic/version gates are passed sometimes)
    let n_rand = args.by_tier(250u64, 4000);
    for i in 0..n_rand {
        let mut rng = case_rng(seed, codec.name, "rand", i);
        let len = match rng.below(10) {
            0 => rng.range_usize(0, 4),
            1 => rng.range_usize(256, 4096),
            _ => rng.range_usize(1, 96),
        };
        let mut b = rng.bytes(len);
        if !small.is_empty() && rng.chance(1, 2) {
            let v = &small[rng.below_usize(small.len())];
            let k = rng.below_usize(v.len().min(64) + 1);
            let mut p = v[..k].to_vec();
            p.extend_from_slice(&b);
            b = p;
        }
        inputs.push(Input { origin: "random", kind: "random", bytes: b });
    }
    let mut rng = case_rng(seed, codec.name, "rand-big", 0);
    inputs.push(Input { origin: "random", kind: "random", bytes: rng.bytes(MAX_INPUT) });
    // 5. crafted
    let mut crafted: Vec<(&'static str, Vec<u8>)> = Vec::new();
    if is_cborish(codec) {
        let raw = crafted_cbor();
        if codec.cbor_offset == 12 {
            let header: Vec<u8> = valid.first().map_or_else(|| b"EINT\x07\0\0\0\0\0\0\0".to_vec(), |v| v[..12.min(v.len())].to_vec());
            for r in raw {
                if r.len() + 12 <= MAX_INPUT {
                    crafted.push(("cbor-crafted", eint_wrap(&header, &r)));
                } else {
                    crafted.push(("cbor-crafted", eint_wrap(&header, &r[..MAX_INPUT - 12])));
                }
            }
            // lying envelope lengths
            for len in [u32::MAX, 1 << 31, 0, 1] {
                let mut v = header.clone();
                if v.len() == 12 {
                    v[8..12].copy_from_slice(&len.to_le_bytes());
                }
                v.extend_from_slice(&[0xa0]);
                crafted.push(("eint-lying-length", v));
            }
        } else {
            crafted.extend(raw.into_iter().map(|r| ("cbor-crafted", r)));
        }
    }
    if codec.family == Family::Binary {
        crafted.extend(crafted_binary(&small).into_iter().map(|r| ("le-field-hostile-value", r)));
    }
    match codec.name {
        "wsc.file" => crafted.extend(crafted_wsc(&small).into_iter().map(|r| ("wsc-lying-offset-count-range", r))),
        "wsc.store_envelope" => {
            // lying inner WSC behind an honest digest cannot be forged (private digest); header lies only
            crafted.extend(crafted_wsc(&small.iter().map(|v| v[124.min(v.len())..].to_vec()).collect::<Vec<_>>()).into_iter().take(200).map(|r| ("wsc-lying-offset-count-range", r)));
        }
        "abi.eintlog" => crafted.extend(crafted_elog(&small).into_iter().map(|r| ("elog-frame-length", r))),
        "wal.segment" => {
            let mut rng = case_rng(seed, codec.name, "reseal", 0);
            crafted.extend(crafted_segment(&valid, &mut rng, args.by_tier(150, 3000)).into_iter().map(|r| ("resealed-record", r)));
        }
        _ => {}
    }
    for (kind, c) in crafted {
        if c.len() <= MAX_INPUT {
            inputs.push(Input { origin: "crafted", kind, bytes: c });
        }
    }
    (inputs, harness_refusals)
}

// ---------------------------------------------------------------------------
// child management
// ---------------------------------------------------------------------------

fn panic_slug(stderr: &str) -> String {
    // "thread 'decode' panicked at path/to/file.rs:LINE:COL:\nmessage"
    let Some(pos) = stderr.find("panicked at ") else { return "unknown".into() };
    let rest = &stderr[pos + "panicked at ".len()..];
    let (loc, msg) = rest.split_once('\n').unwrap_or((rest, ""));
    let loc = loc.trim_end_matches(':');
    let path = loc.split(':').next().unwrap_or("");
    let comps: Vec<&str> = path.split('/').collect();
    let file = comps[comps.len().saturating_sub(2)..].join("/");
    let words: Vec<String> = msg
        .lines()
        .next()
        .unwrap_or("")
        .split(|c: char| !c.is_ascii_alphabetic())
        .filter(|w| !w.is_empty())
        .take(6)
        .map(str::to_ascii_lowercase)
        .collect();
    format!("{file}:{}", words.join("-"))
}

/// Run a throw-away batch (confirmation / bisection / replay).
fn run_child(bin: &Path, decoder: &str, inputs: &[&[u8]], scratch: &Scratch, tag: &str, timeout: Duration) -> ChildRun {
    let batch = scratch.path().join(format!("{tag}.batch"));
    if let Err(e) = child::write_batch(&batch, inputs) {
        return ChildRun { done: vec![None; inputs.len()], crashed_at: None, failure: Some(Failure::Harness(format!("write batch: {e}"))), stderr_tail: String::new() };
    }
    let r = run_child_file(bin, decoder, &batch, inputs.len(), 0, &[], scratch, tag, timeout);
    let _ = std::fs::remove_file(&batch);
    r
}

/// Run inputs `from..` (minus `skip`) of an already written batch file.
#[allow(clippy::too_many_arguments)]
fn run_child_file(bin: &Path, decoder: &str, batch: &Path, n_inputs: usize, from: usize, skip: &[usize], scratch: &Scratch, tag: &str, timeout: Duration) -> ChildRun {
    let out = scratch.path().join(format!("{tag}.out"));
    let errf = scratch.path().join(format!("{tag}.err"));
    let _ = std::fs::remove_file(&out);
    let mut run = ChildRun { done: vec![None; n_inputs], crashed_at: None, failure: None, stderr_tail: String::new() };
    let Ok(errfile) = std::fs::File::create(&errf) else {
        run.failure = Some(Failure::Harness("create stderr file".into()));
        return run;
    };
    let spawned = Command::new(bin)
        .args(["--child", "1", "--decoder", decoder, "--batch"])
        .arg(batch)
        .arg("--out")
        .arg(&out)
        .args(["--from", &from.to_string()])
        .args(if skip.is_empty() { vec![] } else { vec!["--skip".to_owned(), skip.iter().map(ToString::to_string).collect::<Vec<_>>().join(",")] })
        .env("RUST_BACKTRACE", "0")
        .stdin(Stdio::null())
        .stdout(Stdio::null())
        .stderr(Stdio::from(errfile))
        .spawn();
    let mut ch = match spawned {
        Ok(c) => c,
        Err(e) => {
            run.failure = Some(Failure::Harness(format!("spawn: {e}")));
            return run;
        }
    };
    let t0 = Instant::now();
    let mut killed = false;
    let status = loop {
        match ch.try_wait() {
            Ok(Some(s)) => break Some(s),
            Ok(None) => {
                if t0.elapsed() > timeout {
                    let _ = ch.kill();
                    killed = true;
                    break ch.wait().ok();
                }
                std::thread::sleep(Duration::from_millis(if t0.elapsed() < Duration::from_millis(200) { 2 } else { 15 }));
            }
            Err(_) => break None,
        }
    };
    let text = std::fs::read_to_string(&out).unwrap_or_default();
    let progf = scratch.path().join(format!("{tag}.out.prog"));
    let prog_word = std::fs::read(&progf).ok().and_then(|b| b.get(..8).map(|x| u64::from_le_bytes(x.try_into().unwrap_or([0; 8])))).unwrap_or(0);
    let _ = std::fs::remove_file(&progf);
    let stderr = std::fs::read_to_string(&errf).unwrap_or_default();
    run.stderr_tail = stderr.chars().rev().take(1500).collect::<String>().chars().rev().collect();
    let in_flight: Option<usize> = if prog_word > 0 { Some(prog_word as usize - 1) } else { None };
    let mut ended = false;
    let mut trip: Option<u64> = None;
    let mut kernel_fail = None;
    for line in text.lines() {
        let mut it = line.split(' ');
        match it.next() {
            Some("D") => {
                let i: usize = it.next().and_then(|s| s.parse().ok()).unwrap_or(usize::MAX);
                let ok = it.next() == Some("ok");
                let label = it.next().unwrap_or("-").to_owned();
                let peak = it.next().and_then(|s| s.parse().ok()).unwrap_or(0);
                let micros = it.next().and_then(|s| s.parse().ok()).unwrap_or(0);
                if i < run.done.len() {
                    run.done[i] = Some(Done { ok, label, peak, micros });
                }
            }
            Some("TRIP") => trip = it.next().and_then(|s| s.parse().ok()),
            Some("END") => ended = true,
            Some("KERNELFAIL") => kernel_fail = Some(line.to_owned()),
            _ => {}
        }
    }
    let _ = std::fs::remove_file(&out);
    let _ = std::fs::remove_file(&errf);
    if let Some(k) = kernel_fail {
        run.failure = Some(Failure::Harness(k));
        return run;
    }
    let Some(status) = status else {
        run.failure = Some(Failure::Harness("wait failed".into()));
        return run;
    };
    if killed {
        run.crashed_at = in_flight;
        run.failure = Some(Failure::Watchdog);
        return run;
    }
    if status.success() && ended {
        return run;
    }
    use std::os::unix::process::ExitStatusExt;
    run.crashed_at = in_flight;
    let failure = if let Some(sig) = status.signal() {
        if stderr.contains("has overflowed its stack") {
            Failure::StackOverflow
        } else if let Some(t) = trip {
            Failure::AllocAbort(t)
        } else if sig == libc::SIGABRT {
            if stderr.contains("memory allocation of") {
                // the OS limit fired without our monitor tripping first ⇒ not a verdict
                Failure::Harness(format!("allocation failure under RLIMIT_AS without monitor trip: {}", run.stderr_tail.lines().last().unwrap_or("")))
            } else {
                Failure::Abort(run.stderr_tail.lines().last().unwrap_or("").chars().take(80).collect())
            }
        } else {
            Failure::Signal(sig)
        }
    } else {
        match status.code() {
            Some(101) => Failure::Panic(panic_slug(&stderr)),
            Some(c) => Failure::Harness(format!("child exit code {c}: {}", run.stderr_tail.lines().last().unwrap_or(""))),
            None => Failure::Harness("no status".into()),
        }
    };
    if in_flight.is_none() && !matches!(failure, Failure::Harness(_)) {
        run.failure = Some(Failure::Harness(format!("child died outside a decode call: {failure:?}")));
    } else {
        run.failure = Some(failure);
    }
    run
}

fn failure_key(f: &Failure) -> String {
    match f {
        Failure::Panic(slug) => format!("panic:{slug}"),
        Failure::StackOverflow => "stack-overflow".into(),
        Failure::AllocAbort(_) => "alloc-abort".into(),
        Failure::Abort(_) => "abort".into(),
        Failure::Signal(s) => format!("signal-{s}"),
        Failure::Watchdog => "watchdog".into(),
        Failure::Harness(_) => "harness".into(),
    }
}

fn elog_class(b: &[u8]) -> Option<&'static str> {
    // 48-byte header, then u32-LE length-prefixed frames
    let mut off = 48usize;
    while off + 4 <= b.len() {
        let len = u32::from_le_bytes(b[off..off + 4].try_into().ok()?) as usize;
        off += 4;
        if len > b.len() - off {
            return Some("declared-frame-len-exceeds-input");
        }
        off += len;
    }
    None
}

/// Input class for signatures and for the "enough witnesses" rule. Derived from the input itself where a
/// cheap structural reading exists (CBOR, ELOG), else from the recipe that produced it.
fn input_class(codec: &Codec, input: &Input) -> &'static str {
    if is_cborish(codec) {
        cborx::crash_class_any(&input.bytes)
    } else if codec.name == "abi.eintlog" {
        elog_class(&input.bytes).unwrap_or(input.kind)
    } else {
        input.kind
    }
}

struct Lane<'a> {
    name: &'static str,
    bin: &'a Path,
}

fn threshold(len: usize) -> u64 {
    ALLOC_BASE + ALLOC_SLOPE * len as u64
}

/// Run every input of `inputs` (minus `skip`) through `codec` in children of `lane.bin`.
#[allow(clippy::too_many_arguments)]
fn process_decoder(
    codec: &Codec,
    lane: &Lane<'_>,
    inputs: &[Input],
    scratch: &Scratch,
    tag: &str,
    rep: &mut Report,
    st: &mut stats::Local,
    failed_idx: &mut Vec<usize>,
    skip: &[usize],
    budget: &Budget,
    release_sigs: &std::collections::BTreeSet<String>,
    seen_sigs: &mut std::collections::BTreeSet<String>,
    saturated: &mut std::collections::BTreeSet<&'static str>,
) -> bool {
    let skipset: std::collections::BTreeSet<usize> = skip.iter().copied().collect();
    let classes: Vec<&'static str> = inputs.iter().map(|i| input_class(codec, i)).collect();
    // batch files: small inputs together, big ones in groups of <= 4 MiB
    let mut groups: Vec<Vec<usize>> = Vec::new();
    let mut cur: Vec<usize> = Vec::new();
    let mut cur_bytes = 0usize;
    let mut bigs: Vec<usize> = Vec::new();
    for (i, inp) in inputs.iter().enumerate() {
        if skipset.contains(&i) {
            continue;
        }
        if inp.bytes.len() >= 64 << 10 {
            bigs.push(i);
            continue;
        }
        cur.push(i);
        cur_bytes += inp.bytes.len();
        if cur.len() >= 512 || cur_bytes >= 4 << 20 {
            groups.push(std::mem::take(&mut cur));
            cur_bytes = 0;
        }
    }
    if !cur.is_empty() {
        groups.push(cur);
    }
    let mut cur: Vec<usize> = Vec::new();
    let mut cur_bytes = 0usize;
    for i in bigs {
        cur.push(i);
        cur_bytes += inputs[i].bytes.len();
        if cur_bytes >= 3 << 20 {
            groups.push(std::mem::take(&mut cur));
            cur_bytes = 0;
        }
    }
    if !cur.is_empty() {
        groups.push(cur);
    }
    let suffix = if lane.name == "release" { String::new() } else { format!(":{}-profile", lane.name) };
    let mut sig_counts: std::collections::BTreeMap<String, u32> = std::collections::BTreeMap::new();
    let mut complete = true;
    for (gi, idx) in groups.iter().enumerate() {
        if budget.expired() {
            complete = false;
            break;
        }
        let batch = scratch.path().join(format!("{tag}-{gi}.batch"));
        let slice: Vec<&[u8]> = idx.iter().map(|i| inputs[*i].bytes.as_slice()).collect();
        if let Err(e) = child::write_batch(&batch, &slice) {
            rep.inconclusive(&format!("{}: cannot write batch: {e}", codec.name));
            continue;
        }
        let mut from = 0usize;
        let mut crashed_rel: Vec<usize> = Vec::new();
        let mut counted_skips: std::collections::BTreeSet<usize> = std::collections::BTreeSet::new();
        while from < idx.len() {
            // once a crash signature has 6 witnesses, further inputs of that same input class are not run
            let mut skip_rel: Vec<usize> = (from..idx.len()).filter(|k| saturated.contains(classes[idx[*k]])).collect();
            st.add("inputs_skipped_crash_class_already_witnessed", skip_rel.iter().filter(|k| counted_skips.insert(**k)).count() as u64);
            skip_rel.extend(crashed_rel.iter().copied().filter(|k| *k >= from));
            if (from..idx.len()).all(|k| skip_rel.contains(&k)) {
                break;
            }
            let t_child = Instant::now();
            let run = run_child_file(lane.bin, codec.name, &batch, idx.len(), from, &skip_rel, scratch, tag, Duration::from_secs(180));
            st.add("children_spawned", 1);
            if std::env::var_os("VERIF_C13_TIMING").is_some() {
                eprintln!("TIMING child {:7.3}s {} [{}] n={} from={} done={} failure={:?}", t_child.elapsed().as_secs_f64(), codec.name, lane.name, idx.len(), from, run.done.iter().filter(|d| d.is_some()).count(), run.failure.as_ref().map(failure_key));
            }
            for (k, d) in run.done.iter().enumerate() {
                let Some(d) = d else { continue };
                let inp = &inputs[idx[k]];
                rep.eval();
                st.add(&format!("{}:calls", lane.name), 1);
                st.add(&format!("inputs_{}", inp.origin), 1);
                if d.ok {
                    st.add("returned_ok", 1);
                } else {
                    st.add("returned_err", 1);
                    st.add(&format!("err:{}", d.label), 1);
                }
                st.max("max_call_micros", d.micros);
                st.max("max_peak_heap_bytes", d.peak);
                if inp.origin == "valid" && !inp.bytes.is_empty() {
                    st.max("max_alloc_ratio_valid_x100", d.peak * 100 / inp.bytes.len() as u64);
                }
                let mut key = codec.name.as_bytes().to_vec();
                key.push(0);
                key.extend_from_slice(&inp.bytes);
                rep.nontrivial(&key);
                if d.peak > threshold(inp.bytes.len()) {
                    let class = classes[idx[k]];
                    st.add("alloc_ratio_violations", 1);
                    failed_idx.push(idx[k]);
                    let base_sig = format!("C13:{}:alloc-ratio:{class}", codec.name);
                    let sig = if release_sigs.contains(&base_sig) { base_sig.clone() } else { format!("{base_sig}{suffix}") };
                    seen_sigs.insert(base_sig);
                    rep.violation(
                        &sig,
                        &format!(
                            "{}: a call on a {}-byte {} input returned {} but held {} bytes of live heap at peak (limit 4 MiB + 256 x len = {}); input head {}",
                            codec.name,
                            inp.bytes.len(),
                            inp.origin,
                            if d.ok { "Ok" } else { "Err" },
                            d.peak,
                            threshold(inp.bytes.len()),
                            hex(&inp.bytes[..inp.bytes.len().min(48)])
                        ),
                        json!({"mode": "c13", "decoder": codec.name, "lane": lane.name, "failure": "alloc-ratio", "class": class, "inputs_hex": [hex(&inp.bytes)]}),
                    );
                }
                if rep.wants_sample() && idx[k] % 397 == 11 {
                    rep.sample(json!({"decoder": codec.name, "lane": lane.name, "origin": inp.origin, "len": inp.bytes.len(), "head_hex": hex(&inp.bytes[..inp.bytes.len().min(32)]), "result": if d.ok {"ok".to_owned()} else {format!("err:{}", d.label)}, "peak_heap": d.peak, "micros": d.micros}));
                }
            }
            let Some(failure) = run.failure else { break };
            // results are flushed in order; whatever ran after the last flushed result is re-run
            let next_from = run.done.iter().rposition(Option::is_some).map_or(from, |k| (k + 1).max(from));
            if let Some(k) = run.crashed_at {
                crashed_rel.push(k);
            }
            match (&failure, run.crashed_at) {
                (Failure::Harness(why), at) => {
                    rep.inconclusive(&format!("{} [{}]: child harness error: {}", codec.name, lane.name, why.chars().take(160).collect::<String>()));
                    match at {
                        Some(_) => from = next_from,
                        None => break,
                    }
                }
                (Failure::Watchdog, at) => {
                    rep.inconclusive(&format!("{} [{}]: wall-clock watchdog (180 s per child) fired - no verdict for the input in flight", codec.name, lane.name));
                    st.add("watchdog_kills", 1);
                    match at {
                        Some(_) => from = next_from,
                        None => break,
                    }
                }
                (_, None) => break,
                (_, Some(k)) => {
                    let gidx = idx[k];
                    let inp = &inputs[gidx];
                    let fkey = failure_key(&failure);
                    st.add(&format!("crash:{}", fkey.split(':').next().unwrap_or("?")), 1);
                    failed_idx.push(gidx);
                    rep.eval();
                    let class = classes[gidx];
                    // for non-CBOR decoders the panic site already is the narrow part of the signature
                    let sig_class = if matches!(failure, Failure::Panic(_)) && !is_cborish(codec) { "any-input" } else { class };
                    let base_sig = format!("C13:{}:{fkey}:{sig_class}", codec.name);
                    // a dev-lane failure that the release lane shows too is the same defect: no lane suffix
                    let sig = if release_sigs.contains(&base_sig) { base_sig.clone() } else { format!("{base_sig}{suffix}") };
                    seen_sigs.insert(base_sig);
                    let seen = sig_counts.entry(sig.clone()).or_insert(0);
                    *seen += 1;
                    // crafted recipes need few witnesses; generic classes keep running much longer
                    let generic = matches!(class, "other" | "valid" | "mutated" | "random" | "truncated");
                    if *seen >= if generic { 25 } else { 6 } {
                        saturated.insert(class);
                    }
                    let mut replay_inputs = vec![hex(&inp.bytes)];
                    let mut confirmed = true;
                    // pin the first three witnesses of a signature to the single input in a fresh child
                    if *seen <= 3 {
                        let solo = run_child(lane.bin, codec.name, &[inp.bytes.as_slice()], scratch, &format!("{tag}s"), Duration::from_secs(120));
                        st.add("children_spawned", 1);
                        let same = solo.failure.as_ref().map(failure_key) == Some(fkey.clone());
                        if !same {
                            // state-dependent: find the shortest suffix of the already-run prefix that still crashes
                            confirmed = false;
                            let crashes = |j: usize| -> bool {
                                let sl: Vec<&[u8]> = idx[j..=k].iter().map(|i| inputs[*i].bytes.as_slice()).collect();
                                let r = run_child(lane.bin, codec.name, &sl, scratch, &format!("{tag}b"), Duration::from_secs(120));
                                r.failure.as_ref().map(failure_key) == Some(fkey.clone())
                            };
                            if crashes(0) {
                                let (mut lo, mut hi) = (0usize, k);
                                while lo < hi {
                                    let mid = (lo + hi + 1) / 2;
                                    if crashes(mid) {
                                        lo = mid;
                                    } else {
                                        hi = mid - 1;
                                    }
                                }
                                replay_inputs = idx[lo..=k].iter().map(|i| hex(&inputs[*i].bytes)).collect();
                                confirmed = true;
                                st.add("state_dependent_crashes", 1);
                            }
                        }
                    }
                    if confirmed {
                        let detail = match &failure {
                            Failure::AllocAbort(n) => format!("allocation request of {n} bytes (live heap would exceed 2 GiB) => allocation-failure abort"),
                            Failure::StackOverflow => "stack overflow (8 MiB decode thread) => SIGABRT".to_owned(),
                            Failure::Panic(s) => format!("panic at {s} => exit 101"),
                            other => format!("{other:?}"),
                        };
                        rep.violation(
                            &sig,
                            &format!(
                                "{} [{} build]: {} on a {}-byte {} input (class {class}); input head {}; stderr tail: {}",
                                codec.name,
                                lane.name,
                                detail,
                                inp.bytes.len(),
                                inp.origin,
                                hex(&inp.bytes[..inp.bytes.len().min(48)]),
                                run.stderr_tail.lines().rev().take(3).collect::<Vec<_>>().join(" | ").chars().take(300).collect::<String>()
                            ),
                            json!({"mode": "c13", "decoder": codec.name, "lane": lane.name, "failure": fkey, "class": class, "origin": inp.origin, "inputs_hex": replay_inputs}),
                        );
                    } else {
                        rep.inconclusive(&format!("{} [{}]: a child died ({fkey}) but neither the single input nor the batch prefix reproduces it", codec.name, lane.name));
                    }
                    from = next_from;
                }
            }
        }
        let _ = std::fs::remove_file(&batch);
    }
    complete
}

fn replay(args: &Args, path: &Path, codecs: &[Codec]) -> i32 {
    let Ok(text) = std::fs::read_to_string(path) else {
        println!("HARNESS-ERROR cannot read replay {}", path.display());
        return 2;
    };
    let Ok(v) = serde_json::from_str::<verif_core::Value>(&text) else {
        println!("HARNESS-ERROR replay is not JSON");
        return 2;
    };
    let r = &v["replay"];
    let name = r["decoder"].as_str().unwrap_or("");
    let Some(codec) = codecs.iter().find(|c| c.name == name) else {
        println!("HARNESS-ERROR unknown decoder {name}");
        return 2;
    };
    let lane_name = r["lane"].as_str().unwrap_or("release");
    let bin = lane_bin(lane_name).unwrap_or_else(|| std::env::current_exe().unwrap_or_default());
    let inputs: Vec<Vec<u8>> = r["inputs_hex"].as_array().map(|a| a.iter().filter_map(|x| x.as_str().and_then(unhex)).collect()).unwrap_or_default();
    if inputs.is_empty() {
        println!("HARNESS-ERROR replay has no inputs");
        return 2;
    }
    let _ = args;
    println!("REPLAY property=C13 decoder={name} lane={lane_name} inputs={} signature={}", inputs.len(), v["signature"].as_str().unwrap_or("?"));
    let scratch = Scratch::new("c13replay");
    let refs: Vec<&[u8]> = inputs.iter().map(Vec::as_slice).collect();
    let run = run_child(&bin, codec.name, &refs, &scratch, "r", Duration::from_secs(300));
    let mut bad = false;
    for (i, d) in run.done.iter().enumerate() {
        if let Some(d) = d {
            let over = d.peak > threshold(inputs[i].len());
            println!("  input {i} ({} bytes): returned {} {} peak_heap={} limit={} {}", inputs[i].len(), if d.ok { "Ok" } else { "Err" }, d.label, d.peak, threshold(inputs[i].len()), if over { "<-- ALLOCATION OUT OF PROPORTION" } else { "" });
            bad |= over;
        }
    }
    if let Some(f) = &run.failure {
        println!("  child ended: {f:?} while decoding input {:?}", run.crashed_at);
        println!("  stderr tail: {}", run.stderr_tail.lines().rev().take(4).collect::<Vec<_>>().join(" | "));
        match f {
            Failure::Harness(_) | Failure::Watchdog => {
                println!("INCONCLUSIVE replay");
                return 2;
            }
            _ => bad = true,
        }
    }
    if bad {
        println!("DIVERGENCE decoder is not total on this input");
        1
    } else {
        println!("  every call returned Ok/Err within the allocation limit — totality holds for this input now");
        0
    }
}

/// Sanitizer lanes (thorough tier, or `VERIF_C13_SAN=1`): the same child entry
/// point under valgrind memcheck, and an in-process run of the decoder under
/// Miri, over a small slice of every kernel-free decoder's corpus. First-party
/// code has no `unsafe`; what these lanes can see is misuse inside dependencies
/// (`bytemuck` casts in the zero-copy WSC reader, `bytes`, `ciborium`, `half`) and
/// alignment assumptions. A lane that cannot run is recorded as skipped.
fn sanitizer_lanes(rep: &mut Report, args: &Args, codecs: &[Codec], corpora: &[Vec<Input>], self_bin: &Path, scratch: &Scratch) {
    let want = args.tier == verif_core::Tier::Thorough || std::env::var("VERIF_C13_SAN").is_ok_and(|v| v == "1");
    if !want {
        rep.set("sanitizer_lanes", json!("not run in this tier (thorough, or VERIF_C13_SAN=1)"));
        return;
    }
    let mut skipped: Vec<String> = Vec::new();
    let mut vg_inputs = 0u64;
    let mut vg_decoders = 0u64;
    let mut miri_inputs = 0u64;
    let mut miri_decoders = 0u64;
    let have_vg = Command::new("valgrind").arg("--version").stdout(Stdio::null()).stderr(Stdio::null()).status().is_ok_and(|s| s.success());
    if !have_vg {
        skipped.push("valgrind: not installed".into());
    }
    let harness_dir = std::env::var("VERIF_ROOT").map_or_else(|_| PathBuf::from("/verif/harness"), |r| PathBuf::from(r).join("harness"));
    let miri_ok = std::env::var("VERIF_REPO_OVERRIDE").is_err();
    if !miri_ok {
        skipped.push("miri: not run against an override worktree".into());
    }
    let miri_budget = Instant::now();
    let miri_limit = Duration::from_secs(std::env::var("VERIF_C13_MIRI_BUDGET_S").ok().and_then(|s| s.parse().ok()).unwrap_or(1500));
    for (ci, codec) in codecs.iter().enumerate() {
        if codec.needs_kernel {
            continue;
        }
        // a small slice: a few of every origin, nothing above 16 KiB
        let mut pick: Vec<&Input> = Vec::new();
        let mut per: std::collections::BTreeMap<&'static str, usize> = std::collections::BTreeMap::new();
        for i in &corpora[ci] {
            if i.bytes.len() > 16 << 10 {
                continue;
            }
            let n = per.entry(i.origin).or_insert(0);
            let cap = match i.origin { "valid" => 6, "mutated" => 24, "truncated" => 12, "crafted" => 8, _ => 6 };
            if *n < cap {
                *n += 1;
                pick.push(i);
            }
        }
        if pick.is_empty() {
            continue;
        }
        let refs: Vec<&[u8]> = pick.iter().map(|i| i.bytes.as_slice()).collect();
        let batch = scratch.path().join(format!("san-{ci}.batch"));
        if child::write_batch(&batch, &refs).is_err() {
            continue;
        }
        if have_vg {
            let out = scratch.path().join(format!("san-{ci}.out"));
            let log = scratch.path().join(format!("san-{ci}.vg"));
            let res = Command::new("valgrind")
                .args(["-q", "--error-exitcode=97", "--leak-check=no", "--track-origins=no", "--num-callers=12"])
                .arg(format!("--log-file={}", log.display()))
                .arg(self_bin)
                .args(["--child", "1", "--no-rlimit", "1", "--decoder", codec.name, "--batch"])
                .arg(&batch)
                .arg("--out")
                .arg(&out)
                .env("RUST_BACKTRACE", "0")
                .stdin(Stdio::null())
                .stdout(Stdio::null())
                .stderr(Stdio::null())
                .status();
            rep.eval();
            match res {
                Ok(st) if st.code() == Some(97) => {
                    let text = std::fs::read_to_string(&log).unwrap_or_default();
                    let kind = ["Invalid read", "Invalid write", "Conditional jump", "Use of uninitialised", "Invalid free", "Mismatched free", "Source and destination overlap"]
                        .iter()
                        .find(|k| text.contains(**k))
                        .map_or("error", |k| *k)
                        .replace(' ', "-")
                        .to_lowercase();
                    rep.violation(
                        &format!("C13:{}:valgrind-memcheck:{kind}", codec.name),
                        &format!("valgrind memcheck reported an error while {} decoded {} inputs: {}", codec.name, refs.len(), text.lines().take(14).collect::<Vec<_>>().join(" | ")),
                        json!({"decoder": codec.name, "lane": "valgrind", "inputs_hex": pick.iter().take(64).map(|i| verif_core::hex(&i.bytes[..i.bytes.len().min(256)])).collect::<Vec<_>>()}),
                    );
                }
                Ok(st) if st.success() => {
                    vg_inputs += refs.len() as u64;
                    vg_decoders += 1;
                }
                Ok(st) => skipped.push(format!("valgrind:{}: child exited {:?} (not a memcheck report)", codec.name, st.code())),
                Err(e) => skipped.push(format!("valgrind:{}: {e}", codec.name)),
            }
        }
        if miri_ok && miri_budget.elapsed() < miri_limit {
            // Miri is ~4 orders of magnitude slower: a dozen inputs per decoder
            let few: Vec<&[u8]> = refs.iter().take(12).copied().collect();
            let mb = scratch.path().join(format!("miri-{ci}.batch"));
            if child::write_batch(&mb, &few).is_err() {
                continue;
            }
            let res = Command::new("cargo")
                .args(["+nightly", "miri", "run", "--offline", "-q", "-p", "verif-codec", "--target-dir"])
                .arg(harness_dir.join("..").join("target-miri-codec"))
                .args(["--", "--inproc", "1", "--prop", "C13", "--decoder", codec.name, "--batch"])
                .arg(&mb)
                .current_dir(&harness_dir)
                .env("MIRIFLAGS", "-Zmiri-disable-isolation")
                .env("CARGO_NET_OFFLINE", "true")
                .env_remove("RUSTFLAGS")
                .stdin(Stdio::null())
                .output();
            rep.eval();
            match res {
                Ok(o) => {
                    let so = String::from_utf8_lossy(&o.stdout);
                    let se = String::from_utf8_lossy(&o.stderr);
                    if o.status.success() && so.contains("INPROC") {
                        miri_inputs += 2 * few.len() as u64;
                        miri_decoders += 1;
                    } else if se.contains("Undefined Behavior") {
                        let first = se.lines().find(|l| l.contains("Undefined Behavior")).unwrap_or("").trim().to_owned();
                        rep.violation(
                            &format!("C13:{}:miri:undefined-behavior", codec.name),
                            &format!("Miri reported undefined behaviour while {} decoded {} inputs: {first}", codec.name, few.len()),
                            json!({"decoder": codec.name, "lane": "miri", "report": se.lines().take(40).collect::<Vec<_>>()}),
                        );
                    } else if se.contains("unsupported operation") {
                        let first = se.lines().find(|l| l.contains("unsupported operation")).unwrap_or("").trim().chars().take(160).collect::<String>();
                        skipped.push(format!("miri:{}: {first}", codec.name));
                    } else if se.contains("panicked at") {
                        let first = se.lines().find(|l| l.contains("panicked at")).unwrap_or("").trim().chars().take(200).collect::<String>();
                        rep.violation(
                            &format!("C13:{}:miri:panic", codec.name),
                            &format!("{} panicked under the interpreter (where allocation alignment is minimal): {first}", codec.name),
                            json!({"decoder": codec.name, "lane": "miri", "report": se.lines().take(40).collect::<Vec<_>>()}),
                        );
                    } else {
                        skipped.push(format!("miri:{}: exit {:?}: {}", codec.name, o.status.code(), se.lines().last().unwrap_or("").chars().take(160).collect::<String>()));
                    }
                }
                Err(e) => skipped.push(format!("miri:{}: {e}", codec.name)),
            }
        } else if miri_ok {
            skipped.push(format!("miri:{}: lane budget used up", codec.name));
        }
    }
    rep.count("valgrind_decoders_clean", vg_decoders);
    rep.count("valgrind_inputs", vg_inputs);
    rep.count("miri_decoders_clean", miri_decoders);
    rep.count("miri_calls", miri_inputs);
    rep.set("sanitizer_lanes", json!({"valgrind": have_vg, "miri": miri_ok, "skipped": skipped}));
}

fn lane_bin(name: &str) -> Option<PathBuf> {
    match name {
        "release" => std::env::current_exe().ok(),
        other => std::env::var(format!("VERIF_LANE_{}", other.to_uppercase())).ok().map(PathBuf::from).filter(|p| p.exists()),
    }
}

pub fn run(args: &Args, all: Vec<Codec>) -> i32 {
    let filter = args.extra.get("codec").cloned();
    if let Some(p) = &args.replay {
        return replay(args, p, &all);
    }
    let codecs: Vec<Codec> = all.into_iter().filter(|c| c.in_c13 && filter.as_ref().map_or(true, |f| c.name.contains(f.as_str()))).collect();
    let mut rep = Report::new(
        args,
        "exploration",
        "Per decoder / byte-level entry point: valid encodings from the C12 generators, every truncation of several of them, structure-aware mutations (incl. declared lengths 2^31/2^32/2^63/2^64-1 on every length field, lying WSC offsets/counts/ranges, re-sealed WAL records), random bytes behind valid prefixes, and crafted nesting depth 10/10^3/10^6 and 1 MiB inputs are fed to the real decoder in an isolated child process (8 MiB stack, RLIMIT_AS, counting allocator). Oracle: the child survives and every call returns Ok/typed Err with peak live heap during the call <= 4 MiB + 256 x input_len. A case is distinct & non-trivial when a distinct (decoder, input) pair was executed to completion by the real decoder in a child (crashing inputs are counted as evaluations and reported).",
    );
    let budget = Budget::for_tier(args.tier, 80.0, 1500.0);
    let Ok(self_bin) = std::env::current_exe() else {
        rep.inconclusive("cannot locate own binary");
        return rep.finish(1);
    };
    let dev_bin = lane_bin("dev");
    let mut lanes_run = vec!["release"];
    if dev_bin.is_some() {
        lanes_run.push("dev");
    } else {
        rep.set("lanes_skipped", json!(["dev (VERIF_LANE_DEV not provided or not built)"]));
    }
    // corpus (parent side; needs the kernel for request generators that cite the real worldline)
    let _ = crate::wasm::ensure_kernel();
    let mut corpora: Vec<Vec<Input>> = Vec::new();
    for c in &codecs {
        let (inputs, refusals) = build_corpus(c, args);
        if refusals > 0 {
            let mut st = stats::Local::new(c.name);
            st.add("generator_refusals", refusals);
        }
        corpora.push(inputs);
    }
    // Two passes so that a budget cut never starves a decoder: pass 0 = every decoder's valid and crafted
    // inputs plus the first slice of each other origin (and the dev lane); pass 1 = the rest.
    let priority: Vec<Vec<bool>> = corpora
        .iter()
        .map(|inputs| {
            let mut seen: std::collections::BTreeMap<&'static str, usize> = std::collections::BTreeMap::new();
            inputs
                .iter()
                .map(|i| {
                    let n = seen.entry(i.origin).or_insert(0);
                    *n += 1;
                    match i.origin {
                        "valid" | "crafted" => true,
                        "mutated" => *n <= 150,
                        "truncated" => *n <= 150,
                        _ => *n <= 80,
                    }
                })
                .collect()
        })
        .collect();
    let mut order: Vec<(usize, usize)> = Vec::new();
    for pass in 0..2 {
        let mut o: Vec<usize> = (0..codecs.len()).collect();
        // pass 0: every decoder gets its turn early (cheap ones first); pass 1: heaviest first
        let weight = |i: &usize| (codecs[*i].needs_kernel || is_cborish(&codecs[*i]), corpora[*i].iter().map(|x| x.bytes.len()).sum::<usize>());
        if pass == 0 {
            o.sort_by_key(weight);
        } else {
            o.sort_by_key(|i| std::cmp::Reverse(weight(i)));
        }
        order.extend(o.into_iter().map(|i| (pass, i)));
    }
    let complete = std::sync::atomic::AtomicBool::new(true);
    let scratch = Scratch::new("c13");
    run_shards(&mut rep, args.jobs, order.len(), |s, rep| {
        let (pass, ci) = order[s];
        let codec = &codecs[ci];
        if budget.expired() {
            complete.store(false, std::sync::atomic::Ordering::Relaxed);
            return;
        }
        let mut st = stats::Local::new(codec.name);
        let inputs = &corpora[ci];
        let not_this_pass: Vec<usize> = (0..inputs.len()).filter(|i| priority[ci][*i] != (pass == 0)).collect();
        let mut failed: Vec<usize> = Vec::new();
        let lane = Lane { name: "release", bin: &self_bin };
        let none = std::collections::BTreeSet::new();
        let mut release_sigs = std::collections::BTreeSet::new();
        // input classes with enough crash witnesses; the dev lane inherits them so that it never re-reports
        // a release-lane defect on inputs the release lane skipped
        let mut saturated = std::collections::BTreeSet::new();
        if !process_decoder(codec, &lane, inputs, &scratch, &format!("d{s}"), rep, &mut st, &mut failed, &not_this_pass, &budget, &none, &mut release_sigs, &mut saturated) {
            complete.store(false, std::sync::atomic::Ordering::Relaxed);
        }
        if let (Some(dev), 0) = (&dev_bin, pass) {
            // the dev profile (debug assertions + overflow checks) sees the smaller pass-0 batch;
            // inputs that already failed in release are skipped
            let mut skip: Vec<usize> = not_this_pass.clone();
            skip.extend(failed.iter().copied());
            let lane = Lane { name: "dev", bin: dev };
            let mut failed_dev = Vec::new();
            let mut dev_sigs = std::collections::BTreeSet::new();
            if !process_decoder(codec, &lane, inputs, &scratch, &format!("d{s}v"), rep, &mut st, &mut failed_dev, &skip, &budget, &release_sigs, &mut dev_sigs, &mut saturated) {
                complete.store(false, std::sync::atomic::Ordering::Relaxed);
            }
        }
    });
    if !complete.load(std::sync::atomic::Ordering::Relaxed) {
        rep.inconclusive("time budget expired before every planned batch ran");
    }
    sanitizer_lanes(&mut rep, args, &codecs, &corpora, &self_bin, &scratch);
    rep.count("decoders", codecs.len() as u64);
    rep.set("lanes", json!(lanes_run));
    rep.count("calls_returned_ok", stats::total("returned_ok"));
    rep.count("calls_returned_err", stats::total("returned_err"));
    for o in ["valid", "truncated", "mutated", "random", "crafted"] {
        rep.count(&format!("inputs_{o}"), stats::total(&format!("inputs_{o}")));
    }
    for c in ["panic", "stack-overflow", "alloc-abort", "abort", "watchdog"] {
        rep.count(&format!("child_crashes_{c}"), stats::total(&format!("crash:{c}")));
    }
    rep.count("alloc_ratio_violations", stats::total("alloc_ratio_violations"));
    rep.set("alloc_limit", json!("4 MiB + 256 x input_len (peak live heap during the call, input buffer excluded)"));
    rep.set("per_decoder", stats::snapshot());
    rep.assumption("Wall-clock is only a watchdog (180 s per child): a firing is inconclusive, never a violation; per-call time is reported as max_call_micros.");
    rep.assumption("An allocation failure is attributed to the decoder only when the harness allocator saw the request that pushed live heap over 2 GiB (TRIP marker); an OS-level failure without that marker is inconclusive.");
    rep.assumption("Host-boundary entry points run against `warp_wasm::init_embedded()` (real engine kernel) installed in the child's decode thread.");
    for c in &codecs {
        if stats::get(c.name, "release:calls") == 0 {
            rep.inconclusive(&format!("{}: no call completed in a child", c.name));
        }
    }
    let floor = args.by_tier(5_000, 60_000);
    rep.finish(if filter.is_some() { 20 } else { floor })
}
