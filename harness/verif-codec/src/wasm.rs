//! Byte-in/byte-out host boundary of crates/warp-wasm against an installed real
//! engine kernel (`init_embedded`, feature `engine`). C13 only.

use echo_wasm_abi::kernel_port as kp;
use verif_core::Rng;

use crate::codec::{Codec, Dec, Family, Rt};

thread_local! {
    static WORLDLINE: std::cell::RefCell<Option<kp::WorldlineId>> = const { std::cell::RefCell::new(None) };
}

/// Install the real kernel on *this* thread (the kernel slot is thread-local).
pub fn ensure_kernel() -> Result<kp::WorldlineId, String> {
    if let Some(w) = WORLDLINE.with(|w| *w.borrow()) {
        return Ok(w);
    }
    let h = warp_wasm::init_embedded().map_err(|e| format!("init_embedded failed: {} {}", e.code, e.message))?;
    WORLDLINE.with(|w| *w.borrow_mut() = Some(h.worldline_id));
    Ok(h.worldline_id)
}

/// The response must itself be a well-formed canonical CBOR envelope `{ok: bool, …}`.
fn envelope_label(out: &[u8]) -> Result<(), String> {
    use ciborium::value::Value;
    match echo_wasm_abi::decode_value(out) {
        Ok(Value::Map(m)) => {
            let ok = m.iter().find_map(|(k, v)| match (k, v) {
                (Value::Text(t), Value::Bool(b)) if t == "ok" => Some(*b),
                _ => None,
            });
            match ok {
                Some(true) => Ok(()),
                Some(false) => {
                    let code = m.iter().find_map(|(k, v)| match (k, v) {
                        (Value::Text(t), Value::Integer(i)) if t == "code" => Some(i128::from(*i)),
                        _ => None,
                    });
                    Err(format!("abi-error-code-{}", code.unwrap_or(-1)))
                }
                None => Err("RESPONSE-NOT-AN-ENVELOPE".into()),
            }
        }
        _ => Err("RESPONSE-NOT-AN-ENVELOPE".into()),
    }
}

fn touch_dispatch(b: &[u8]) -> Result<(), String> {
    envelope_label(&warp_wasm::dispatch_intent_cbor(b))
}
fn touch_observe(b: &[u8]) -> Result<(), String> {
    envelope_label(&warp_wasm::observe_cbor(b))
}
fn touch_control(b: &[u8]) -> Result<(), String> {
    envelope_label(&warp_wasm::dispatch_control_intent_trusted_cbor(b))
}
fn dec_of(t: fn(&[u8]) -> Result<(), String>, b: &[u8]) -> Dec {
    match t(b) {
        Ok(()) => Dec::Ok(None),
        Err(e) => Dec::Err(e),
    }
}

fn valid_dispatch(rng: &mut Rng) -> Rt {
    let op = match rng.below(4) {
        0 => 0,
        1 => 1,
        _ => rng.next_u32() >> rng.below(32),
    };
    let vars = match rng.below(4) {
        0 => Vec::new(),
        1 => echo_wasm_abi::encode_cbor(&crate::abi::g_control(rng)).unwrap_or_default(),
        _ => { let n_ = rng.range_usize(1, 200); rng.bytes(n_) },
    };
    match echo_wasm_abi::pack_intent_v1(op, &vars) {
        Ok(b) => Rt::ok(b),
        Err(_) => Rt::ok(echo_wasm_abi::pack_intent_v1(7, &vars).unwrap_or_default()),
    }
}
fn valid_observe(rng: &mut Rng) -> Rt {
    let mut req = crate::abi::g_obs_request(rng);
    if rng.chance(2, 3) {
        if let Ok(w) = ensure_kernel() {
            req.coordinate.worldline_id = w;
        }
        if rng.chance(1, 2) {
            // a request the kernel actually serves
            if let Ok(r) = kp::ObservationRequest::builtin_one_shot(
                kp::ObservationCoordinate { worldline_id: req.coordinate.worldline_id, at: kp::ObservationAt::Frontier },
                kp::ObservationFrame::CommitBoundary,
                if rng.chance(1, 2) { kp::ObservationProjection::Head } else { kp::ObservationProjection::Snapshot },
            ) {
                req = r;
            }
        }
    }
    Rt::ok(echo_wasm_abi::encode_cbor(&req).unwrap_or_default())
}
fn valid_control(rng: &mut Rng) -> Rt {
    let mut c = crate::abi::g_control(rng);
    if let kp::ControlIntentV1::Start { mode } = &mut c {
        // keep scheduler runs bounded so a batch of valid controls terminates quickly
        *mode = kp::SchedulerMode::UntilIdle { cycle_limit: Some(rng.below(4) as u32) };
    }
    Rt::ok(echo_wasm_abi::pack_control_intent_v1(&c).unwrap_or_default())
}

pub fn codecs() -> Vec<Codec> {
    vec![
        Codec {
            name: "wasm.dispatch_intent_cbor",
            family: Family::Binary,
            canonical: false,
            cbor_offset: 12,
            decode: |b| dec_of(touch_dispatch, b),
            touch: touch_dispatch,
            roundtrip: valid_dispatch,
            chunks: &[4],
            needs_kernel: true,
            in_c12: false,
            in_c13: true,
        },
        Codec {
            name: "wasm.observe_cbor",
            family: Family::CborTyped,
            canonical: false,
            cbor_offset: 0,
            decode: |b| dec_of(touch_observe, b),
            touch: touch_observe,
            roundtrip: valid_observe,
            chunks: &[],
            needs_kernel: true,
            in_c12: false,
            in_c13: true,
        },
        Codec {
            name: "wasm.dispatch_control_intent_trusted_cbor",
            family: Family::CborTyped,
            canonical: false,
            cbor_offset: 12,
            decode: |b| dec_of(touch_control, b),
            touch: touch_control,
            roundtrip: valid_control,
            chunks: &[4],
            needs_kernel: true,
            in_c12: false,
            in_c13: true,
        },
    ]
}
