//! echo-scene-codec (minicbor): round trip + writer determinism only — the
//! decoder documents that it accepts both float widths.

use echo_scene_codec as sc;
use echo_scene_port::{CameraState, EdgeDef, EdgeKey, EdgeStyle, HighlightState, LabelAnchor, LabelDef, LabelKey, NodeDef, NodeKey, NodeShape, ProjectionKind, SceneDelta, SceneOp};
use verif_core::Rng;

use crate::codec::{text_label, Codec, Dec, Family, Rt};
use crate::core_codecs::h;

fn f(rng: &mut Rng) -> f32 {
    match rng.below(6) {
        0 => *rng.pick(&[0.0f32, -0.0, 1.0, -1.0, 0.5, f32::MIN_POSITIVE, f32::MAX, f32::MIN, f32::INFINITY, f32::NEG_INFINITY, 1.0e-40]),
        1 => f32::from_bits(rng.next_u32() & 0x7f7f_ffff), // finite
        _ => (rng.below(20_000) as f32 - 10_000.0) / 8.0,
    }
}
fn v3(rng: &mut Rng) -> [f32; 3] {
    [f(rng), f(rng), f(rng)]
}
fn color(rng: &mut Rng) -> [u8; 4] {
    rng.next_u32().to_le_bytes()
}
fn op(rng: &mut Rng) -> SceneOp {
    match rng.below(7) {
        0 => SceneOp::UpsertNode(NodeDef { key: NodeKey(h(rng)), position: v3(rng), radius: f(rng), shape: if rng.chance(1, 2) { NodeShape::Sphere } else { NodeShape::Cube }, color: color(rng) }),
        1 => SceneOp::RemoveNode { key: NodeKey(h(rng)) },
        2 => SceneOp::UpsertEdge(EdgeDef { key: EdgeKey(h(rng)), a: NodeKey(h(rng)), b: NodeKey(h(rng)), width: f(rng), style: if rng.chance(1, 2) { EdgeStyle::Solid } else { EdgeStyle::Dashed }, color: color(rng) }),
        3 => SceneOp::RemoveEdge { key: EdgeKey(h(rng)) },
        4 => SceneOp::UpsertLabel(LabelDef {
            key: LabelKey(h(rng)),
            text: match rng.below(4) {
                0 => String::new(),
                1 => "é😀".into(),
                2 => "L".repeat(rng.range_usize(1, 3000)),
                _ => format!("label {}", rng.below(100)),
            },
            font_size: f(rng),
            color: color(rng),
            anchor: if rng.chance(1, 2) { LabelAnchor::Node { key: NodeKey(h(rng)) } } else { LabelAnchor::World { position: v3(rng) } },
            offset: v3(rng),
        }),
        5 => SceneOp::RemoveLabel { key: LabelKey(h(rng)) },
        _ => SceneOp::Clear,
    }
}

fn feq(a: f32, b: f32) -> bool {
    a.to_bits() == b.to_bits()
}
fn bits_eq_delta(a: &SceneDelta, b: &SceneDelta) -> bool {
    // PartialEq on f32 treats -0 == 0; compare debug renderings, which print the sign of zero
    a == b && format!("{a:?}") == format!("{b:?}")
}

fn rt_delta(rng: &mut Rng) -> Rt {
    let v = SceneDelta { session_id: h(rng), cursor_id: h(rng), epoch: rng.next_u64() >> rng.below(64), ops: (0..*rng.pick(&[0usize, 1, 2, 5, 30, 400])).map(|_| op(rng)).collect() };
    let b1 = sc::encode_scene_delta(&v);
    if sc::encode_scene_delta(&v.clone()) != b1 {
        return Rt::failed(b1, "encode-not-deterministic", "second encode_scene_delta differs".into());
    }
    match sc::decode_scene_delta(&b1) {
        Ok(got) if bits_eq_delta(&got, &v) => Rt::ok(b1),
        Ok(_) => Rt::failed(b1, "scene-roundtrip", "decode_scene_delta(encode_scene_delta(v)) != v".into()),
        Err(e) => Rt::failed(b1, "scene-roundtrip", format!("decoder rejects encoder output: {e}")),
    }
}
fn rt_camera(rng: &mut Rng) -> Rt {
    let v = CameraState { position: v3(rng), target: v3(rng), up: v3(rng), projection: if rng.chance(1, 2) { ProjectionKind::Perspective } else { ProjectionKind::Orthographic }, fov_y_radians: f(rng), ortho_scale: f(rng), near: f(rng), far: f(rng) };
    let b1 = sc::encode_camera_state(&v);
    if sc::encode_camera_state(&v) != b1 {
        return Rt::failed(b1, "encode-not-deterministic", "second encode_camera_state differs".into());
    }
    match sc::decode_camera_state(&b1) {
        Ok(got) if format!("{got:?}") == format!("{v:?}") && feq(got.near, v.near) => Rt::ok(b1),
        Ok(got) => Rt::failed(b1, "scene-roundtrip", format!("camera round trip differs: {v:?} vs {got:?}")),
        Err(e) => Rt::failed(b1, "scene-roundtrip", format!("decoder rejects encoder output: {e}")),
    }
}
fn rt_highlight(rng: &mut Rng) -> Rt {
    let v = HighlightState {
        selected_nodes: (0..*rng.pick(&[0usize, 1, 3, 200])).map(|_| NodeKey(h(rng))).collect(),
        selected_edges: (0..*rng.pick(&[0usize, 1, 3, 200])).map(|_| EdgeKey(h(rng))).collect(),
        hovered_node: if rng.chance(1, 2) { Some(NodeKey(h(rng))) } else { None },
        hovered_edge: if rng.chance(1, 2) { Some(EdgeKey(h(rng))) } else { None },
    };
    let b1 = sc::encode_highlight_state(&v);
    if sc::encode_highlight_state(&v) != b1 {
        return Rt::failed(b1, "encode-not-deterministic", "second encode_highlight_state differs".into());
    }
    match sc::decode_highlight_state(&b1) {
        Ok(got) if got == v => Rt::ok(b1),
        other => Rt::failed(b1, "scene-roundtrip", format!("highlight round trip differs: {:?}", other.map(|h| h.selected_nodes.len()))),
    }
}

macro_rules! scene_codec {
    ($name:literal, $dec:path, $enc:path, $rt:path) => {{
        fn dec(b: &[u8]) -> Dec {
            match $dec(b) {
                Ok(v) => Dec::Ok(Some($enc(&v))),
                Err(e) => Dec::Err(text_label(&e.to_string())),
            }
        }
        fn touch(b: &[u8]) -> Result<(), String> {
            $dec(b).map(|_| ()).map_err(|e| text_label(&e.to_string()))
        }
        Codec { name: $name, family: Family::CborScene, canonical: false, cbor_offset: 0, decode: dec, touch, roundtrip: $rt, chunks: &[], needs_kernel: false, in_c12: true, in_c13: true }
    }};
}

pub fn codecs() -> Vec<Codec> {
    vec![
        scene_codec!("scene.delta", sc::decode_scene_delta, sc::encode_scene_delta, rt_delta),
        scene_codec!("scene.camera", sc::decode_camera_state, sc::encode_camera_state, rt_camera),
        scene_codec!("scene.highlight", sc::decode_highlight_state, sc::encode_highlight_state, rt_highlight),
    ]
}
