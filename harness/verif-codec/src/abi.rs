//! echo-wasm-abi: canonical CBOR value codec, serde DTOs above it, EINT
//! envelopes, the ELOG intent log and the little-endian Reader/Writer helpers.

use ciborium::value::{Integer, Value};
use echo_wasm_abi::kernel_port as kp;
use echo_wasm_abi::{decode_value, encode_value};
use serde::{de::DeserializeOwned, Serialize};
use verif_core::Rng;

use crate::codec::{label, text_label, Codec, Dec, Family, Rt};

// ---------------------------------------------------------------------------
// value generator
// ---------------------------------------------------------------------------

pub const INT_BOUNDARIES: &[i128] = &[
    0, 1, 22, 23, 24, 25, 254, 255, 256, 257, 65534, 65535, 65536, 65537,
    0xffff_fffe, 0xffff_ffff, 0x1_0000_0000, 0x1_0000_0001,
    (1 << 53) - 1, 1 << 53, (1 << 53) + 1,
    i64::MAX as i128 - 1, i64::MAX as i128, i64::MAX as i128 + 1,
    u64::MAX as i128 - 1, u64::MAX as i128,
    -1, -2, -23, -24, -25, -26, -255, -256, -257, -258, -65536, -65537,
    -0x1_0000_0000, -0x1_0000_0001,
    -(1 << 53), i64::MIN as i128 + 1, i64::MIN as i128,
];

/// Integers below i64::MIN that `ciborium::value::Integer` can still hold.
pub const INT_BELOW_I64: &[i128] = &[i64::MIN as i128 - 1, -(1i128 << 64) + 1, -(1i128 << 64)];

pub fn float_pool() -> Vec<(f64, &'static str)> {
    let mut v: Vec<(f64, &'static str)> = vec![
        (0.0, "+0"),
        (-0.0, "-0"),
        (f64::from_bits(1), "f64-min-subnormal"),
        (f64::from_bits(0x000f_ffff_ffff_ffff), "f64-max-subnormal"),
        (f64::MIN_POSITIVE, "f64-min-normal"),
        (f64::MAX, "f64-max"),
        (-f64::MAX, "f64-max-neg"),
        (f64::from(f32::from_bits(1)), "f32-min-subnormal"),
        (f64::from(f32::MIN_POSITIVE), "f32-min-normal"),
        (f64::from(f32::MAX), "f32-max"),
        (5.960_464_477_539_063e-8, "f16-min-subnormal"),
        (6.103_515_625e-5, "f16-min-normal"),
        (65504.0, "f16-max(integral)"),
        (0.5, "f16-exact"),
        (-0.5, "f16-exact"),
        (1.5, "f16-exact"),
        (0.333_251_953_125, "f16-exact"),
        (0.1f32 as f64, "f32-exact"),
        (3.141_592_74f32 as f64, "f32-exact"),
        (0.1, "f64-only"),
        (-1.1, "f64-only"),
        (1.0e-310, "f64-subnormal"),
        (f64::INFINITY, "+inf"),
        (f64::NEG_INFINITY, "-inf"),
        (f64::NAN, "nan-canonical"),
        (f64::from_bits(0x7ff8_0000_0000_0001), "nan-payload"),
        (f64::from_bits(0xfff8_0000_0000_0000), "nan-negative"),
        (f64::from_bits(0x7ff0_0000_0000_0001), "nan-signalling"),
        (1.0, "integral-small"),
        (-1.0, "integral-small"),
        (24.0, "integral-small"),
        (4_294_967_296.0, "integral-2^32"),
        (9_007_199_254_740_992.0, "integral-2^53"),
        (9_223_372_036_854_775_808.0, "integral-2^63"),
        (-9_223_372_036_854_775_808.0, "integral--2^63"),
        (18_446_744_073_709_549_568.0, "integral-below-2^64"),
        (2.5, "f16-exact"),
        (1.0e-5, "f64-only"),
        (123_456.789, "f64-only"),
    ];
    // integral floats beyond the CBOR integer range (up to 2^127 and beyond)
    for (e, name) in [(64, "integral-2^64"), (65, "integral-2^65"), (100, "integral-2^100"), (127, "integral-2^127"), (128, "integral-2^128"), (200, "integral-2^200")] {
        v.push((2f64.powi(e), name));
        v.push((-(2f64.powi(e)), name));
    }
    v.push((1.0e30, "integral-1e30"));
    v.push((-9_223_372_036_854_777_856.0, "integral-below--2^63"));
    v
}

fn gen_text(rng: &mut Rng) -> String {
    match rng.below(40) {
        0 => String::new(),
        1 => "a".repeat(23),
        2 => "a".repeat(24),
        3 => "b".repeat(255),
        4 => "c".repeat(256),
        5 => "é∑😀\u{0}\u{7f}".to_owned(),
        6 => "x".repeat(rng.range_usize(257, 70_000)),
        7 => "y".repeat(rng.range_usize(257, 300)),
        _ => {
            let n = rng.range_usize(1, 12);
            (0..n).map(|_| (b'a' + rng.below(26) as u8) as char).collect()
        }
    }
}

fn gen_bytes(rng: &mut Rng) -> Vec<u8> {
    match rng.below(30) {
        0 => Vec::new(),
        1 => vec![0u8; 23],
        2 => vec![0xffu8; 24],
        3 => rng.bytes(255),
        4 => rng.bytes(256),
        5 => { let n_ = rng.range_usize(65_530, 65_540); rng.bytes(n_) },
        _ => {
            let n = rng.range_usize(1, 40);
            rng.bytes(n)
        }
    }
}

fn int_value(n: i128) -> Value {
    Value::Integer(Integer::try_from(n).unwrap_or_else(|_| Integer::from(0)))
}

fn gen_scalar(rng: &mut Rng, floats: &[(f64, &'static str)], classes: &mut Vec<&'static str>) -> Value {
    match rng.below(12) {
        0 => Value::Null,
        1 => Value::Bool(rng.chance(1, 2)),
        2 | 3 => {
            classes.push("int-boundary");
            int_value(*rng.pick(INT_BOUNDARIES))
        }
        4 => {
            classes.push("int-random");
            let w = rng.range(1, 64);
            let v = (rng.next_u64() >> (64 - w)) as i128;
            int_value(if rng.chance(1, 2) { v } else { -1 - v })
        }
        5 | 6 => {
            let (f, name) = *rng.pick(floats);
            classes.push(name);
            Value::Float(f)
        }
        7 => {
            classes.push("float-random-bits");
            Value::Float(f64::from_bits(rng.next_u64()))
        }
        8 => {
            classes.push("float-random-f32");
            Value::Float(f64::from(f32::from_bits(rng.next_u32())))
        }
        9 => Value::Bytes(gen_bytes(rng)),
        _ => Value::Text(gen_text(rng)),
    }
}

fn gen_key(rng: &mut Rng, i: usize) -> Value {
    // adversarial key orders: lengths vs lexicographic, ints around width changes,
    // negative vs positive, text vs bytes, numeric vs encoded order (10 < 9 bytewise? no: 0x0a > 0x09,
    // but 256 (0x190100) vs 24 (0x1818): shorter-first vs bytewise), text "b" vs "aa".
    match rng.below(9) {
        0 => int_value(*rng.pick(&[0i128, 1, 9, 10, 23, 24, 255, 256, 65535, 65536, -1, -24, -25, -256, -257])),
        1 => Value::Text((*rng.pick(&["a", "b", "aa", "ab", "B", "", "z", "aaa", "é", "kind", "value"])).to_owned()),
        2 => Value::Bytes(rng.pick(&[vec![], vec![0], vec![1], vec![0, 0], vec![0xff]]).clone()),
        3 => Value::Text(format!("k{i}")),
        4 => int_value(i as i128 * 7 - 20),
        5 => Value::Bool(rng.chance(1, 2)),
        6 => Value::Null,
        7 => Value::Array(vec![int_value(i as i128)]),
        _ => Value::Float(*rng.pick(&[0.5, 1.5, -0.5, 2.0, 1.0, f64::NAN, f64::INFINITY])),
    }
}

pub fn gen_value(rng: &mut Rng, depth: usize, floats: &[(f64, &'static str)], classes: &mut Vec<&'static str>) -> Value {
    let mut budget = 400usize;
    gen_value_b(rng, depth, floats, classes, &mut budget)
}

fn gen_value_b(rng: &mut Rng, depth: usize, floats: &[(f64, &'static str)], classes: &mut Vec<&'static str>, budget: &mut usize) -> Value {
    *budget = budget.saturating_sub(1);
    let container = depth > 0 && *budget > 0 && rng.chance(2, 5);
    if !container {
        return gen_scalar(rng, floats, classes);
    }
    if rng.chance(1, 2) {
        let n = match rng.below(8) {
            0 => 0,
            1 => 23,
            2 => 24,
            3 => rng.range_usize(250, 260),
            _ => rng.range_usize(1, 6),
        };
        classes.push("array");
        let n = n.min(*budget);
        Value::Array((0..n).map(|_| gen_value_b(rng, depth - 1, floats, classes, budget)).collect())
    } else {
        let n = match rng.below(8) {
            0 => 0,
            1 => 24,
            _ => rng.range_usize(1, 7),
        };
        classes.push("map");
        let n = n.min(*budget);
        Value::Map((0..n).map(|i| (gen_key(rng, i), gen_value_b(rng, depth - 1, floats, classes, budget))).collect())
    }
}

pub fn gen_deep(rng: &mut Rng, depth: usize) -> Value {
    let mut v = Value::Integer(Integer::from(7));
    for i in 0..depth {
        v = if (i + rng.below_usize(2)) % 2 == 0 {
            Value::Array(vec![v])
        } else {
            Value::Map(vec![(Value::Text("k".into()), v)])
        };
    }
    v
}

// ---------------------------------------------------------------------------
// reference semantics (harness side): what a canonical codec must preserve
// ---------------------------------------------------------------------------

/// The canonical numeric identity the ABI documents: integral floats in the CBOR
/// integer range are integers, every NaN is the one NaN. Values that have no
/// representation at all (integral floats outside [-2^63, 2^64-1], integers
/// below i64::MIN) are returned unchanged: the encoder must either refuse them
/// or preserve them — anything else is a round-trip violation.
pub fn normalise(v: &Value) -> Value {
    match v {
        Value::Float(f) => {
            if f.is_nan() {
                return Value::Float(f64::NAN);
            }
            if f.is_finite() && f.fract() == 0.0 && *f >= -9_223_372_036_854_775_808.0 && *f < 18_446_744_073_709_551_616.0 {
                return int_value(*f as i128);
            }
            Value::Float(*f)
        }
        Value::Array(a) => Value::Array(a.iter().map(normalise).collect()),
        Value::Map(m) => Value::Map(m.iter().map(|(k, v)| (normalise(k), normalise(v))).collect()),
        other => other.clone(),
    }
}

pub fn veq(a: &Value, b: &Value) -> bool {
    match (a, b) {
        (Value::Float(x), Value::Float(y)) => (x.is_nan() && y.is_nan()) || x.to_bits() == y.to_bits(),
        (Value::Integer(x), Value::Integer(y)) => i128::from(*x) == i128::from(*y),
        (Value::Array(x), Value::Array(y)) => x.len() == y.len() && x.iter().zip(y).all(|(p, q)| veq(p, q)),
        (Value::Map(x), Value::Map(y)) => {
            if x.len() != y.len() {
                return false;
            }
            let mut used = vec![false; y.len()];
            'outer: for (k, v) in x {
                for (j, (k2, v2)) in y.iter().enumerate() {
                    if !used[j] && veq(k, k2) && veq(v, v2) {
                        used[j] = true;
                        continue 'outer;
                    }
                }
                return false;
            }
            true
        }
        (Value::Bytes(x), Value::Bytes(y)) => x == y,
        (Value::Text(x), Value::Text(y)) => x == y,
        (Value::Bool(x), Value::Bool(y)) => x == y,
        (Value::Null, Value::Null) => true,
        _ => false,
    }
}

/// First differing leaf, for classifying a round-trip mismatch.
fn diff_class(expected: &Value, got: &Value) -> &'static str {
    match (expected, got) {
        (Value::Array(x), Value::Array(y)) if x.len() == y.len() => {
            for (p, q) in x.iter().zip(y) {
                if !veq(p, q) {
                    return diff_class(p, q);
                }
            }
            "array"
        }
        (Value::Map(x), Value::Map(y)) if x.len() == y.len() => {
            for (k, v) in x {
                match y.iter().find(|(k2, _)| veq(k, k2)) {
                    None => return diff_class_leaf(k),
                    Some((_, v2)) if !veq(v, v2) => return diff_class(v, v2),
                    _ => {}
                }
            }
            "map"
        }
        (e, _) => diff_class_leaf(e),
    }
}

fn diff_class_leaf(e: &Value) -> &'static str {
    match e {
        Value::Float(f) if f.is_finite() && f.fract() == 0.0 => "integral-float-outside-i64-u64-range",
        Value::Float(_) => "float",
        Value::Integer(i) if i128::from(*i) < i128::from(i64::MIN) => "negative-int-below-i64",
        Value::Integer(_) => "integer",
        Value::Text(_) => "text",
        Value::Bytes(_) => "bytes",
        Value::Map(_) => "map-shape",
        Value::Array(_) => "array-shape",
        _ => "other",
    }
}

fn find_unrepresentable(v: &Value) -> Option<&'static str> {
    match v {
        Value::Float(f) if f.is_finite() && f.fract() == 0.0 && !(*f >= -9_223_372_036_854_775_808.0 && *f < 18_446_744_073_709_551_616.0) => {
            Some("integral-float-outside-i64-u64-range")
        }
        Value::Integer(i) if i128::from(*i) < i128::from(i64::MIN) => Some("negative-int-below-i64"),
        Value::Array(a) => a.iter().find_map(find_unrepresentable),
        Value::Map(m) => m.iter().find_map(|(k, v)| find_unrepresentable(k).or_else(|| find_unrepresentable(v))),
        _ => None,
    }
}

fn shuffled(v: &Value, rng: &mut Rng) -> Value {
    match v {
        Value::Map(m) => {
            let mut m2: Vec<(Value, Value)> = m.iter().map(|(k, v)| (shuffled(k, rng), shuffled(v, rng))).collect();
            rng.shuffle(&mut m2);
            Value::Map(m2)
        }
        Value::Array(a) => Value::Array(a.iter().map(|x| shuffled(x, rng)).collect()),
        // an equal value constructed differently: an integral float instead of the integer
        Value::Integer(i) => {
            let n = i128::from(*i);
            if rng.chance(1, 4) && n.unsigned_abs() < (1 << 53) {
                Value::Float(n as f64)
            } else {
                v.clone()
            }
        }
        other => other.clone(),
    }
}

pub fn roundtrip_value(rng: &mut Rng) -> Rt {
    let floats = float_pool();
    let mut classes = Vec::new();
    let v = match rng.below(40) {
        0 => {
            // around every depth at which an implementation might bound recursion: what the
            // encoder emits must decode again (a typed refusal by the encoder is lawful)
            let d = *rng.pick(&[31usize, 32, 33, 63, 64, 65, 100, 126, 127, 128, 129, 130, 131, 200, 255, 256, 257, 400, 1000]);
            classes.push("deep-nesting");
            gen_deep(rng, d)
        }
        1 => {
            classes.push("wide-2000");
            Value::Array((0..2000).map(|i| int_value(i128::from(i) * 33 - 4000)).collect())
        }
        2 => {
            classes.push("int-below-i64");
            int_value(*rng.pick(INT_BELOW_I64))
        }
        3 => {
            // every float class in one array
            classes.push("all-float-classes");
            Value::Array(floats.iter().map(|(f, _)| Value::Float(*f)).collect())
        }
        4 => {
            classes.push("all-int-boundaries");
            Value::Array(INT_BOUNDARIES.iter().map(|n| int_value(*n)).collect())
        }
        5 => {
            classes.push("wide-map-300");
            Value::Map((0..300).map(|i| (int_value(i128::from(i) * 13 - 1000), Value::Null)).collect())
        }
        _ => gen_value(rng, 5, &floats, &mut classes),
    };
    check_value(&v, rng, classes)
}

pub fn check_value(v: &Value, rng: &mut Rng, classes: Vec<&'static str>) -> Rt {
    let b1 = match encode_value(v) {
        Ok(b) => b,
        Err(e) => {
            // A typed refusal is lawful for duplicate keys (after numeric identification) and tags.
            let mut rt = Rt::refused(label(&e));
            rt.classes = classes;
            return rt;
        }
    };
    let mut rt = Rt::ok(b1.clone());
    rt.classes = classes;
    // determinism: second call, and an equal value constructed differently
    match encode_value(v) {
        Ok(b2) if b2 == b1 => {}
        other => {
            rt.fail = Some(("encode-not-deterministic".into(), format!("second encode_value call differs: {:?}", other.map(|b| verif_core::hex(&b)))));
            return rt;
        }
    }
    let v2 = shuffled(v, rng);
    match encode_value(&v2) {
        Ok(b2) if b2 == b1 => {}
        Ok(b2) => {
            rt.fail = Some(("encode-depends-on-construction".into(), format!("equal value with permuted map entries / integral floats encodes differently: {} vs {}", verif_core::hex(&b1[..b1.len().min(64)]), verif_core::hex(&b2[..b2.len().min(64)]))));
            return rt;
        }
        Err(e) => {
            rt.fail = Some(("encode-depends-on-construction".into(), format!("equal value refused on second construction: {e}")));
            return rt;
        }
    }
    // independent canonical-form verdict on what the encoder wrote
    if find_unrepresentable(v).is_none() {
        if let Some(why) = crate::cborx::canonical_violation(&b1, true) {
            rt.fail = Some((format!("encoder-emits-noncanonical:{why}"), format!("encode_value output violates the documented canonical form ({why}): {}", verif_core::hex(&b1[..b1.len().min(96)]))));
            return rt;
        }
    }
    let expected = normalise(v);
    match decode_value(&b1) {
        Ok(got) => {
            if !veq(&expected, &got) {
                let class = diff_class(&expected, &got);
                rt.fail = Some((format!("value-roundtrip:{class}"), format!("decode_value(encode_value(v)) != v: bytes {} ", verif_core::hex(&b1[..b1.len().min(96)]))));
            }
        }
        Err(e) => {
            let class = find_unrepresentable(v).unwrap_or("other");
            rt.fail = Some((format!("value-roundtrip:{class}"), format!("encode_value accepted the value but decode_value rejects its own output ({e}): bytes {}", verif_core::hex(&b1[..b1.len().min(96)]))));
        }
    }
    rt
}

fn dec_value(b: &[u8]) -> Dec {
    match decode_value(b) {
        Ok(v) => Dec::Ok(encode_value(&v).ok()),
        Err(e) => Dec::Err(label(&e)),
    }
}

fn touch_value(b: &[u8]) -> Result<(), String> {
    decode_value(b).map(|_| ()).map_err(|e| label(&e))
}

// ---------------------------------------------------------------------------
// DTOs
// ---------------------------------------------------------------------------

fn h32(rng: &mut Rng) -> [u8; 32] {
    match rng.below(6) {
        0 => [0u8; 32],
        1 => [0xff; 32],
        _ => rng.hash32(),
    }
}
fn vbytes(rng: &mut Rng) -> Vec<u8> {
    match rng.below(5) {
        0 => Vec::new(),
        1 => vec![0, 23, 24, 255],
        _ => { let n_ = rng.range_usize(1, 40); rng.bytes(n_) },
    }
}
fn u64b(rng: &mut Rng) -> u64 {
    match rng.below(4) {
        0 => *rng.pick(&[0u64, 1, 23, 24, 255, 256, 65535, 65536, u32::MAX as u64, u32::MAX as u64 + 1, u64::MAX, i64::MAX as u64, i64::MAX as u64 + 1]),
        _ => rng.next_u64() >> rng.below(64),
    }
}
fn u32b(rng: &mut Rng) -> u32 {
    match rng.below(3) {
        0 => *rng.pick(&[0u32, 23, 24, 255, 256, 65535, 65536, u32::MAX]),
        _ => rng.next_u32(),
    }
}
fn opt<T>(rng: &mut Rng, f: impl FnOnce(&mut Rng) -> T) -> Option<T> {
    if rng.chance(1, 2) {
        Some(f(rng))
    } else {
        None
    }
}

fn g_mode(rng: &mut Rng) -> kp::SchedulerMode {
    kp::SchedulerMode::UntilIdle { cycle_limit: opt(rng, u32b) }
}
fn g_head_key(rng: &mut Rng) -> kp::WriterHeadKey {
    kp::WriterHeadKey { worldline_id: kp::WorldlineId::from_bytes(h32(rng)), head_id: kp::HeadId::from_bytes(h32(rng)) }
}
pub fn g_control(rng: &mut Rng) -> kp::ControlIntentV1 {
    match rng.below(3) {
        0 => kp::ControlIntentV1::Start { mode: g_mode(rng) },
        1 => kp::ControlIntentV1::Stop,
        _ => kp::ControlIntentV1::SetHeadEligibility {
            head: g_head_key(rng),
            eligibility: if rng.chance(1, 2) { kp::HeadEligibility::Dormant } else { kp::HeadEligibility::Admitted },
        },
    }
}
fn g_status(rng: &mut Rng) -> kp::SchedulerStatus {
    kp::SchedulerStatus {
        state: rng.pick(&[kp::SchedulerState::Inactive, kp::SchedulerState::Running, kp::SchedulerState::Stopping]).clone(),
        active_mode: opt(rng, g_mode),
        work_state: rng.pick(&[kp::WorkState::Quiescent, kp::WorkState::RunnablePending, kp::WorkState::BlockedOnly]).clone(),
        run_id: opt(rng, |r| kp::RunId(u64b(r))),
        latest_cycle_global_tick: opt(rng, |r| kp::GlobalTick(u64b(r))),
        latest_commit_global_tick: opt(rng, |r| kp::GlobalTick(u64b(r))),
        last_quiescent_global_tick: opt(rng, |r| kp::GlobalTick(u64b(r))),
        last_run_completion: opt(rng, |r| {
            r.pick(&[kp::RunCompletion::Quiesced, kp::RunCompletion::BlockedOnly, kp::RunCompletion::CycleLimitReached, kp::RunCompletion::Stopped]).clone()
        }),
    }
}
fn g_dispatch_response(rng: &mut Rng) -> kp::DispatchResponse {
    kp::DispatchResponse {
        accepted: rng.chance(1, 2),
        intent_id: vbytes(rng),
        submission_id: opt(rng, vbytes),
        submission_generation: opt(rng, u64b),
        scheduler_status: g_status(rng),
    }
}
fn g_head_info(rng: &mut Rng) -> kp::HeadInfo {
    kp::HeadInfo {
        worldline_tick: kp::WorldlineTick(u64b(rng)),
        commit_global_tick: opt(rng, |r| kp::GlobalTick(u64b(r))),
        state_root: vbytes(rng),
        commit_id: vbytes(rng),
    }
}
fn g_abi_error(rng: &mut Rng) -> kp::AbiError {
    kp::AbiError { code: u32b(rng), message: gen_text(rng) }
}
fn g_registry(rng: &mut Rng) -> kp::RegistryInfo {
    kp::RegistryInfo {
        codec_id: opt(rng, gen_text),
        registry_version: opt(rng, gen_text),
        schema_sha256_hex: opt(rng, gen_text),
        abi_version: u32b(rng),
    }
}
pub fn g_obs_request(rng: &mut Rng) -> kp::ObservationRequest {
    kp::ObservationRequest {
        coordinate: kp::ObservationCoordinate {
            worldline_id: kp::WorldlineId::from_bytes(h32(rng)),
            at: if rng.chance(1, 2) { kp::ObservationAt::Frontier } else { kp::ObservationAt::Tick { worldline_tick: kp::WorldlineTick(u64b(rng)) } },
        },
        frame: rng.pick(&[kp::ObservationFrame::CommitBoundary, kp::ObservationFrame::RecordedTruth, kp::ObservationFrame::QueryView]).clone(),
        projection: match rng.below(4) {
            0 => kp::ObservationProjection::Head,
            1 => kp::ObservationProjection::Snapshot,
            2 => kp::ObservationProjection::TruthChannels { channels: opt(rng, |r| (0..r.below(4)).map(|_| vbytes(r)).collect()) },
            _ => kp::ObservationProjection::Query { query_id: u32b(rng), vars_bytes: vbytes(rng) },
        },
        observer_plan: if rng.chance(2, 3) {
            kp::ReadingObserverPlan::Builtin {
                plan: *rng.pick(&[kp::BuiltinObserverPlan::CommitBoundaryHead, kp::BuiltinObserverPlan::CommitBoundarySnapshot, kp::BuiltinObserverPlan::RecordedTruthChannels, kp::BuiltinObserverPlan::QueryBytes]),
            }
        } else {
            kp::ReadingObserverPlan::Authored {
                plan: Box::new(kp::AuthoredObserverPlan {
                    plan_id: kp::ObserverPlanId::from_bytes(h32(rng)),
                    artifact_hash: vbytes(rng),
                    schema_hash: vbytes(rng),
                    state_schema_hash: vbytes(rng),
                    update_law_hash: vbytes(rng),
                    emission_law_hash: vbytes(rng),
                }),
            }
        },
        observer_instance: opt(rng, |r| kp::ObserverInstanceRef {
            instance_id: kp::ObserverInstanceId::from_bytes(h32(r)),
            plan_id: kp::ObserverPlanId::from_bytes(h32(r)),
            state_hash: vbytes(r),
        }),
        budget: if rng.chance(1, 2) {
            kp::ObservationReadBudget::UnboundedOneShot
        } else {
            kp::ObservationReadBudget::Bounded { max_payload_bytes: u64b(rng), max_witness_refs: u64b(rng) }
        },
        rights: if rng.chance(1, 2) {
            kp::ObservationRights::KernelPublic
        } else {
            kp::ObservationRights::CapabilityScoped { capability: kp::OpticCapabilityId::from_bytes(h32(rng)) }
        },
    }
}
fn g_pref(rng: &mut Rng) -> kp::ProvenanceRef {
    kp::ProvenanceRef { worldline_id: kp::WorldlineId::from_bytes(h32(rng)), worldline_tick: kp::WorldlineTick(u64b(rng)), commit_hash: vbytes(rng) }
}
fn g_basis_report(rng: &mut Rng) -> kp::SettlementBasisReport {
    kp::SettlementBasisReport {
        parent_anchor: kp::BaseRef {
            source_worldline_id: kp::WorldlineId::from_bytes(h32(rng)),
            fork_tick: kp::WorldlineTick(u64b(rng)),
            commit_hash: vbytes(rng),
            boundary_hash: vbytes(rng),
            provenance_ref: g_pref(rng),
        },
        child_worldline_id: kp::WorldlineId::from_bytes(h32(rng)),
        source_suffix_start_tick: kp::WorldlineTick(u64b(rng)),
        source_suffix_end_tick: opt(rng, |r| kp::WorldlineTick(u64b(r))),
        realized_parent_ref: g_pref(rng),
        owned_closed_slot_count: u64b(rng),
        parent_written_slot_count: u64b(rng),
        parent_revalidation: match rng.below(3) {
            0 => kp::SettlementParentRevalidation::AtAnchor,
            1 => kp::SettlementParentRevalidation::ParentAdvancedDisjoint { parent_from: g_pref(rng), parent_to: g_pref(rng) },
            _ => kp::SettlementParentRevalidation::RevalidationRequired {
                parent_from: g_pref(rng),
                parent_to: g_pref(rng),
                overlapping_slot_count: u64b(rng),
                overlapping_slots_digest: vbytes(rng),
            },
        },
    }
}
fn g_shell(rng: &mut Rng) -> kp::WitnessedSuffixShell {
    kp::WitnessedSuffixShell {
        source_worldline_id: kp::WorldlineId::from_bytes(h32(rng)),
        source_suffix_start_tick: kp::WorldlineTick(u64b(rng)),
        source_suffix_end_tick: opt(rng, |r| kp::WorldlineTick(u64b(r))),
        source_entries: (0..rng.below(5)).map(|_| g_pref(rng)).collect(),
        boundary_witness: opt(rng, g_pref),
        witness_digest: vbytes(rng),
        basis_report: opt(rng, g_basis_report),
    }
}
pub fn g_import(rng: &mut Rng) -> kp::ImportSuffixRequest {
    kp::ImportSuffixRequest {
        bundle: kp::CausalSuffixBundle { base_frontier: g_pref(rng), target_frontier: g_pref(rng), source_suffix: g_shell(rng), bundle_digest: vbytes(rng) },
        target_worldline_id: kp::WorldlineId::from_bytes(h32(rng)),
        target_basis: g_pref(rng),
        basis_report: opt(rng, g_basis_report),
    }
}
fn g_legacy_value(rng: &mut Rng) -> echo_wasm_abi::Value {
    match rng.below(4) {
        0 => echo_wasm_abi::Value::Str(gen_text(rng)),
        1 => echo_wasm_abi::Value::Num(*rng.pick(&[0i64, -1, 23, 24, -24, -25, i64::MAX, i64::MIN, 255, 256])),
        2 => echo_wasm_abi::Value::Bool(rng.chance(1, 2)),
        _ => echo_wasm_abi::Value::Null,
    }
}
fn g_rewrite(rng: &mut Rng) -> echo_wasm_abi::Rewrite {
    echo_wasm_abi::Rewrite {
        id: u64b(rng),
        op: rng.pick(&[echo_wasm_abi::SemanticOp::Set, echo_wasm_abi::SemanticOp::AddNode, echo_wasm_abi::SemanticOp::DeleteNode, echo_wasm_abi::SemanticOp::Connect, echo_wasm_abi::SemanticOp::Disconnect]).clone(),
        target: gen_text(rng),
        subject: opt(rng, gen_text),
        old_value: opt(rng, g_legacy_value),
        new_value: opt(rng, g_legacy_value),
    }
}
fn g_graph(rng: &mut Rng) -> echo_wasm_abi::WarpGraph {
    let mut g = echo_wasm_abi::WarpGraph::default();
    for i in 0..rng.below(6) {
        let id = format!("{}{}", rng.pick(&["n", "node-", "", "aa", "b"]), i);
        let mut fields = std::collections::BTreeMap::new();
        for j in 0..rng.below(4) {
            fields.insert(format!("{}{}", rng.pick(&["f", "field", "z", "a"]), j), g_legacy_value(rng));
        }
        g.nodes.insert(id.clone(), echo_wasm_abi::Node { id, fields });
    }
    for _ in 0..rng.below(4) {
        g.edges.push(echo_wasm_abi::Edge { from: gen_text(rng), to: gen_text(rng) });
    }
    g
}

fn rt_dto<T: Serialize + DeserializeOwned + PartialEq + std::fmt::Debug>(v: &T) -> Rt {
    let b1 = match echo_wasm_abi::encode_cbor(v) {
        Ok(b) => b,
        Err(e) => return Rt::refused(label(&e)),
    };
    match echo_wasm_abi::encode_cbor(v) {
        Ok(b2) if b2 == b1 => {}
        _ => return Rt::failed(b1, "encode-not-deterministic", "second encode_cbor call differs".into()),
    }
    if let Some(why) = crate::cborx::canonical_violation(&b1, true) {
        let h = verif_core::hex(&b1[..b1.len().min(96)]);
        return Rt::failed(b1, &format!("encoder-emits-noncanonical:{why}"), format!("encode_cbor output violates canonical form ({why}): {h}"));
    }
    match echo_wasm_abi::decode_cbor::<T>(&b1) {
        Ok(got) if &got == v => Rt::ok(b1),
        Ok(got) => {
            let what = format!("decode_cbor(encode_cbor(v)) != v: expected {v:?} got {got:?}");
            Rt::failed(b1, "dto-roundtrip", what.chars().take(600).collect())
        }
        Err(e) => {
            let what = format!("decode_cbor rejects encode_cbor output ({e}) for {v:?}");
            Rt::failed(b1, "dto-roundtrip", what.chars().take(600).collect())
        }
    }
}

fn dec_dto<T: Serialize + DeserializeOwned>(b: &[u8]) -> Dec {
    match echo_wasm_abi::decode_cbor::<T>(b) {
        Ok(v) => Dec::Ok(echo_wasm_abi::encode_cbor(&v).ok()),
        Err(e) => Dec::Err(label(&e)),
    }
}
fn touch_dto<T: DeserializeOwned>(b: &[u8]) -> Result<(), String> {
    echo_wasm_abi::decode_cbor::<T>(b).map(|_| ()).map_err(|e| label(&e))
}

macro_rules! dto_codec {
    ($name:literal, $ty:ty, $gen:expr) => {
        dto_codec!($name, $ty, $gen, false)
    };
    ($name:literal, $ty:ty, $gen:expr, $c13:expr) => {
        Codec {
            name: $name,
            family: Family::CborTyped,
            canonical: true,
            cbor_offset: 0,
            decode: dec_dto::<$ty>,
            touch: touch_dto::<$ty>,
            roundtrip: |rng| rt_dto::<$ty>(&$gen(rng)),
            chunks: &[],
            needs_kernel: false,
            in_c12: true,
            in_c13: $c13,
        }
    };
}

// ---------------------------------------------------------------------------
// EINT envelopes
// ---------------------------------------------------------------------------

fn rt_intent(rng: &mut Rng) -> Rt {
    let op_id = match rng.below(6) {
        0 => 0,
        1 => u32::MAX,
        2 => echo_wasm_abi::CONTROL_INTENT_V1_OP_ID,
        3 => echo_wasm_abi::IMPORT_SUFFIX_INTENT_V1_OP_ID,
        _ => rng.next_u32(),
    };
    let vars = match rng.below(5) {
        0 => Vec::new(),
        1 => rng.bytes(70_000),
        _ => { let n_ = rng.range_usize(1, 64); rng.bytes(n_) },
    };
    let b1 = match echo_wasm_abi::pack_intent_v1(op_id, &vars) {
        Ok(b) => b,
        Err(e) => return Rt::refused(label(&e)),
    };
    if echo_wasm_abi::pack_intent_v1(op_id, &vars).ok().as_deref() != Some(&b1[..]) {
        return Rt::failed(b1, "encode-not-deterministic", "second pack_intent_v1 differs".into());
    }
    match echo_wasm_abi::unpack_intent_v1(&b1) {
        Ok((o, v)) if o == op_id && v == vars.as_slice() => Rt::ok(b1),
        other => {
            let what = format!("unpack_intent_v1(pack_intent_v1({op_id}, {} bytes)) = {:?}", vars.len(), other.map(|(o, v)| (o, v.len())));
            Rt::failed(b1, "envelope-roundtrip", what)
        }
    }
}
fn dec_intent(b: &[u8]) -> Dec {
    match echo_wasm_abi::unpack_intent_v1(b) {
        Ok((op, vars)) => Dec::Ok(echo_wasm_abi::pack_intent_v1(op, vars).ok()),
        Err(e) => Dec::Err(label(&e)),
    }
}
fn touch_intent(b: &[u8]) -> Result<(), String> {
    echo_wasm_abi::unpack_intent_v1(b).map(|_| ()).map_err(|e| label(&e))
}

fn rt_control(rng: &mut Rng) -> Rt {
    let v = g_control(rng);
    let b1 = match echo_wasm_abi::pack_control_intent_v1(&v) {
        Ok(b) => b,
        Err(e) => return Rt::refused(label(&e)),
    };
    if echo_wasm_abi::pack_control_intent_v1(&v).ok().as_deref() != Some(&b1[..]) {
        return Rt::failed(b1, "encode-not-deterministic", "second pack_control_intent_v1 differs".into());
    }
    match echo_wasm_abi::unpack_control_intent_v1(&b1) {
        Ok(got) if got == v => Rt::ok(b1),
        other => Rt::failed(b1, "envelope-roundtrip", format!("unpack(pack({v:?})) = {other:?}")),
    }
}
fn dec_control(b: &[u8]) -> Dec {
    match echo_wasm_abi::unpack_control_intent_v1(b) {
        Ok(v) => Dec::Ok(echo_wasm_abi::pack_control_intent_v1(&v).ok()),
        Err(e) => Dec::Err(label(&e)),
    }
}
fn touch_control(b: &[u8]) -> Result<(), String> {
    echo_wasm_abi::unpack_control_intent_v1(b).map(|_| ()).map_err(|e| label(&e))
}
fn rt_import(rng: &mut Rng) -> Rt {
    let v = g_import(rng);
    let b1 = match echo_wasm_abi::pack_import_suffix_intent_v1(&v) {
        Ok(b) => b,
        Err(e) => return Rt::refused(label(&e)),
    };
    if echo_wasm_abi::pack_import_suffix_intent_v1(&v).ok().as_deref() != Some(&b1[..]) {
        return Rt::failed(b1, "encode-not-deterministic", "second pack_import_suffix_intent_v1 differs".into());
    }
    match echo_wasm_abi::unpack_import_suffix_intent_v1(&b1) {
        Ok(got) if got == v => Rt::ok(b1),
        other => {
            let what = format!("unpack(pack(v)) = {other:?}");
            Rt::failed(b1, "envelope-roundtrip", what.chars().take(500).collect())
        }
    }
}
fn dec_import(b: &[u8]) -> Dec {
    match echo_wasm_abi::unpack_import_suffix_intent_v1(b) {
        Ok(v) => Dec::Ok(echo_wasm_abi::pack_import_suffix_intent_v1(&v).ok()),
        Err(e) => Dec::Err(label(&e)),
    }
}
fn touch_import(b: &[u8]) -> Result<(), String> {
    echo_wasm_abi::unpack_import_suffix_intent_v1(b).map(|_| ()).map_err(|e| label(&e))
}

// ---------------------------------------------------------------------------
// ELOG intent log
// ---------------------------------------------------------------------------

fn elog_read(b: &[u8]) -> Result<(echo_wasm_abi::ElogHeader, Vec<Vec<u8>>), String> {
    let mut cur = std::io::Cursor::new(b);
    let hdr = echo_wasm_abi::read_elog_header(&mut cur).map_err(|e| text_label(&e.to_string()))?;
    let mut frames = Vec::new();
    loop {
        match echo_wasm_abi::read_elog_frame(&mut cur) {
            Ok(Some(f)) => frames.push(f),
            Ok(None) => break,
            Err(e) => return Err(text_label(&e.to_string())),
        }
    }
    Ok((hdr, frames))
}
fn elog_write(hdr: &echo_wasm_abi::ElogHeader, frames: &[Vec<u8>]) -> Option<Vec<u8>> {
    let mut out = Vec::new();
    echo_wasm_abi::write_elog_header(&mut out, hdr).ok()?;
    for f in frames {
        echo_wasm_abi::write_elog_frame(&mut out, f).ok()?;
    }
    Some(out)
}
fn rt_elog(rng: &mut Rng) -> Rt {
    let hdr = echo_wasm_abi::ElogHeader { schema_hash: h32(rng), flags: 0 };
    let frames: Vec<Vec<u8>> = (0..rng.below(6))
        .map(|_| match rng.below(5) {
            0 => Vec::new(),
            1 => rng.bytes(100_000),
            _ => { let n_ = rng.range_usize(1, 80); rng.bytes(n_) },
        })
        .collect();
    let Some(b1) = elog_write(&hdr, &frames) else { return Rt::refused("io".into()) };
    if elog_write(&hdr, &frames).as_deref() != Some(&b1[..]) {
        return Rt::failed(b1, "encode-not-deterministic", "second ELOG write differs".into());
    }
    match elog_read(&b1) {
        Ok((h, f)) if h == hdr && f == frames => Rt::ok(b1),
        other => Rt::failed(b1, "elog-roundtrip", format!("read(write(log)) differs: {:?}", other.map(|(h, f)| (h, f.len())))),
    }
}
fn dec_elog(b: &[u8]) -> Dec {
    match elog_read(b) {
        Ok((h, f)) => Dec::Ok(elog_write(&h, &f)),
        Err(e) => Dec::Err(e),
    }
}
fn touch_elog(b: &[u8]) -> Result<(), String> {
    elog_read(b).map(|_| ())
}

// ---------------------------------------------------------------------------
// codec.rs Reader/Writer over a harness-defined schema (the generated
// Encode/Decode impls of echo-wesley-gen have exactly this shape)
// ---------------------------------------------------------------------------

use echo_wasm_abi::codec::{CodecError, Decode, Encode, Reader, Writer};

#[derive(Debug, Clone, PartialEq)]
struct RwItem {
    id: [u8; 32],
    name: String,
    weight: Option<i64>,
}
#[derive(Debug, Clone, PartialEq)]
struct RwDoc {
    kind: u8,
    op: u32,
    short: u16,
    delta: i32,
    flag: bool,
    scale_bits: u32,
    title: String,
    blob: Vec<u8>,
    items: Vec<RwItem>,
    tags: Vec<String>,
    nested: Vec<Vec<u32>>,
}
const RW_MAX: usize = 1 << 20;
impl Encode for RwDoc {
    fn encode(&self, w: &mut Writer) -> Result<(), CodecError> {
        w.write_u8(self.kind);
        w.write_u32_le(self.op);
        w.write_u16_le(self.short);
        w.write_i32_le(self.delta);
        w.write_bool(self.flag);
        w.write_f32_le(f32::from_bits(self.scale_bits));
        w.write_string(&self.title, RW_MAX)?;
        w.write_len_prefixed_bytes(&self.blob)?;
        w.write_list(&self.items, |w, it| {
            w.write_bytes(&it.id);
            w.write_string(&it.name, RW_MAX)?;
            w.write_option(it.weight, |w, v| {
                w.write_i64_le(v);
                Ok(())
            })
        })?;
        w.write_list(&self.tags, |w, t| w.write_string(t, RW_MAX))?;
        w.write_list(&self.nested, |w, xs| {
            w.write_list(xs, |w, x| {
                w.write_u32_le(*x);
                Ok(())
            })
        })
    }
}
impl Decode for RwDoc {
    fn decode(r: &mut Reader<'_>) -> Result<Self, CodecError> {
        Ok(Self {
            kind: r.read_u8()?,
            op: r.read_u32_le()?,
            short: r.read_u16_le()?,
            delta: r.read_i32_le()?,
            flag: r.read_bool()?,
            scale_bits: r.read_f32_le()?.to_bits(),
            title: r.read_string(RW_MAX)?,
            blob: r.read_len_prefixed_bytes(RW_MAX)?.to_vec(),
            items: r.read_list(|r| {
                Ok(RwItem {
                    id: r.read_byte_array::<32>()?,
                    name: r.read_string(RW_MAX)?,
                    weight: r.read_option(|r| r.read_i64_le())?,
                })
            })?,
            tags: r.read_list(|r| r.read_string(RW_MAX))?,
            nested: r.read_list(|r| r.read_list(|r| r.read_u32_le()))?,
        })
    }
}
fn g_rwdoc(rng: &mut Rng) -> RwDoc {
    let canon_f32 = |x: f32| echo_wasm_abi::codec::canonicalize_f32(x).to_bits();
    RwDoc {
        kind: rng.next_u32() as u8,
        op: u32b(rng),
        short: rng.next_u32() as u16,
        delta: rng.next_u32() as i32,
        flag: rng.chance(1, 2),
        scale_bits: canon_f32(f32::from_bits(rng.next_u32())),
        title: gen_text(rng),
        blob: gen_bytes(rng),
        items: (0..rng.below(5)).map(|_| RwItem { id: h32(rng), name: gen_text(rng), weight: opt(rng, |r| r.next_u64() as i64) }).collect(),
        tags: (0..rng.below(4)).map(|_| gen_text(rng)).collect(),
        nested: (0..rng.below(4)).map(|_| (0..rng.below(5)).map(|_| rng.next_u32()).collect()).collect(),
    }
}
fn rt_rw(rng: &mut Rng) -> Rt {
    let v = g_rwdoc(rng);
    let b1 = match echo_wasm_abi::codec::encode_to_vec(&v) {
        Ok(b) => b,
        Err(e) => return Rt::refused(label(&e)),
    };
    if echo_wasm_abi::codec::encode_to_vec(&v).ok().as_deref() != Some(&b1[..]) {
        return Rt::failed(b1, "encode-not-deterministic", "second encode_to_vec differs".into());
    }
    match echo_wasm_abi::codec::decode_from_bytes::<RwDoc>(&b1) {
        Ok(got) if got == v => Rt::ok(b1),
        other => Rt::failed(b1, "rw-roundtrip", format!("decode_from_bytes(encode_to_vec(v)) != v: {:?}", other.map(|d| d.op))),
    }
}
fn dec_rw(b: &[u8]) -> Dec {
    match echo_wasm_abi::codec::decode_from_bytes::<RwDoc>(b) {
        Ok(v) => Dec::Ok(echo_wasm_abi::codec::encode_to_vec(&v).ok()),
        Err(e) => Dec::Err(label(&e)),
    }
}
fn touch_rw(b: &[u8]) -> Result<(), String> {
    echo_wasm_abi::codec::decode_from_bytes::<RwDoc>(b).map(|_| ()).map_err(|e| label(&e))
}

pub fn codecs() -> Vec<Codec> {
    vec![
        Codec {
            name: "abi-cbor.value",
            family: Family::CborAbi,
            canonical: true,
            cbor_offset: 0,
            decode: dec_value,
            touch: touch_value,
            roundtrip: roundtrip_value,
            chunks: &[],
            needs_kernel: false,
            in_c12: true,
            in_c13: true,
        },
        dto_codec!("abi-dto.ControlIntentV1", kp::ControlIntentV1, g_control, true),
        dto_codec!("abi-dto.ObservationRequest", kp::ObservationRequest, g_obs_request),
        dto_codec!("abi-dto.DispatchResponse", kp::DispatchResponse, g_dispatch_response),
        dto_codec!("abi-dto.HeadInfo", kp::HeadInfo, g_head_info),
        dto_codec!("abi-dto.AbiError", kp::AbiError, g_abi_error),
        dto_codec!("abi-dto.RegistryInfo", kp::RegistryInfo, g_registry),
        dto_codec!("abi-dto.ImportSuffixRequest", kp::ImportSuffixRequest, g_import, true),
        dto_codec!("abi-dto.Rewrite", echo_wasm_abi::Rewrite, g_rewrite),
        dto_codec!("abi-dto.WarpGraph", echo_wasm_abi::WarpGraph, g_graph),
        Codec {
            name: "abi.intent_v1",
            family: Family::Binary,
            canonical: true,
            cbor_offset: 0,
            decode: dec_intent,
            touch: touch_intent,
            roundtrip: rt_intent,
            chunks: &[4],
            needs_kernel: false,
            in_c12: true,
            in_c13: true,
        },
        Codec {
            name: "abi.control_intent_v1",
            family: Family::CborTyped,
            canonical: true,
            cbor_offset: 12,
            decode: dec_control,
            touch: touch_control,
            roundtrip: rt_control,
            chunks: &[4],
            needs_kernel: false,
            in_c12: true,
            in_c13: true,
        },
        Codec {
            name: "abi.import_suffix_intent_v1",
            family: Family::CborTyped,
            canonical: true,
            cbor_offset: 12,
            decode: dec_import,
            touch: touch_import,
            roundtrip: rt_import,
            chunks: &[4],
            needs_kernel: false,
            in_c12: true,
            in_c13: true,
        },
        Codec {
            name: "abi.eintlog",
            family: Family::Binary,
            canonical: true,
            cbor_offset: 0,
            decode: dec_elog,
            touch: touch_elog,
            roundtrip: rt_elog,
            chunks: &[4, 8],
            needs_kernel: false,
            in_c12: true,
            in_c13: true,
        },
        Codec {
            name: "abi.codec-rw",
            family: Family::Binary,
            canonical: false,
            cbor_offset: 0,
            decode: dec_rw,
            touch: touch_rw,
            roundtrip: rt_rw,
            chunks: &[4, 32],
            needs_kernel: false,
            in_c12: true,
            in_c13: true,
        },
    ]
}
