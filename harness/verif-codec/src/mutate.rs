//! Structure-aware mutation of a valid encoding, dispatching on the codec family.

use verif_core::Rng;

use crate::codec::{Codec, Family};
use crate::cborx;

pub const BINARY_KINDS: &[&str] = &[
    "bit-flip",
    "byte-set",
    "truncate",
    "append",
    "chunk-swap",
    "chunk-dup",
    "chunk-zero",
    "chunk-drop",
    "len-field-huge",
    "len-field-off-by-one",
    "random-span",
    "magic-version-bump",
];

pub const LENGTHS: &[u64] = &[1 << 31, 1 << 32, 1 << 63, u64::MAX, (1 << 32) - 1, 1 << 20, 1 << 24, u64::MAX / 32, u64::MAX / 64 + 1];

fn le_fields(b: &[u8]) -> Vec<(usize, usize)> {
    // candidate little-endian length/count fields: 8- and 4-byte windows whose value is small
    let mut v = Vec::new();
    for off in 0..b.len().saturating_sub(3) {
        if off + 8 <= b.len() {
            let x = u64::from_le_bytes(b[off..off + 8].try_into().unwrap_or([0; 8]));
            if x <= b.len() as u64 + 8 {
                v.push((off, 8));
            }
        }
        let x = u32::from_le_bytes(b[off..off + 4].try_into().unwrap_or([0; 4]));
        if u64::from(x) <= b.len() as u64 + 8 {
            v.push((off, 4));
        }
    }
    v
}

pub fn mutate_binary(b: &[u8], chunks: &[usize], kind: &str, rng: &mut Rng) -> Option<Vec<u8>> {
    if b.is_empty() {
        return None;
    }
    let mut v = b.to_vec();
    let pick_chunk = |rng: &mut Rng| -> Option<(usize, usize)> {
        let sizes: Vec<usize> = chunks.iter().copied().filter(|s| *s * 2 <= b.len()).collect();
        if sizes.is_empty() {
            return None;
        }
        let s = *rng.pick(&sizes);
        let max_off = b.len() - 2 * s;
        let off = if rng.chance(3, 4) { rng.below_usize(max_off / 8 + 1) * 8 } else { rng.below_usize(max_off + 1) };
        Some((off.min(max_off), s))
    };
    match kind {
        "bit-flip" => {
            let i = rng.below_usize(v.len());
            v[i] ^= 1 << rng.below(8);
        }
        "byte-set" => {
            let i = rng.below_usize(v.len());
            v[i] = *rng.pick(&[0u8, 1, 2, 3, 4, 9, 0x7f, 0x80, 0xff]);
        }
        "truncate" => v.truncate(rng.below_usize(v.len())),
        "append" => {
            let n = rng.range_usize(1, 9);
            v.extend_from_slice(&rng.bytes(n));
        }
        "chunk-swap" => {
            let (off, s) = pick_chunk(rng)?;
            let (a, c) = v[off..off + 2 * s].split_at_mut(s);
            a.swap_with_slice(c);
        }
        "chunk-dup" => {
            let (off, s) = pick_chunk(rng)?;
            let dup = v[off..off + s].to_vec();
            v.splice(off + s..off + s, dup);
        }
        "chunk-zero" => {
            let (off, s) = pick_chunk(rng)?;
            for x in &mut v[off..off + s] {
                *x = 0;
            }
        }
        "chunk-drop" => {
            let (off, s) = pick_chunk(rng)?;
            v.drain(off..off + s);
        }
        "len-field-huge" | "len-field-off-by-one" => {
            let f = le_fields(b);
            if f.is_empty() {
                return None;
            }
            let (off, w) = *rng.pick(&f);
            let cur = if w == 8 { u64::from_le_bytes(b[off..off + 8].try_into().ok()?) } else { u64::from(u32::from_le_bytes(b[off..off + 4].try_into().ok()?)) };
            let nv = if kind == "len-field-huge" { *rng.pick(LENGTHS) } else if rng.chance(1, 2) { cur.wrapping_add(1) } else { cur.wrapping_sub(1) };
            if w == 8 {
                v[off..off + 8].copy_from_slice(&nv.to_le_bytes());
            } else {
                v[off..off + 4].copy_from_slice(&(nv as u32).to_le_bytes());
            }
        }
        "random-span" => {
            let i = rng.below_usize(v.len());
            let n = rng.range_usize(1, 16).min(v.len() - i);
            let r = rng.bytes(n);
            v[i..i + n].copy_from_slice(&r);
        }
        "magic-version-bump" => {
            let i = rng.below_usize(v.len().min(12));
            v[i] = v[i].wrapping_add(1);
        }
        _ => return None,
    }
    (v != b).then_some(v)
}

/// One structure-aware mutation of `valid` for `codec`; returns `(kind, bytes)`.
pub fn mutate(codec: &Codec, valid: &[u8], rng: &mut Rng) -> Option<(&'static str, Vec<u8>)> {
    let is_cbor = matches!(codec.family, Family::CborAbi | Family::CborTyped | Family::CborEdict | Family::CborScene);
    if is_cbor && rng.chance(5, 6) && valid.len() >= codec.cbor_offset {
        let kind = *rng.pick(cborx::MUTATION_KINDS);
        let inner = cborx::mutate(&valid[codec.cbor_offset..], kind, rng)?;
        let mut out = valid[..codec.cbor_offset].to_vec();
        if codec.cbor_offset == 12 {
            // EINT: keep the envelope length honest so the mutation reaches the CBOR layer
            let len = u32::try_from(inner.len()).ok()?;
            out[8..12].copy_from_slice(&len.to_le_bytes());
        }
        out.extend_from_slice(&inner);
        return (out != valid).then_some((kind, out));
    }
    let kind = *rng.pick(BINARY_KINDS);
    let chunks: &[usize] = if codec.chunks.is_empty() { &[1, 2, 4, 8] } else { codec.chunks };
    mutate_binary(valid, chunks, kind, rng).map(|b| (kind, b))
}

/// Why an accepted binary input differs from its re-encoding.
pub fn binary_class(input: &[u8], reenc: &[u8]) -> String {
    if reenc.len() < input.len() && input.starts_with(reenc) {
        return "trailing-bytes-ignored".to_owned();
    }
    if reenc.len() != input.len() {
        return "length-differs".to_owned();
    }
    let mut a = input.to_vec();
    let mut b = reenc.to_vec();
    a.sort_unstable();
    b.sort_unstable();
    if a == b {
        return "reordered-content-normalised".to_owned();
    }
    "content-normalised".to_owned()
}
