//! Harness-side CBOR tooling written from RFC 8949 and the repo's
//! `docs/spec/js-cbor-mapping.md` rules — independent of both codecs under test:
//! a tolerant item scanner (spans), an independent canonical-form validator,
//! structure-aware mutators, and input classifiers.

use verif_core::Rng;

#[derive(Debug, Clone)]
pub struct Item {
    pub start: usize,
    pub end: usize,
    pub head_len: usize,
    pub major: u8,
    pub info: u8,
    pub arg: u64,
    /// arrays: elements; maps: k0,v0,k1,v1,…
    pub kids: Vec<Item>,
}

/// Scan one well-formed *definite-length* item starting at `pos`. Tags are
/// scanned as one-child containers. Returns `None` on anything else.
pub fn scan_at(b: &[u8], pos: usize, depth: usize) -> Option<Item> {
    if depth > 512 || pos >= b.len() {
        return None;
    }
    let b0 = b[pos];
    let major = b0 >> 5;
    let info = b0 & 0x1f;
    let (arg, head_len) = match info {
        0..=23 => (u64::from(info), 1),
        24 => (u64::from(*b.get(pos + 1)?), 2),
        25 => (u64::from(u16::from_be_bytes(b.get(pos + 1..pos + 3)?.try_into().ok()?)), 3),
        26 => (u64::from(u32::from_be_bytes(b.get(pos + 1..pos + 5)?.try_into().ok()?)), 5),
        27 => (u64::from_be_bytes(b.get(pos + 1..pos + 9)?.try_into().ok()?), 9),
        _ => return None,
    };
    let mut it = Item { start: pos, end: pos + head_len, head_len, major, info, arg, kids: Vec::new() };
    match major {
        0 | 1 | 7 => {}
        2 | 3 => {
            let len = usize::try_from(arg).ok()?;
            let end = it.end.checked_add(len)?;
            if end > b.len() {
                return None;
            }
            it.end = end;
        }
        4 | 5 | 6 => {
            let n = if major == 4 { arg } else if major == 5 { arg.checked_mul(2)? } else { 1 };
            if n > (b.len() - it.end) as u64 {
                return None;
            }
            let mut p = it.end;
            for _ in 0..n {
                let k = scan_at(b, p, depth + 1)?;
                p = k.end;
                it.kids.push(k);
            }
            it.end = p;
        }
        _ => return None,
    }
    Some(it)
}

pub fn scan(b: &[u8]) -> Option<Item> {
    let it = scan_at(b, 0, 0)?;
    (it.end == b.len()).then_some(it)
}

pub fn flatten<'a>(it: &'a Item, out: &mut Vec<&'a Item>) {
    out.push(it);
    for k in &it.kids {
        flatten(k, out);
    }
}

pub fn head(major: u8, arg: u64, width: u8) -> Vec<u8> {
    let m = major << 5;
    match width {
        0 => vec![m | (arg as u8 & 0x1f)],
        1 => vec![m | 24, arg as u8],
        2 => {
            let mut v = vec![m | 25];
            v.extend_from_slice(&(arg as u16).to_be_bytes());
            v
        }
        4 => {
            let mut v = vec![m | 26];
            v.extend_from_slice(&(arg as u32).to_be_bytes());
            v
        }
        _ => {
            let mut v = vec![m | 27];
            v.extend_from_slice(&arg.to_be_bytes());
            v
        }
    }
}

pub fn min_width(arg: u64) -> u8 {
    match arg {
        0..=23 => 0,
        24..=0xff => 1,
        0x100..=0xffff => 2,
        0x1_0000..=0xffff_ffff => 4,
        _ => 8,
    }
}

pub fn min_head(major: u8, arg: u64) -> Vec<u8> {
    head(major, arg, min_width(arg))
}

fn f16_to_f64(h: u16) -> f64 {
    let sign = if h & 0x8000 != 0 { -1.0 } else { 1.0 };
    let exp = (h >> 10) & 0x1f;
    let frac = f64::from(h & 0x3ff);
    let v = match exp {
        0 => frac * 2f64.powi(-24),
        31 => {
            if frac == 0.0 {
                f64::INFINITY
            } else {
                f64::NAN
            }
        }
        e => (1.0 + frac / 1024.0) * 2f64.powi(i32::from(e) - 15),
    };
    sign * v
}

/// Does some f16 bit pattern represent exactly `f` (non-NaN)?
fn fits_f16(f: f64) -> bool {
    if f.is_infinite() {
        return true;
    }
    if f == 0.0 {
        return true;
    }
    let a = f.abs();
    if a > 65504.0 || a < 2f64.powi(-24) {
        return false;
    }
    // exact iff a / 2^-24 is an integer with ≤ 11 significant bits
    let scaled = a * 2f64.powi(24);
    if scaled.fract() != 0.0 {
        return false;
    }
    let m = scaled as u64;
    let tz = m.trailing_zeros();
    let sig = m >> tz;
    sig < (1 << 11)
}

fn fits_f32(f: f64) -> bool {
    f64::from(f as f32) == f
}

/// Independent canonical-form verdict for the *ABI* profile: definite lengths,
/// no tags, minimal integer/length width, shortest float that round-trips,
/// integral floats must be integers, one NaN (f9 7e 00), map keys strictly
/// increasing bytewise, only false/true/null simples, valid UTF-8.
/// `allow_floats=false` gives the Edict profile (no floats at all).
pub fn canonical_violation(b: &[u8], allow_floats: bool) -> Option<&'static str> {
    fn walk(b: &[u8], it: &Item, allow_floats: bool) -> Option<&'static str> {
        match it.major {
            0..=5 => {
                if it.head_len != 1 + usize::from(min_width(it.arg)) {
                    return Some("non-minimal-width");
                }
            }
            6 => return Some("tag"),
            _ => {}
        }
        match it.major {
            3 => {
                if std::str::from_utf8(&b[it.start + it.head_len..it.end]).is_err() {
                    return Some("invalid-utf8");
                }
            }
            4 => {
                for k in &it.kids {
                    if let Some(e) = walk(b, k, allow_floats) {
                        return Some(e);
                    }
                }
            }
            5 => {
                let mut prev: Option<&[u8]> = None;
                for pair in it.kids.chunks(2) {
                    let kb = &b[pair[0].start..pair[0].end];
                    if let Some(p) = prev {
                        if kb == p {
                            return Some("duplicate-key");
                        }
                        if kb < p {
                            return Some("key-order");
                        }
                    }
                    prev = Some(kb);
                    for k in pair {
                        if let Some(e) = walk(b, k, allow_floats) {
                            return Some(e);
                        }
                    }
                }
            }
            7 => match it.info {
                20..=22 => {}
                25..=27 => {
                    if !allow_floats {
                        return Some("float");
                    }
                    let f = match it.info {
                        25 => f16_to_f64(it.arg as u16),
                        26 => f64::from(f32::from_bits(it.arg as u32)),
                        _ => f64::from_bits(it.arg),
                    };
                    if f.is_nan() {
                        if !(it.info == 25 && it.arg == 0x7e00) {
                            return Some("nan-payload");
                        }
                    } else {
                        // integral floats that HAVE an integer encoding must use it
                        if f.is_finite() && f.fract() == 0.0 && f >= -9_223_372_036_854_775_808.0 && f < 18_446_744_073_709_551_616.0 {
                            return Some("integral-float");
                        }
                        if it.info >= 26 && fits_f16(f) {
                            return Some("float-width");
                        }
                        if it.info == 27 && fits_f32(f) {
                            return Some("float-width");
                        }
                    }
                }
                _ => return Some("simple"),
            },
            _ => {}
        }
        None
    }
    match scan(b) {
        None => Some("not-wellformed-definite"),
        Some(it) => walk(b, &it, allow_floats),
    }
}

/// Input classes used in C13 signatures (independent of where the input came from).
pub fn crash_class(b: &[u8]) -> &'static str {
    // Walk tolerantly: track nesting depth and any declared length that exceeds the remaining input.
    let mut pos = 0usize;
    let mut depth = 0usize;
    let mut max_depth = 0usize;
    // stack of remaining child counts
    let mut stack: Vec<u64> = Vec::new();
    let mut steps = 0usize;
    while pos < b.len() && steps < 4_000_000 {
        steps += 1;
        let b0 = b[pos];
        let major = b0 >> 5;
        let info = b0 & 0x1f;
        let (arg, hl) = match info {
            0..=23 => (u64::from(info), 1usize),
            24 if pos + 2 <= b.len() => (u64::from(b[pos + 1]), 2),
            25 if pos + 3 <= b.len() => (u64::from(u16::from_be_bytes([b[pos + 1], b[pos + 2]])), 3),
            26 if pos + 5 <= b.len() => (
                u64::from(u32::from_be_bytes([b[pos + 1], b[pos + 2], b[pos + 3], b[pos + 4]])),
                5,
            ),
            27 if pos + 9 <= b.len() => {
                let mut a = [0u8; 8];
                a.copy_from_slice(&b[pos + 1..pos + 9]);
                (u64::from_be_bytes(a), 9)
            }
            _ => break,
        };
        pos += hl;
        let remaining = (b.len() - pos) as u64;
        let mut opened = false;
        match major {
            2 | 3 => {
                if arg > remaining {
                    return "declared-len-exceeds-input";
                }
                pos += arg as usize;
            }
            4 | 5 => {
                let n = if major == 5 { arg.saturating_mul(2) } else { arg };
                if n > remaining {
                    return "declared-len-exceeds-input";
                }
                if n > 0 {
                    stack.push(n);
                    depth += 1;
                    max_depth = max_depth.max(depth);
                    opened = true;
                }
            }
            6 => {
                stack.push(1);
                depth += 1;
                opened = true;
            }
            _ => {}
        }
        if !opened {
            // one item completed: pop finished containers
            while let Some(top) = stack.last_mut() {
                *top -= 1;
                if *top == 0 {
                    stack.pop();
                    depth -= 1;
                } else {
                    break;
                }
            }
        }
        if max_depth > 1000 {
            return "deep-nesting";
        }
    }
    if max_depth > 1000 {
        "deep-nesting"
    } else {
        "other"
    }
}

/// Find a CBOR payload inside an envelope-ish input for classification: tries
/// offset 0, then 12 (EINT header).
pub fn crash_class_any(b: &[u8]) -> &'static str {
    let c = crash_class(b);
    if c != "other" {
        return c;
    }
    if b.len() > 12 && &b[..4] == b"EINT" {
        return crash_class(&b[12..]);
    }
    c
}

fn float_enc_all(f: f64) -> Vec<Vec<u8>> {
    let mut out = Vec::new();
    // f64
    let mut v = vec![0xfb];
    v.extend_from_slice(&f.to_bits().to_be_bytes());
    out.push(v);
    let mut v = vec![0xfa];
    v.extend_from_slice(&(f as f32).to_bits().to_be_bytes());
    out.push(v);
    out
}

pub const NAN_FORMS: &[&[u8]] = &[
    &[0xf9, 0x7e, 0x01],
    &[0xf9, 0x7c, 0x01],
    &[0xf9, 0xfe, 0x00],
    &[0xf9, 0x7f, 0xff],
    &[0xfa, 0x7f, 0xc0, 0x00, 0x00],
    &[0xfa, 0x7f, 0xc0, 0x00, 0x01],
    &[0xfa, 0xff, 0x80, 0x00, 0x01],
    &[0xfb, 0x7f, 0xf8, 0, 0, 0, 0, 0, 0],
    &[0xfb, 0x7f, 0xf8, 0, 0, 0, 0, 0, 1],
    &[0xfb, 0xff, 0xf0, 0, 0, 0, 0, 0, 1],
    &[0xf9, 0x80, 0x00],
    &[0xf9, 0x00, 0x00],
    &[0xfa, 0x80, 0x00, 0x00, 0x00],
    &[0xfb, 0x80, 0, 0, 0, 0, 0, 0, 0],
];

fn splice(b: &[u8], start: usize, end: usize, with: &[u8]) -> Vec<u8> {
    let mut v = Vec::with_capacity(b.len() + with.len());
    v.extend_from_slice(&b[..start]);
    v.extend_from_slice(with);
    v.extend_from_slice(&b[end..]);
    v
}

pub const MUTATION_KINDS: &[&str] = &[
    "width-inflate",
    "key-swap",
    "key-dup",
    "trailing-byte",
    "tag-insert",
    "indefinite",
    "int-to-float",
    "float-rewiden",
    "nan-payload",
    "unknown-key",
    "drop-entry",
    "drop-null-entry",
    "text-to-unit-map",
    "simple-rewrite",
    "major-swap",
    "count-off-by-one",
    "huge-len",
    "truncate",
    "byte-flip",
];

/// Apply mutation `kind` to a well-formed definite encoding. `None` when the
/// encoding has no site for that mutation.
pub fn mutate(b: &[u8], kind: &str, rng: &mut Rng) -> Option<Vec<u8>> {
    let root = scan(b)?;
    let mut all = Vec::new();
    flatten(&root, &mut all);
    let pick = |rng: &mut Rng, pred: &dyn Fn(&Item) -> bool| -> Option<Item> {
        let c: Vec<&&Item> = all.iter().filter(|i| pred(i)).collect();
        if c.is_empty() {
            None
        } else {
            Some((**c[rng.below_usize(c.len())]).clone())
        }
    };
    match kind {
        "width-inflate" => {
            let it = pick(rng, &|i| i.major <= 5 && i.head_len < 9)?;
            let widths: Vec<u8> = [1u8, 2, 4, 8].into_iter().filter(|w| usize::from(*w) + 1 > it.head_len).collect();
            let w = *rng.pick(&widths);
            Some(splice(b, it.start, it.start + it.head_len, &head(it.major, it.arg, w)))
        }
        "key-swap" => {
            let it = pick(rng, &|i| i.major == 5 && i.kids.len() >= 4)?;
            let n = it.kids.len() / 2;
            let i = rng.below_usize(n - 1);
            let (a0, a1) = (it.kids[2 * i].start, it.kids[2 * i + 1].end);
            let (b0, b1) = (it.kids[2 * i + 2].start, it.kids[2 * i + 3].end);
            let mut v = b[..a0].to_vec();
            v.extend_from_slice(&b[b0..b1]);
            v.extend_from_slice(&b[a0..a1]);
            v.extend_from_slice(&b[b1..]);
            Some(v)
        }
        "key-dup" => {
            let it = pick(rng, &|i| i.major == 5 && i.kids.len() >= 2 && i.arg < u64::MAX)?;
            let n = it.kids.len() / 2;
            let i = rng.below_usize(n);
            let (a0, a1) = (it.kids[2 * i].start, it.kids[2 * i + 1].end);
            let mut v = b[..it.start].to_vec();
            v.extend_from_slice(&min_head(5, it.arg + 1));
            v.extend_from_slice(&b[it.start + it.head_len..a1]);
            v.extend_from_slice(&b[a0..a1]);
            v.extend_from_slice(&b[a1..]);
            Some(v)
        }
        "trailing-byte" => {
            let mut v = b.to_vec();
            v.push(*rng.pick(&[0x00u8, 0xf6, 0xff, 0x80, 0x60]));
            Some(v)
        }
        "tag-insert" => {
            let it = pick(rng, &|_| true)?;
            let tag = *rng.pick(&[0u64, 1, 2, 24, 55799, 1 << 40]);
            Some(splice(b, it.start, it.start, &min_head(6, tag)))
        }
        "indefinite" => {
            let it = pick(rng, &|i| (2..=5).contains(&i.major))?;
            let mut v = b[..it.start].to_vec();
            v.push((it.major << 5) | 31);
            if it.major <= 3 {
                // one definite chunk
                v.extend_from_slice(&b[it.start..it.end]);
            } else {
                v.extend_from_slice(&b[it.start + it.head_len..it.end]);
            }
            v.push(0xff);
            v.extend_from_slice(&b[it.end..]);
            Some(v)
        }
        "int-to-float" => {
            let it = pick(rng, &|i| i.major <= 1)?;
            let f = if it.major == 0 { it.arg as f64 } else { -1.0 - it.arg as f64 };
            let mut forms = float_enc_all(f);
            if fits_f16(f) && f.abs() <= 2048.0 {
                // f16 of a small integer: sign|exp|mant built via f32 → manual
                let bits = f32_to_f16_bits(f as f32);
                forms.push(vec![0xf9, (bits >> 8) as u8, bits as u8]);
            }
            let form = forms[rng.below_usize(forms.len())].clone();
            Some(splice(b, it.start, it.end, &form))
        }
        "float-rewiden" => {
            let it = pick(rng, &|i| i.major == 7 && (25..=26).contains(&i.info))?;
            let f = if it.info == 25 { f16_to_f64(it.arg as u16) } else { f64::from(f32::from_bits(it.arg as u32)) };
            let forms = float_enc_all(f);
            let form = if it.info == 26 { forms[0].clone() } else { forms[rng.below_usize(2)].clone() };
            Some(splice(b, it.start, it.end, &form))
        }
        "nan-payload" => {
            // replace any scalar leaf (or a float if present) with a NaN / signed-zero form
            let it = pick(rng, &|i| i.major == 7 && i.info >= 25)
                .or_else(|| pick(rng, &|i| i.major <= 1 || i.major == 7))?;
            let form = NAN_FORMS[rng.below_usize(NAN_FORMS.len())];
            Some(splice(b, it.start, it.end, form))
        }
        "unknown-key" => {
            let it = pick(rng, &|i| i.major == 5 && i.arg < 1 << 20)?;
            // new text key placed at its canonical position, value 0 / null / text
            let name = *rng.pick(&["zz_unknown", "a", "_", "extra_field_with_a_long_name_"]);
            let mut kb = min_head(3, name.len() as u64);
            kb.extend_from_slice(name.as_bytes());
            let val: &[u8] = *rng.pick(&[&[0x00u8][..], &[0xf6], &[0x61, 0x78], &[0x80]]);
            let mut at = it.end;
            for pair in it.kids.chunks(2) {
                let cur = &b[pair[0].start..pair[0].end];
                if cur == kb.as_slice() {
                    return None;
                }
                if cur > kb.as_slice() {
                    at = pair[0].start;
                    break;
                }
            }
            let mut v = b[..it.start].to_vec();
            v.extend_from_slice(&min_head(5, it.arg + 1));
            v.extend_from_slice(&b[it.start + it.head_len..at]);
            v.extend_from_slice(&kb);
            v.extend_from_slice(val);
            v.extend_from_slice(&b[at..]);
            Some(v)
        }
        "drop-entry" | "drop-null-entry" => {
            let only_null = kind == "drop-null-entry";
            let it = pick(rng, &|i| {
                i.major == 5
                    && !i.kids.is_empty()
                    && (!only_null || i.kids.chunks(2).any(|p| p[1].major == 7 && p[1].info == 22))
            })?;
            let idx: Vec<usize> = (0..it.kids.len() / 2)
                .filter(|i| !only_null || (it.kids[2 * i + 1].major == 7 && it.kids[2 * i + 1].info == 22))
                .collect();
            let i = *rng.pick(&idx);
            let (a0, a1) = (it.kids[2 * i].start, it.kids[2 * i + 1].end);
            let mut v = b[..it.start].to_vec();
            v.extend_from_slice(&min_head(5, it.arg - 1));
            v.extend_from_slice(&b[it.start + it.head_len..a0]);
            v.extend_from_slice(&b[a1..]);
            Some(v)
        }
        "text-to-unit-map" => {
            // "variant"  →  {"variant": null}
            let it = pick(rng, &|i| i.major == 3 && i.arg > 0)?;
            let mut w = vec![0xa1];
            w.extend_from_slice(&b[it.start..it.end]);
            w.push(0xf6);
            Some(splice(b, it.start, it.end, &w))
        }
        "simple-rewrite" => {
            let it = pick(rng, &|i| i.major == 7 && i.info <= 22)?;
            let form: Vec<u8> = match rng.below(3) {
                0 => vec![0xf7],
                1 => vec![0xf8, it.info],
                _ => vec![0xe0 | 19],
            };
            Some(splice(b, it.start, it.end, &form))
        }
        "major-swap" => {
            let it = pick(rng, &|i| i.major == 2 || i.major == 3)?;
            let mut v = b.to_vec();
            v[it.start] = (b[it.start] & 0x1f) | (if it.major == 2 { 3 } else { 2 } << 5);
            Some(v)
        }
        "count-off-by-one" => {
            let it = pick(rng, &|i| (2..=5).contains(&i.major))?;
            let n = if rng.chance(1, 2) { it.arg.wrapping_add(1) } else { it.arg.wrapping_sub(1) };
            Some(splice(b, it.start, it.start + it.head_len, &min_head(it.major, n)))
        }
        "huge-len" => {
            let it = pick(rng, &|i| (2..=5).contains(&i.major))?;
            let n = *rng.pick(&[1u64 << 31, 1 << 32, 1 << 63, u64::MAX, 1 << 20, 1 << 24, 10_000, 9_999, 65_535, 100_000]);
            Some(splice(b, it.start, it.start + it.head_len, &min_head(it.major, n)))
        }
        "truncate" => {
            if b.is_empty() {
                return None;
            }
            Some(b[..rng.below_usize(b.len())].to_vec())
        }
        "byte-flip" => {
            if b.is_empty() {
                return None;
            }
            let mut v = b.to_vec();
            let i = rng.below_usize(v.len());
            v[i] ^= 1 << rng.below(8);
            Some(v)
        }
        _ => None,
    }
}

pub fn f32_to_f16_bits(f: f32) -> u16 {
    // exact conversion for values known to fit (small integers, simple fractions)
    let bits = f.to_bits();
    let sign = ((bits >> 16) & 0x8000) as u16;
    let exp = ((bits >> 23) & 0xff) as i32;
    let man = bits & 0x7f_ffff;
    if exp == 0 {
        return sign;
    }
    if exp == 0xff {
        return sign | 0x7c00 | if man != 0 { 0x200 } else { 0 };
    }
    let e = exp - 127 + 15;
    if e >= 31 {
        return sign | 0x7c00;
    }
    if e <= 0 {
        // subnormal half
        let shift = 14 - e;
        if shift > 24 {
            return sign;
        }
        let m = (man | 0x80_0000) >> shift;
        return sign | m as u16;
    }
    sign | ((e as u16) << 10) | (man >> 13) as u16
}

/// Classify why `input` (accepted) differs from `reenc` for KNOWN-FINDING signatures.
pub fn noncanonical_class(input: &[u8], reenc: &[u8]) -> String {
    if let Some(v) = canonical_violation(input, true) {
        return v.to_owned();
    }
    // canonical CBOR at the value level but the typed layer dropped or added something
    if let (Some(a), Some(b)) = (scan(input), scan(reenc)) {
        return tree_diff(input, &a, reenc, &b);
    }
    if reenc.len() < input.len() && input.starts_with(reenc) {
        return "trailing".to_owned();
    }
    "other".to_owned()
}

fn tree_diff(ab: &[u8], a: &Item, bb: &[u8], b: &Item) -> String {
    if ab[a.start..a.end] == bb[b.start..b.end] {
        return "same".to_owned();
    }
    if a.major != b.major {
        if a.major == 5 && b.major == 3 {
            return "enum-map-form".to_owned();
        }
        if a.major == 2 && b.major == 3 {
            return "bytes-accepted-for-text".to_owned();
        }
        if a.major == 4 && b.major == 5 {
            return "array-accepted-for-struct".to_owned();
        }
        return format!("major-{}-vs-{}", a.major, b.major);
    }
    match a.major {
        5 => {
            let keys = |bytes: &[u8], it: &Item| -> Vec<Vec<u8>> {
                it.kids.chunks(2).map(|p| bytes[p[0].start..p[0].end].to_vec()).collect()
            };
            let ka = keys(ab, a);
            let kb = keys(bb, b);
            for k in &ka {
                if !kb.contains(k) {
                    let mut swapped = k.clone();
                    if !swapped.is_empty() && swapped[0] >> 5 == 2 {
                        swapped[0] = (swapped[0] & 0x1f) | (3 << 5);
                        if kb.contains(&swapped) {
                            return "bytes-accepted-for-text".to_owned();
                        }
                    }
                    return "unknown-field-ignored".to_owned();
                }
            }
            if kb.iter().any(|k| !ka.contains(k)) {
                return "absent-field-defaulted".to_owned();
            }
            for (i, k) in ka.iter().enumerate() {
                if let Some(j) = kb.iter().position(|x| x == k) {
                    let d = tree_diff(ab, &a.kids[2 * i + 1], bb, &b.kids[2 * j + 1]);
                    if d != "same" {
                        return d;
                    }
                }
            }
            "map-other".to_owned()
        }
        4 => {
            if a.kids.len() != b.kids.len() {
                return "array-len".to_owned();
            }
            for (x, y) in a.kids.iter().zip(&b.kids) {
                let d = tree_diff(ab, x, bb, y);
                if d != "same" {
                    return d;
                }
            }
            "array-other".to_owned()
        }
        _ => format!("leaf-major-{}", a.major),
    }
}
