//! WSC columnar snapshot writer/reader/validator, the WSC store envelope, and
//! the WAL segment reader (`recover_wal_segment_bytes`).

use verif_core::Rng;
use warp_core::causal_wal as w;
use warp_core::wsc::types::{AttRow, EdgeRow, NodeRow, OutEdgeRef, Range};
use warp_core::wsc::{validate_wsc, write_wsc_one_warp, OneWarpInput, WscFile, WscStoreEnvelope, WscStoreRecordKind};
use warp_core::Hash;

use crate::codec::{label, Codec, Dec, Family, Rt};
use crate::core_codecs::h;

pub fn g_input(rng: &mut Rng) -> OneWarpInput {
    let n_nodes = *rng.pick(&[0usize, 1, 2, 3, 8, 40, 300]);
    let mut ids: Vec<Hash> = (0..n_nodes).map(|_| rng.hash32()).collect();
    ids.sort();
    ids.dedup();
    let nodes: Vec<NodeRow> = ids.iter().map(|id| NodeRow { node_id: *id, node_type: h(rng) }).collect();
    let n_edges = if nodes.is_empty() { 0 } else { *rng.pick(&[0usize, 1, 2, 5, 30, 200]) };
    let mut eids: Vec<Hash> = (0..n_edges).map(|_| rng.hash32()).collect();
    eids.sort();
    eids.dedup();
    let edges: Vec<EdgeRow> = eids
        .iter()
        .map(|id| EdgeRow { edge_id: *id, from_node_id: nodes[rng.below_usize(nodes.len())].node_id, to_node_id: nodes[rng.below_usize(nodes.len())].node_id, edge_type: h(rng) })
        .collect();
    // out edges grouped by source node
    let mut out_index = Vec::new();
    let mut out_edges = Vec::new();
    for n in &nodes {
        let start = out_edges.len() as u64;
        for (ix, e) in edges.iter().enumerate() {
            if e.from_node_id == n.node_id {
                out_edges.push(OutEdgeRef { edge_ix_le: (ix as u64).to_le(), edge_id: e.edge_id });
            }
        }
        out_index.push(Range { start_le: start.to_le(), len_le: (out_edges.len() as u64 - start).to_le() });
    }
    let mut blobs: Vec<u8> = Vec::new();
    let mk_atts = |count: usize, rng: &mut Rng, blobs: &mut Vec<u8>| -> (Vec<Range>, Vec<AttRow>) {
        let mut index = Vec::new();
        let mut atts = Vec::new();
        for _ in 0..count {
            let start = atts.len() as u64;
            for _ in 0..*rng.pick(&[0usize, 0, 1, 1, 2]) {
                if rng.chance(2, 3) {
                    let len = *rng.pick(&[0usize, 1, 7, 8, 9, 200, 5000]);
                    // blobs are 8-byte aligned in files produced by the real builder; any offset is legal
                    let off = blobs.len();
                    blobs.extend_from_slice(&rng.bytes(len));
                    atts.push(AttRow { tag: AttRow::TAG_ATOM, reserved0: [0; 7], type_or_warp: h(rng), blob_off_le: (off as u64).to_le(), blob_len_le: (len as u64).to_le() });
                } else {
                    atts.push(AttRow { tag: AttRow::TAG_DESCEND, reserved0: [0; 7], type_or_warp: h(rng), blob_off_le: 0, blob_len_le: 0 });
                }
            }
            index.push(Range { start_le: start.to_le(), len_le: (atts.len() as u64 - start).to_le() });
        }
        (index, atts)
    };
    let (node_atts_index, node_atts) = mk_atts(nodes.len(), rng, &mut blobs);
    let (edge_atts_index, edge_atts) = mk_atts(edges.len(), rng, &mut blobs);
    let root = if nodes.is_empty() { [0u8; 32] } else { nodes[rng.below_usize(nodes.len())].node_id };
    OneWarpInput { warp_id: h(rng), root_node_id: root, nodes, edges, out_index, out_edges, node_atts_index, node_atts, edge_atts_index, edge_atts, blobs }
}

fn compare_view(input: &OneWarpInput, file: &WscFile, schema: &Hash, tick: u64) -> Result<(), String> {
    if file.tick() != tick || file.schema_hash() != schema || file.warp_count() != 1 {
        return Err("header fields differ".into());
    }
    let v = file.warp_view(0).map_err(|e| format!("warp_view: {e}"))?;
    if v.warp_id() != &input.warp_id || v.root_node_id() != &input.root_node_id {
        return Err("warp/root id differ".into());
    }
    if v.nodes() != input.nodes.as_slice() || v.edges() != input.edges.as_slice() {
        return Err("node/edge rows differ".into());
    }
    if v.blobs() != input.blobs.as_slice() {
        return Err("blob section differs".into());
    }
    for (i, n) in input.nodes.iter().enumerate() {
        if v.node_ix(&n.node_id) != Some(i) {
            return Err(format!("node_ix({i}) wrong"));
        }
        let r = input.out_index[i];
        let want = &input.out_edges[r.start() as usize..(r.start() + r.len()) as usize];
        if v.out_edges_for_node(i) != want {
            return Err(format!("out_edges_for_node({i}) differ"));
        }
        let r = input.node_atts_index[i];
        let want = &input.node_atts[r.start() as usize..(r.start() + r.len()) as usize];
        if v.node_attachments(i) != want {
            return Err(format!("node_attachments({i}) differ"));
        }
        for a in want {
            let got = v.blob_for_attachment(a);
            if a.is_atom() {
                let b = &input.blobs[a.blob_off() as usize..(a.blob_off() + a.blob_len()) as usize];
                if got != Some(b) {
                    return Err("atom blob differs".into());
                }
            } else if got.is_some() {
                return Err("descend attachment has blob".into());
            }
        }
    }
    for (i, e) in input.edges.iter().enumerate() {
        if v.edge_ix(&e.edge_id) != Some(i) {
            return Err(format!("edge_ix({i}) wrong"));
        }
        let r = input.edge_atts_index[i];
        let want = &input.edge_atts[r.start() as usize..(r.start() + r.len()) as usize];
        if v.edge_attachments(i) != want {
            return Err(format!("edge_attachments({i}) differ"));
        }
    }
    Ok(())
}

fn rt_wsc(rng: &mut Rng) -> Rt {
    let input = g_input(rng);
    let schema = h(rng);
    let tick = rng.next_u64() >> rng.below(64);
    let b1 = match write_wsc_one_warp(&input, schema, tick) {
        Ok(b) => b,
        Err(e) => return Rt::refused(crate::codec::text_label(&e.to_string())),
    };
    if write_wsc_one_warp(&input.clone(), schema, tick).ok().as_deref() != Some(&b1[..]) {
        return Rt::failed(b1, "writer-not-deterministic", "second write_wsc_one_warp differs".into());
    }
    let file = match WscFile::from_bytes(b1.clone()) {
        Ok(f) => f,
        Err(e) => return Rt::failed(b1, "wsc-roundtrip", format!("reader rejects writer output: {e}")),
    };
    if let Err(e) = validate_wsc(&file) {
        return Rt::failed(b1, "wsc-roundtrip", format!("validate_wsc rejects writer output: {e}"));
    }
    match compare_view(&input, &file, &schema, tick) {
        Ok(()) => Rt::ok(b1),
        Err(e) => Rt::failed(b1, "wsc-roundtrip", format!("view of written file differs from writer input: {e}")),
    }
}

/// Everything a reader can do with untrusted bytes.
fn touch_wsc(b: &[u8]) -> Result<(), String> {
    let file = WscFile::from_bytes(b.to_vec()).map_err(|e| label(&e))?;
    let verdict = validate_wsc(&file).map_err(|e| label(&e));
    let _ = (file.tick(), file.schema_hash(), file.header().warp_dir_off());
    let count = file.warp_count();
    for i in 0..count.min(4).max(1) {
        let Ok(v) = file.warp_view(i) else { continue };
        let _ = v.validate_index_ranges();
        let _ = (v.warp_id(), v.root_node_id(), v.blobs().len(), v.raw_data().len());
        let nn = v.nodes().len();
        let ne = v.edges().len();
        let mut acc = 0usize;
        for ix in (0..nn.min(2048)).chain([nn, nn.wrapping_add(1), usize::MAX]) {
            acc += v.out_edges_for_node(ix).len();
            for a in v.node_attachments(ix).iter().take(64) {
                acc += v.blob_for_attachment(a).map_or(0, <[u8]>::len);
                acc += usize::from(a.is_atom()) + usize::from(a.is_descend());
            }
        }
        for ix in (0..ne.min(2048)).chain([ne, usize::MAX]) {
            for a in v.edge_attachments(ix).iter().take(64) {
                acc += v.blob_for_attachment(a).map_or(0, <[u8]>::len);
            }
        }
        if let Some(n) = v.nodes().first() {
            acc += v.node_ix(&n.node_id).unwrap_or(0);
        }
        if let Some(e) = v.edges().last() {
            acc += v.edge_ix(&e.edge_id).unwrap_or(0);
        }
        std::hint::black_box(acc);
    }
    verdict
}
fn dec_wsc(b: &[u8]) -> Dec {
    match touch_wsc(b) {
        Ok(()) => Dec::Ok(None),
        Err(e) => Dec::Err(e),
    }
}

// --- store envelope ---------------------------------------------------------

fn g_kind(rng: &mut Rng) -> WscStoreRecordKind {
    *rng.pick(&[WscStoreRecordKind::Snapshot, WscStoreRecordKind::CausalHistory, WscStoreRecordKind::RetainedEvidence])
}
fn rt_envelope(rng: &mut Rng) -> Rt {
    let input = g_input(rng);
    let Ok(wsc) = write_wsc_one_warp(&input, h(rng), rng.next_u64()) else { return Rt::refused("io".into()) };
    let kind = g_kind(rng);
    let basis = h(rng);
    let env = match WscStoreEnvelope::validated(kind, basis, wsc.clone()) {
        Ok(e) => e,
        Err(e) => return Rt::refused(label(&e.kind)),
    };
    let b1 = env.encode();
    if env.clone().encode() != b1 {
        return Rt::failed(b1, "encode-not-deterministic", "second WscStoreEnvelope::encode differs".into());
    }
    let again = WscStoreEnvelope::validated(kind, basis, wsc).map(|e| (e.id(), e.encode()));
    if again.ok() != Some((env.id(), b1.clone())) {
        return Rt::failed(b1, "encode-depends-on-construction", "second construction of the same envelope differs".into());
    }
    match WscStoreEnvelope::decode(&b1) {
        Ok(got) if got == env => Rt::ok(b1),
        other => Rt::failed(b1, "envelope-roundtrip", format!("decode(encode(env)) = {:?}", other.map(|e| e.id()))),
    }
}
fn dec_envelope(b: &[u8]) -> Dec {
    match WscStoreEnvelope::decode(b) {
        Ok(v) => Dec::Ok(Some(v.encode())),
        Err(e) => Dec::Err(label(&e.kind)),
    }
}
fn touch_envelope(b: &[u8]) -> Result<(), String> {
    WscStoreEnvelope::decode(b).map(|_| ()).map_err(|e| label(&e.kind))
}

// --- WAL segment ------------------------------------------------------------

fn digest(s: &str) -> Hash {
    blake3::hash(s.as_bytes()).into()
}
fn epoch() -> w::WriterEpochId {
    w::WriterEpochId::from_hash(digest("verif:epoch"))
}
fn builder(tag: u64, first_lsn: u64, prev_frame: Hash, prev_commit: Hash, authority: w::WalAppendAuthority, kind: w::WalTransactionKind) -> w::WalTransactionBuilder {
    w::WalTransactionBuilder::new(
        epoch(),
        w::WalSegmentId::from_raw(1),
        w::WalTransactionId::from_hash(digest(&format!("verif:tx:{tag}"))),
        kind,
        authority,
        w::Lsn::from_raw(first_lsn),
        prev_frame,
        prev_commit,
        w::WalDurabilityMode::StrictFilesystem,
        w::PayloadCodecId::from_hash(digest("verif:codec")),
        w::PayloadSchemaId::from_hash(digest("verif:schema")),
        1,
        1,
        digest("verif:domain"),
    )
}

/// Build a real segment through the real filesystem store and return its bytes
/// together with the transactions that were appended.
pub fn build_segment(rng: &mut Rng) -> Result<(Vec<u8>, Vec<w::WalCommittedTransaction>), String> {
    use w::WalStorePort;
    let scratch = verif_core::Scratch::new("walseg");
    let mut store = w::FilesystemWalStore::open(scratch.path(), w::WalSegmentId::from_raw(1)).map_err(|e| format!("open: {e}"))?;
    store
        .acquire_writer_epoch(w::WriterEpochRequest {
            epoch_id: epoch(),
            storage_fencing_token: digest("verif:fence"),
            process_identity: digest("verif:proc"),
            host_identity: digest("verif:host"),
            started_at_lsn: w::Lsn::from_raw(0),
            previous_epoch_id: None,
            previous_epoch_final_commit_digest: None,
            lease_or_lock_evidence: digest("verif:lock"),
        })
        .map_err(|e| format!("epoch: {e}"))?;
    let n = rng.range_usize(1, 4);
    let mut txs = Vec::new();
    let mut lsn = 0u64;
    let mut prev_frame = digest("verif:prev-frame");
    let mut prev_commit = digest("verif:prev-commit");
    for i in 0..n {
        let tag = rng.next_u64();
        let tx = if rng.chance(1, 2) {
            w::build_submission_acceptance_transaction(
                builder(tag, lsn, prev_frame, prev_commit, w::WalAppendAuthority::SubmissionIntake, w::WalTransactionKind::SubmissionIntake),
                w::SubmissionAcceptanceRecord { submission_id: h(rng), canonical_envelope_digest: h(rng), idempotency_key_digest: None, acceptance_evidence_digest: h(rng) },
                vec![w::AffectedFrontier { kind: w::AffectedFrontierKind::SubmissionQueue, before_digest: h(rng), after_digest: h(rng) }],
            )
        } else {
            let r = crate::core_codecs::receipt_ref(rng);
            w::build_tick_transaction(
                builder(tag, lsn, prev_frame, prev_commit, w::WalAppendAuthority::TrustedScheduler, w::WalTransactionKind::SchedulerTick),
                w::TickReceiptRecord { receipt_ref: r, decision: w::WalTickDecision::Applied },
                w::WalReceiptCorrelationRecord { receipt_ref: r, causal_parent_receipts: Vec::new() },
                h(rng),
                vec![w::AffectedFrontier { kind: w::AffectedFrontierKind::RuntimeState, before_digest: h(rng), after_digest: h(rng) }],
            )
        }
        .map_err(|e| format!("build tx {i}: {e:?}"))?;
        store.append_transaction(tx.clone()).map_err(|e| format!("append tx {i}: {e}"))?;
        lsn = tx.commit.last_lsn.as_u64() + 1;
        if let Some(f) = tx.frames.last() {
            prev_frame = f.digest();
        }
        prev_commit = tx.commit.commit_digest;
        txs.push(tx);
    }
    let bytes = std::fs::read(store.segment_path()).map_err(|e| format!("read segment: {e}"))?;
    Ok((bytes, txs))
}

fn rt_segment(rng: &mut Rng) -> Rt {
    let (b1, txs) = match build_segment(rng) {
        Ok(x) => x,
        Err(e) => return Rt::refused(format!("harness:{}", crate::codec::text_label(&e))),
    };
    for mode in [w::RecoveryAccessMode::ReadOnly, w::RecoveryAccessMode::Writable] {
        match w::recover_wal_segment_bytes(w::WalSegmentId::from_raw(1), &b1, mode) {
            Ok(rec) => {
                let got = &rec.report.transactions;
                let same = got.len() == txs.len() && got.iter().zip(&txs).all(|(g, t)| g.commit == t.commit && g.frames == t.frames);
                if !same || !matches!(rec.report.tail_posture, w::RecoveryTailPosture::Clean) {
                    return Rt::failed(b1, "segment-roundtrip", format!("recovered {} transactions (tail {:?}) from a segment written with {}", got.len(), rec.report.tail_posture, txs.len()));
                }
            }
            Err(e) => return Rt::failed(b1, "segment-roundtrip", format!("recover_wal_segment_bytes rejects a segment written by FilesystemWalStore: {e}")),
        }
    }
    Rt::ok(b1)
}
fn touch_segment(b: &[u8]) -> Result<(), String> {
    let a = w::recover_wal_segment_bytes(w::WalSegmentId::from_raw(1), b, w::RecoveryAccessMode::ReadOnly).map(|_| ()).map_err(|e| label(&e));
    let c = w::recover_wal_segment_bytes(w::WalSegmentId::from_raw(1), b, w::RecoveryAccessMode::Writable).map(|_| ()).map_err(|e| label(&e));
    a.and(c)
}
fn dec_segment(b: &[u8]) -> Dec {
    match touch_segment(b) {
        Ok(()) => Dec::Ok(None),
        Err(e) => Dec::Err(e),
    }
}

pub fn codecs() -> Vec<Codec> {
    vec![
        Codec {
            name: "wsc.file",
            family: Family::Binary,
            canonical: false,
            cbor_offset: 0,
            decode: dec_wsc,
            touch: touch_wsc,
            roundtrip: rt_wsc,
            chunks: &[8, 16, 32, 40, 56, 64, 128],
            needs_kernel: false,
            in_c12: true,
            in_c13: true,
        },
        Codec {
            name: "wsc.store_envelope",
            family: Family::Binary,
            canonical: false,
            cbor_offset: 0,
            decode: dec_envelope,
            touch: touch_envelope,
            roundtrip: rt_envelope,
            chunks: &[8, 32],
            needs_kernel: false,
            in_c12: true,
            in_c13: true,
        },
        Codec {
            name: "wal.segment",
            family: Family::Binary,
            canonical: false,
            cbor_offset: 0,
            decode: dec_segment,
            touch: touch_segment,
            roundtrip: rt_segment,
            chunks: &[8, 32],
            needs_kernel: false,
            in_c12: true,
            in_c13: true,
        },
    ]
}

/// Re-seal a segment's disk records after mutating a payload so that the
/// mutation reaches the frame/commit decoders behind the record digest.
/// (Format constants copied from causal_wal.rs; `self_check_reseal` proves they
/// are still right before any mutated input is used.)
const SEG_MAGIC: &[u8; 8] = b"ECWALR1!";
const DISK_DOMAIN: &[u8] = b"echo:causal_wal:disk_record:v1\0";

pub fn split_records(seg: &[u8]) -> Option<Vec<(u8, Vec<u8>)>> {
    let mut out = Vec::new();
    let mut off = 0;
    while off < seg.len() {
        if seg.get(off..off + 8)? != SEG_MAGIC {
            return None;
        }
        let kind = *seg.get(off + 8)?;
        let len = u64::from_le_bytes(seg.get(off + 9..off + 17)?.try_into().ok()?) as usize;
        let payload = seg.get(off + 17..off + 17 + len)?.to_vec();
        off += 17 + len + 32;
        if off > seg.len() {
            return None;
        }
        out.push((kind, payload));
    }
    Some(out)
}
pub fn seal_records(recs: &[(u8, Vec<u8>)]) -> Vec<u8> {
    let mut out = Vec::new();
    for (kind, payload) in recs {
        out.extend_from_slice(SEG_MAGIC);
        out.push(*kind);
        out.extend_from_slice(&(payload.len() as u64).to_le_bytes());
        out.extend_from_slice(payload);
        let mut hsh = blake3::Hasher::new();
        hsh.update(DISK_DOMAIN);
        hsh.update(&[*kind]);
        hsh.update(&(payload.len() as u64).to_le_bytes());
        hsh.update(payload);
        out.extend_from_slice(hsh.finalize().as_bytes());
    }
    out
}
pub fn self_check_reseal(seg: &[u8]) -> bool {
    split_records(seg).map(|r| seal_records(&r)) .as_deref() == Some(seg)
}
