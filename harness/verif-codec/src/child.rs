//! The isolated C13 child: runs one decoder over a batch of inputs, writing a
//! progress line before and after every call to an append-only result file so
//! that the parent can tell which input killed it.

use std::io::Read;
use std::time::Instant;

use verif_core::Args;

use crate::alloc;

pub const HARD_CAP: usize = 2 << 30; // live heap above 2 GiB ⇒ allocation fails (after a TRIP marker)
pub const RLIMIT_AS: u64 = 12 << 30;
pub const STACK: usize = 8 << 20;

pub fn read_batch(path: &std::path::Path) -> Option<Vec<Vec<u8>>> {
    let mut f = std::fs::File::open(path).ok()?;
    let mut all = Vec::new();
    f.read_to_end(&mut all).ok()?;
    let mut off = 0usize;
    let n = u32::from_le_bytes(all.get(0..4)?.try_into().ok()?) as usize;
    off += 4;
    let mut out = Vec::with_capacity(n);
    for _ in 0..n {
        let len = u32::from_le_bytes(all.get(off..off + 4)?.try_into().ok()?) as usize;
        off += 4;
        out.push(all.get(off..off + len)?.to_vec());
        off += len;
    }
    Some(out)
}

pub fn write_batch(path: &std::path::Path, inputs: &[&[u8]]) -> std::io::Result<()> {
    let mut buf = Vec::new();
    buf.extend_from_slice(&(inputs.len() as u32).to_le_bytes());
    for i in inputs {
        buf.extend_from_slice(&(i.len() as u32).to_le_bytes());
        buf.extend_from_slice(i);
    }
    std::fs::write(path, buf)
}

struct ProgPtr(*mut u64);
// SAFETY: the pointer targets a process-lifetime shared mapping; only the decode thread writes it.
unsafe impl Send for ProgPtr {}
impl ProgPtr {
    fn set(&self, v: u64) {
        // SAFETY: points into an 8-byte MAP_SHARED mapping that lives as long as the process.
        unsafe { std::ptr::write_volatile(self.0, v) }
    }
}

fn raw_write(fd: i32, s: &str) {
    // SAFETY: write(2) on an fd we opened.
    unsafe {
        libc::write(fd, s.as_ptr().cast(), s.len());
    }
}

pub fn main(args: &Args) -> i32 {
    let decoder = args.extra.get("decoder").cloned().unwrap_or_default();
    let (Some(batch), Some(out)) = (args.extra.get("batch"), args.extra.get("out")) else {
        eprintln!("child: --batch and --out required");
        return 3;
    };
    let Some(codec) = crate::all_codecs().into_iter().find(|c| c.name == decoder) else {
        eprintln!("child: unknown decoder {decoder}");
        return 3;
    };
    let Some(inputs) = read_batch(std::path::Path::new(batch)) else {
        eprintln!("child: cannot read batch");
        return 3;
    };
    let cpath = std::ffi::CString::new(out.as_str()).unwrap_or_default();
    // SAFETY: plain open(2).
    let fd = unsafe { libc::open(cpath.as_ptr(), libc::O_WRONLY | libc::O_APPEND | libc::O_CREAT, 0o644) };
    if fd < 0 {
        eprintln!("child: cannot open out file");
        return 3;
    }
    let no_rlimit = args.extra.contains_key("no-rlimit");
    // SAFETY: setrlimit with a valid struct.
    unsafe {
        if !no_rlimit {
            let lim = libc::rlimit { rlim_cur: RLIMIT_AS, rlim_max: RLIMIT_AS };
            libc::setrlimit(libc::RLIMIT_AS, &lim);
        }
        // no core files from deliberate crashes
        let zero = libc::rlimit { rlim_cur: 0, rlim_max: 0 };
        libc::setrlimit(libc::RLIMIT_CORE, &zero);
    }
    let from: usize = args.extra.get("from").and_then(|s| s.parse().ok()).unwrap_or(0);
    let skip: std::collections::BTreeSet<usize> = args.extra.get("skip").map(|s| s.split(',').filter_map(|x| x.parse().ok()).collect()).unwrap_or_default();
    // 8-byte shared progress word next to the result file
    let ppath = std::ffi::CString::new(format!("{out}.prog")).unwrap_or_default();
    // SAFETY: open/ftruncate/mmap with checked results.
    let prog = unsafe {
        let pfd = libc::open(ppath.as_ptr(), libc::O_RDWR | libc::O_CREAT | libc::O_TRUNC, 0o644);
        if pfd < 0 || libc::ftruncate(pfd, 8) != 0 {
            eprintln!("child: cannot create progress file");
            return 3;
        }
        let p = libc::mmap(std::ptr::null_mut(), 8, libc::PROT_READ | libc::PROT_WRITE, libc::MAP_SHARED, pfd, 0);
        if p == libc::MAP_FAILED {
            eprintln!("child: cannot map progress file");
            return 3;
        }
        ProgPtr(p.cast::<u64>())
    };
    let touch = codec.touch;
    let needs_kernel = codec.needs_kernel;
    let handle = std::thread::Builder::new().name("decode".into()).stack_size(STACK).spawn(move || {
        if needs_kernel {
            if let Err(e) = crate::wasm::ensure_kernel() {
                raw_write(fd, &format!("KERNELFAIL {e}\n"));
                return 4;
            }
        }
        raw_write(fd, "READY\n");
        alloc::arm_cap(HARD_CAP, fd);
        let mut pending = String::new();
        for (i, input) in inputs.iter().enumerate() {
            if i < from || skip.contains(&i) {
                continue;
            }
            // progress word (shared mapping, no syscall): index of the call in flight + 1
            prog.set(i as u64 + 1);
            let t0 = Instant::now();
            let base = alloc::window_start();
            let res = touch(input);
            let peak = alloc::window_peak(base);
            let us = t0.elapsed().as_micros();
            let (tag, label) = match &res {
                Ok(()) => ("ok", "-".to_owned()),
                Err(l) => ("err", l.replace(' ', "_")),
            };
            pending.push_str(&format!("D {i} {tag} {label} {peak} {us}\n"));
            if pending.len() > 16 << 10 {
                raw_write(fd, &pending);
                pending.clear();
            }
        }
        prog.set(0);
        raw_write(fd, &pending);
        raw_write(fd, "END\n");
        0
    });
    match handle {
        Ok(h) => match h.join() {
            Ok(code) => code,
            Err(_) => 101, // the decode thread panicked; the panic message is already on stderr
        },
        Err(e) => {
            eprintln!("child: cannot spawn decode thread: {e}");
            3
        }
    }
}


/// In-process runner for the interpreter lane (`cargo miri run … --inproc 1`):
/// no rlimits, no shared mapping, no threads — only file reads (needs
/// `-Zmiri-disable-isolation`) and the real decoder on every input of the batch.
pub fn inproc(args: &Args) -> i32 {
    let decoder = args.extra.get("decoder").cloned().unwrap_or_default();
    let Some(batch) = args.extra.get("batch") else {
        eprintln!("inproc: --batch required");
        return 3;
    };
    let Some(codec) = crate::all_codecs().into_iter().find(|c| c.name == decoder) else {
        eprintln!("inproc: unknown decoder {decoder}");
        return 3;
    };
    let Some(inputs) = read_batch(std::path::Path::new(batch)) else {
        eprintln!("inproc: cannot read batch");
        return 3;
    };
    let (mut ok, mut err) = (0u64, 0u64);
    for input in &inputs {
        // both the buffer as allocated and a copy shifted by one byte: a zero-copy reader
        // must answer with a value or a typed error whatever the alignment of its input
        match (codec.touch)(input) {
            Ok(()) => ok += 1,
            Err(_) => err += 1,
        }
        let mut shifted: Vec<u8> = Vec::with_capacity(input.len() + 1);
        shifted.push(0);
        shifted.extend_from_slice(input);
        match (codec.touch)(&shifted[1..]) {
            Ok(()) => ok += 1,
            Err(_) => err += 1,
        }
    }
    println!("INPROC decoder={decoder} inputs={} ok={ok} err={err}", inputs.len());
    0
}
