//! Counting global allocator: live bytes, peak live bytes, and a hard cap that
//! makes the allocation fail (⇒ `handle_alloc_error` abort, exactly what an
//! unbounded pre-allocation does on a real host) after leaving a marker on the
//! child's result fd. Only the C13 child arms the cap; everywhere else the
//! allocator just counts.

use std::alloc::{GlobalAlloc, Layout, System};
use std::sync::atomic::{AtomicI32, AtomicUsize, Ordering};

pub struct Counting;

static LIVE: AtomicUsize = AtomicUsize::new(0);
static PEAK: AtomicUsize = AtomicUsize::new(0);
/// 0 = disarmed.
static HARD_CAP: AtomicUsize = AtomicUsize::new(0);
static TRIP_FD: AtomicI32 = AtomicI32::new(-1);
static TRIPPED: AtomicUsize = AtomicUsize::new(0);
static LARGEST_REQ: AtomicUsize = AtomicUsize::new(0);

#[inline]
fn on_alloc(size: usize) {
    let live = LIVE.fetch_add(size, Ordering::Relaxed) + size;
    PEAK.fetch_max(live, Ordering::Relaxed);
}

fn write_trip(size: usize) {
    TRIPPED.store(size.max(1), Ordering::SeqCst);
    let fd = TRIP_FD.load(Ordering::SeqCst);
    if fd < 0 {
        return;
    }
    // "TRIP <decimal>\n" without allocating.
    let mut buf = [0u8; 40];
    let mut n = 0;
    for b in b"TRIP " {
        buf[n] = *b;
        n += 1;
    }
    let mut digits = [0u8; 24];
    let mut d = 0;
    let mut v = size;
    if v == 0 {
        digits[0] = b'0';
        d = 1;
    }
    while v > 0 {
        digits[d] = b'0' + (v % 10) as u8;
        v /= 10;
        d += 1;
    }
    while d > 0 {
        d -= 1;
        buf[n] = digits[d];
        n += 1;
    }
    buf[n] = b'\n';
    n += 1;
    // SAFETY: plain write(2) of a stack buffer to an fd we own.
    unsafe {
        libc::write(fd, buf.as_ptr().cast(), n);
    }
}

#[inline]
fn over_cap(size: usize) -> bool {
    let cap = HARD_CAP.load(Ordering::Relaxed);
    if cap == 0 {
        return false;
    }
    LARGEST_REQ.fetch_max(size, Ordering::Relaxed);
    LIVE.load(Ordering::Relaxed).saturating_add(size) > cap
}

// SAFETY: forwards to `System`; bookkeeping only.
unsafe impl GlobalAlloc for Counting {
    unsafe fn alloc(&self, layout: Layout) -> *mut u8 {
        if over_cap(layout.size()) {
            write_trip(layout.size());
            return std::ptr::null_mut();
        }
        let p = System.alloc(layout);
        if !p.is_null() {
            on_alloc(layout.size());
        }
        p
    }
    unsafe fn alloc_zeroed(&self, layout: Layout) -> *mut u8 {
        if over_cap(layout.size()) {
            write_trip(layout.size());
            return std::ptr::null_mut();
        }
        let p = System.alloc_zeroed(layout);
        if !p.is_null() {
            on_alloc(layout.size());
        }
        p
    }
    unsafe fn dealloc(&self, ptr: *mut u8, layout: Layout) {
        System.dealloc(ptr, layout);
        LIVE.fetch_sub(layout.size(), Ordering::Relaxed);
    }
    unsafe fn realloc(&self, ptr: *mut u8, layout: Layout, new_size: usize) -> *mut u8 {
        if new_size > layout.size() && over_cap(new_size - layout.size()) {
            write_trip(new_size);
            return std::ptr::null_mut();
        }
        let p = System.realloc(ptr, layout, new_size);
        if !p.is_null() {
            if new_size >= layout.size() {
                on_alloc(new_size - layout.size());
            } else {
                LIVE.fetch_sub(layout.size() - new_size, Ordering::Relaxed);
            }
        }
        p
    }
}

/// Start a measurement window: peak := live. Returns the baseline.
pub fn window_start() -> usize {
    let live = LIVE.load(Ordering::SeqCst);
    PEAK.store(live, Ordering::SeqCst);
    live
}

/// Peak live bytes above `baseline` since `window_start`.
pub fn window_peak(baseline: usize) -> usize {
    PEAK.load(Ordering::SeqCst).saturating_sub(baseline)
}

pub fn arm_cap(cap_bytes: usize, fd: i32) {
    TRIP_FD.store(fd, Ordering::SeqCst);
    HARD_CAP.store(cap_bytes, Ordering::SeqCst);
}

#[allow(dead_code)]
pub fn tripped() -> usize {
    TRIPPED.load(Ordering::SeqCst)
}
