//! Per-codec measured counters (merged into evidence at the end of a run).

use std::collections::BTreeMap;
use std::sync::Mutex;

use verif_core::{json, Value};

static GLOBAL: Mutex<BTreeMap<String, BTreeMap<String, u64>>> = Mutex::new(BTreeMap::new());
static MAXES: Mutex<BTreeMap<String, BTreeMap<String, u64>>> = Mutex::new(BTreeMap::new());

#[derive(Default)]
pub struct Local {
    codec: String,
    adds: BTreeMap<String, u64>,
    maxes: BTreeMap<String, u64>,
}

impl Local {
    pub fn new(codec: &str) -> Self {
        Self { codec: codec.to_owned(), adds: BTreeMap::new(), maxes: BTreeMap::new() }
    }
    pub fn add(&mut self, key: &str, n: u64) {
        *self.adds.entry(key.to_owned()).or_insert(0) += n;
    }
    pub fn max(&mut self, key: &str, n: u64) {
        let e = self.maxes.entry(key.to_owned()).or_insert(0);
        if n > *e {
            *e = n;
        }
    }
}

impl Drop for Local {
    fn drop(&mut self) {
        let mut g = GLOBAL.lock().unwrap_or_else(std::sync::PoisonError::into_inner);
        let e = g.entry(self.codec.clone()).or_default();
        for (k, v) in &self.adds {
            *e.entry(k.clone()).or_insert(0) += v;
        }
        drop(g);
        let mut g = MAXES.lock().unwrap_or_else(std::sync::PoisonError::into_inner);
        let e = g.entry(self.codec.clone()).or_default();
        for (k, v) in &self.maxes {
            let x = e.entry(k.clone()).or_insert(0);
            if v > x {
                *x = *v;
            }
        }
    }
}

pub fn snapshot() -> Value {
    let g = GLOBAL.lock().unwrap_or_else(std::sync::PoisonError::into_inner);
    let m = MAXES.lock().unwrap_or_else(std::sync::PoisonError::into_inner);
    let mut out = serde_json::Map::new();
    for (codec, kv) in g.iter() {
        let mut o = serde_json::Map::new();
        let mut errs = serde_json::Map::new();
        for (k, v) in kv {
            if let Some(e) = k.strip_prefix("err:") {
                errs.insert(e.to_owned(), json!(v));
            } else {
                o.insert(k.clone(), json!(v));
            }
        }
        if let Some(mx) = m.get(codec) {
            for (k, v) in mx {
                o.insert(k.clone(), json!(v));
            }
        }
        if !errs.is_empty() {
            o.insert("typed_errors".into(), Value::Object(errs));
        }
        out.insert(codec.clone(), Value::Object(o));
    }
    for (codec, mx) in m.iter() {
        if !out.contains_key(codec) {
            let mut o = serde_json::Map::new();
            for (k, v) in mx {
                o.insert(k.clone(), json!(v));
            }
            out.insert(codec.clone(), Value::Object(o));
        }
    }
    Value::Object(out)
}

pub fn total(key: &str) -> u64 {
    let g = GLOBAL.lock().unwrap_or_else(std::sync::PoisonError::into_inner);
    g.values().map(|kv| kv.get(key).copied().unwrap_or(0)).sum()
}

pub fn get(codec: &str, key: &str) -> u64 {
    let g = GLOBAL.lock().unwrap_or_else(std::sync::PoisonError::into_inner);
    g.get(codec).and_then(|kv| kv.get(key).copied()).unwrap_or(0)
}
