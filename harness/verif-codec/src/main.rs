//! verif-codec — C12 (canonical encodings are bijective) and C13 (decoders and
//! byte-level entry points are total) over the real codecs of flyingrobots/echo.
//!
//! `--prop C12|C13 …` runs a check; `--child 1 --decoder NAME --batch F --out F`
//! is the isolated C13 child (same binary).

mod abi;
mod alloc;
mod c12;
mod c13;
mod cborx;
mod child;
mod codec;
mod core_codecs;
mod edict;
mod mutate;
mod scene;
mod stats;
mod wasm;
mod wsc;

#[global_allocator]
static GLOBAL: alloc::Counting = alloc::Counting;

pub fn all_codecs() -> Vec<codec::Codec> {
    let mut v = abi::codecs();
    v.extend(edict::codecs());
    v.extend(core_codecs::codecs());
    v.extend(wsc::codecs());
    v.extend(scene::codecs());
    v.extend(wasm::codecs());
    v
}

fn main() {
    let args = verif_core::Args::parse();
    if args.extra.contains_key("child") {
        std::process::exit(child::main(&args));
    }
    if args.extra.contains_key("inproc") {
        std::process::exit(child::inproc(&args));
    }
    let code = match args.prop.as_str() {
        "C12" => c12::run(&args, all_codecs()),
        "C13" => c13::run(&args, all_codecs()),
        other => {
            println!("HARNESS-ERROR unknown property {other}");
            2
        }
    };
    std::process::exit(code);
}
